"""C01 - No peer input can crash, corrupt or wedge the client.
Model part: theorem `step_never_crashes` etc. over NegModel + correspondence on abstract scenarios.
Memory safety of the C text (partial): byte-level mutation stream under ASan/UBSan, oracle only."""
import base64
import re

import negsim
import vlib
from negsim import H, NSURI


def b64(b):
    return base64.b64encode(b).decode()


def adversarial_payloads(rng):
    """Concrete elements with hostile field contents (oversized, missing, malformed)."""
    sasl = NSURI["sasl"]
    out = []
    for n in (0, 1, 16, 124, 125, 126, 200, 1000):
        salt = b64(rng.randbytes(n)) if n else ""
        out.append("<challenge xmlns='%s'>%s</challenge>" % (sasl, b64(("r=abcdef,s=%s,i=4096" % salt).encode())))
    for it in ("0", "1", "-5", "99999", "abc", "", "4096x"):
        out.append("<challenge xmlns='%s'>%s</challenge>" % (sasl, b64(("r=abcdef,s=QSXCR+Q6sek8bf92,i=%s" % it).encode())))
    for raw in (b"r=", b"s=,i=,r=", b",,,,", b"r=a,s=!!!!,i=1", b"\x00r=a,s=AAAA,i=1", b"r=" + b"A" * 5000 + b",s=AAAA,i=1"):
        out.append("<challenge xmlns='%s'>%s</challenge>" % (sasl, b64(raw)))
    for raw in (b'nonce="', b'nonce=,realm=', b'realm="' + b"x" * 3000 + b'",nonce="n"', b'nonce="n",qop="' + b"q" * 2000 + b'"', b"=", b",", b'nonce="n\\"', b'a=b,nonce=n'):
        out.append("<challenge xmlns='%s'>%s</challenge>" % (sasl, b64(raw)))
    for q in ("auth-int, auth", "auth , auth-int", " auth", "auth-int,,auth", ", ,", "auth-conf auth", "\tauth"):
        out.append("<challenge xmlns='%s'>%s</challenge>" % (sasl, b64(('realm="r",nonce="n",qop="%s",charset=utf-8,algorithm=md5-sess' % q).encode())))
    # over-padded / oddly padded base64 in challenges (the decoder's length computation)
    for b in ("QUJDQUJD========", "QUJD====", "====", "QQ======", "QUJDQQ==QUJD", "QUJDQUJDQUJD=", "=QUJD", "QUJD=QUJ"):
        out.append("<challenge xmlns='%s'>%s</challenge>" % (sasl, b))
    out.append("<challenge xmlns='%s'>%s</challenge>" % (sasl, "A" * 7))
    out.append("<stream:error/>")
    out.append("<stream:error><text xmlns='urn:ietf:params:xml:ns:xmpp-streams'/></stream:error>")
    out.append("<stream:error>text<conflict xmlns='urn:ietf:params:xml:ns:xmpp-streams'/>more</stream:error>")
    out.append("<iq id='_xmpp_bind1' type='result'><bind xmlns='%s'><jid/></bind></iq>" % NSURI["bind"])
    out.append("<iq id='_xmpp_bind1' type='result'><bind xmlns='%s'><jid>%s</jid></bind></iq>" % (NSURI["bind"], "j" * 9000))
    out.append("<iq id='_xmpp_bind1'/>")
    out.append("<enabled xmlns='urn:xmpp:sm:3' resume='true' id='%s'/>" % ("i" * 6000))
    out.append("<enabled xmlns='urn:xmpp:sm:3' resume=''/>")
    out.append("<a xmlns='urn:xmpp:sm:3' h='99999999999999999999999'/>")
    out.append("<a xmlns='urn:xmpp:sm:3' h='-1'/>")
    out.append("<resumed xmlns='urn:xmpp:sm:3' previd='SMID' h='18446744073709551615'/>")
    out.append("<failed xmlns='urn:xmpp:sm:3' h='7'><item-not-found xmlns='urn:ietf:params:xml:ns:xmpp-stanzas'/></failed>")
    out.append("<stream:features><mechanisms xmlns='%s'>%s</mechanisms></stream:features>" % (sasl, "<mechanism>%s</mechanism>" % ("M" * 3000)))
    out.append("<stream:features><mechanisms xmlns='%s'><mechanism/><mechanism>PLAIN</mechanism></mechanisms></stream:features>" % sasl)
    out.append("<stream:features><compression xmlns='http://jabber.org/features/compress'><method/></compression></stream:features>")
    out.append("<message>" + "<x>" * 300 + "</x>" * 300 + "</message>")
    out.append("<message a='" + "v" * 70000 + "'/>")
    out.append("<message>" + "t" * 70000 + "</message>")
    out.append("<message>&#0;</message>")
    out.append("<message>&unknown;</message>")
    out.append("<handshake xmlns='jabber:component:accept'>zz</handshake>")
    # server-controlled hash keys (ids, attribute names) with bytes >= 0x80 in every position class
    for key in ("id-\u65e5", "\u20ac", "\u2713x", "\u65e5\u672c\u8a9e", "\u00e9", "a\u0416", "\U0001F600"):
        key = key.encode("utf-8").decode("latin1")      # (payload strings carry bytes as latin-1 characters)
        out.append("<iq id='%s' type='result'/>" % key)
        out.append("<message %s='v'><body>x</body></message>" % ("a" + key))
        out.append("<presence id='%s'><x xmlns='urn:x' %s='1'/></presence>" % (key, "k" + key))
    return out


def mutation_lines(chk, n):
    """Concrete simworld scenarios: conforming negotiations with hostile / mutated bytes injected at every stage,
    random chunking, then a reconnect and release to show the object is still usable."""
    rng = chk.rng
    pay = adversarial_payloads(rng)
    lines = []
    HDR = negsim.item_xml("h1")
    for _ in range(n):
        flags = rng.choice([0, 0, 2, 8, 16, 32, 64, 64 + 128])
        mech = rng.choice(["PLAIN", "DIGEST-MD5", "SCRAM-SHA-1", "SCRAM-SHA-256", "SCRAM-SHA-512", "SCRAM-SHA-1-PLUS", "ANONYMOUS"])
        st = negsim.happy_client(tls=rng.random() < .5, mechs=[mech], sm=rng.random() < .7, session=rng.choice([None, "req"]),
                                 zlib=bool(flags & 64) and rng.random() < .7)
        if mech.startswith("SCRAM"):
            idx = [i for i, c in enumerate(st) if c and c[0] is negsim.SUCCESS][0]
            st.insert(idx, [negsim.challenge("scram_ok")])
        if mech == "DIGEST-MD5":
            idx = [i for i, c in enumerate(st) if c and c[0] is negsim.SUCCESS][0]
            st.insert(idx, [negsim.challenge("digest_ok")])
            st.insert(idx + 1, [negsim.challenge("digest_ok")])
        cut = rng.randrange(1, len(st) + 1)
        chunks = ["".join(negsim.item_xml(i) for i in c) for c in st[:cut]]
        kind = rng.randrange(6)
        if kind == 0:
            chunks.append(rng.choice(pay))
        elif kind == 1:   # truncate the last chunk and continue with something else
            c = chunks[-1]
            chunks[-1] = c[:rng.randrange(1, len(c))]
            chunks.append(rng.choice(pay))
        elif kind == 2:   # flip bytes
            c = bytearray(chunks[-1].encode())
            for _k in range(rng.randrange(1, 4)):
                c[rng.randrange(len(c))] = rng.randrange(256)
            chunks[-1] = c.decode("latin1")
        elif kind == 3:   # hostile payload in place of the expected element
            chunks[-1] = rng.choice(pay)
        elif kind == 4:   # several hostile payloads in one read
            chunks.append("".join(rng.choice(pay) for _k in range(rng.randrange(2, 5))))
        else:
            chunks.append(rng.choice(pay))
            chunks.append("</stream:stream>" + rng.choice(pay))
        cmds = ["conn", "log", "jid " + H("user@example.com/res" if mech != "ANONYMOUS" else "example.com"), "pass " + H("secret"), "flags %d" % flags,
                "cb %s %s" % (H("tls-exporter"), "00" * 32), "smcb", "hdef 0 s - - - 1", "hadd 0", "connect client", "run"]
        for c in chunks:
            data = c.encode("latin1")
            # random chunking of this piece into reads
            cuts = sorted(set(rng.randrange(1, max(2, len(data))) for _k in range(rng.choice([0, 0, 1, 2, 5])))) if len(data) > 2 else []
            prev = 0
            for cpos in cuts + [len(data)]:
                if cpos > prev:
                    cmds += ["rx " + data[prev:cpos].hex(), "run"]
                prev = cpos
            cmds.append("run")
        cmds += ["clock %d" % rng.choice([1, 2000, 15000, 40000]), "run", "run", "send " + H("<message id='u'/>"), "run", "is"]
        if rng.random() < .5:
            cmds += ["rxclose", "run"]
        else:
            cmds += ["disc", "run", "clock 2000", "run"]
        cmds += ["run", "is", "connect client", "run", "rx " + HDR.encode().hex(), "run", "run", "is", "release"]
        lines.append(";".join(cmds))
    # every hostile payload where a SASL exchange waits for it (per mechanism), and on an established stream
    for mech in ("DIGEST-MD5", "SCRAM-SHA-1", "SCRAM-SHA-256-PLUS", "PLAIN"):
        for pl in pay:
            pre = [HDR, negsim.item_xml(negsim.features(False, [mech]))]
            cmds = ["conn", "log", "jid " + H("user@example.com/res"), "pass " + H("secret"), "flags 4" if "PLUS" in mech else "flags 0",
                    "cb %s %s" % (H("tls-exporter"), "00" * 32), "connect client", "run"]
            for c in pre:
                cmds += ["rx " + c.encode().hex(), "run", "run"]
            cmds += ["rx " + pl.encode("latin1").hex(), "run", "run", "run", "is", "rxclose", "run", "run", "is",
                     "connect client", "run", "rx " + HDR.encode().hex(), "run", "is", "release"]
            lines.append(";".join(cmds))
    done = ["".join(negsim.item_xml(i) for i in c) for c in negsim.happy_client(tls=False, session="req", sm=True)]
    for pl in pay:
        cmds = ["conn", "log", "jid " + H("user@example.com/res"), "pass " + H("secret"), "smcb", "hdef 0 s - - - 1", "hadd 0", "connect client", "run"]
        for c in done:
            cmds += ["rx " + c.encode().hex(), "run", "run"]
        cmds += ["rx " + pl.encode("latin1").hex(), "run", "run", "send " + H("<message id='u'/>"), "run", "is", "rxclose", "run", "run", "is",
                 "connect client", "run", "rx " + HDR.encode().hex(), "run", "is", "release"]
        lines.append(";".join(cmds))
    # text pending at a stream restart (the element that triggers the restart and an unfinished text in ONE read),
    # followed by a pretty-printed restarted stream
    pretty = "<stream:features>\n <bind xmlns='urn:ietf:params:xml:ns:xmpp-bind'/>\n</stream:features>"
    for trig, mech in (("<success xmlns='%s'/>" % NSURI["sasl"], "PLAIN"), ("<proceed xmlns='%s'/>" % NSURI["tls"], None)):
        for pend in ("<message><body>pending text", "<message><body>p", "<message>x", "<iq><q>12"):
            feats = negsim.features(mech is None, ["PLAIN"])
            cmds = ["conn", "log", "jid " + H("user@example.com/res"), "pass " + H("secret"), "connect client", "run",
                    "rx " + HDR.encode().hex(), "run", "run", "rx " + negsim.item_xml(feats).encode().hex(), "run", "run",
                    "rx " + (trig + pend).encode().hex(), "run", "run",
                    "rx " + HDR.encode().hex(), "run", "rx " + pretty.encode().hex(), "run", "run", "rx " + "\n \n".encode().hex(), "run",
                    "is", "rxclose", "run", "run", "connect client", "run", "rx " + HDR.encode().hex(), "run", "rx " + "\n".encode().hex(), "run", "is", "release"]
            lines.append(";".join(cmds))
    # malformed chunks that fill the 4096-byte read buffer (exactly, and around it), with the logger installed
    for stage in (0, 1, 2):
        pre = [HDR, negsim.item_xml(negsim.features(False, ["PLAIN"]))][:stage]
        for size in (4095, 4096, 4097, 8192):
            for bad in ("<a>" + "x" * (size - 7) + "</b>", "x" * size, "<" + "a" * (size - 1)):
                cmds = ["conn", "log", "jid " + H("user@example.com/res"), "pass " + H("secret"), "connect client", "run"]
                for c in pre:
                    cmds += ["rx " + c.encode().hex(), "run", "run"]
                cmds += ["rx " + bad.encode().hex(), "run", "run", "run", "is", "connect client", "run", "rx " + HDR.encode().hex(), "run", "is", "release"]
                lines.append(";".join(cmds))
    return lines


def judge_raw(chk, line, out):
    case = {"label": "mutation", "sim": line, "model_in": "(byte-level scenario: implementation only)"}
    if out.startswith("CRASH"):
        chk.fail(case, "implementation crashed / hung: %s" % out[:300], "mutation")
        return
    m = re.search(r"END live=(\d+) allocerr=(\d+) fds=(\d+)/(\d+)$", out)
    if not m:
        chk.fail(case, "scenario did not run to its end", "mutation")
        return
    if int(m.group(2)) or m.group(3) != m.group(4):
        chk.fail(case, "allocator/descriptor misuse: %s" % m.group(0), "mutation")
    for tok in ("CLOSEERR", "SENDERR", "RECVERR", "ALLOCERR"):
        if tok in out:
            chk.fail(case, "harness anomaly %s" % tok, "mutation")
    # per attempt: at most one disconnect; the second connect must be accepted once the first attempt is over
    attempts = re.split(r" R=0 ", " " + out)
    for a in attempts[1:]:
        if len(re.findall(r"E0:disconnect", a)) > 1:
            chk.fail(case, "two disconnect notifications for one connection", "mutation")
    rcs = re.findall(r" R=(-?\d+) ", " " + out)
    states = re.findall(r"S=(\d{3})", out)
    if len(rcs) >= 2 and len(states) >= 2 and states[1] == "001" and rcs[1] != "0":
        chk.fail(case, "disconnected object refused to connect again (rc=%s)" % rcs[1], "mutation")


def run(chk):
    negsim.run_check(chk, "C01", [("shapes", negsim.stage_shape_scenarios), ("policy", negsim.policy_scenarios), ("deadlines", negsim.deadline_scenarios), ("reconnect", negsim.reconnect_scenarios), ("resume", negsim.resume_scenarios)], 500)
    n = 4000 if chk.tier == "thorough" else 500
    lines = mutation_lines(chk, n)
    exe = vlib.build_simworld()
    outs = vlib.run_parallel(exe, lines, timeout=40, per_case_timeout=8)
    for l, o in zip(lines, outs):
        chk.evaluations += 1
        chk.count("mutation")
        chk.nontrivial.add(hash(o))
        judge_raw(chk, l, o)
    chk.assumptions.append("C memory safety is NOT proved: the mutation stream runs the real code under ASan/UBSan only (partial, see DESIGN.md section 7)")
    chk.extra["mutation_scenarios"] = n


def replay(path):
    import json
    rec = json.load(open(path))
    f = rec.get("failure") or {}
    case = f.get("case") or {}
    if case.get("label") == "mutation":
        exe = vlib.build_simworld()
        out = vlib.run_lines(exe, [case["sim"]])[0]
        print("scenario: %s\nimpl    : %s" % (case["sim"][:2000], out[:3000]))
        return 1 if out.startswith("CRASH") else 0
    return negsim.replay_common("C01", path)
