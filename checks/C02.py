"""C02 - Credentials obey the TLS and mechanism policy the user configured."""
import negsim


def run(chk):
    negsim.run_check(chk, "C02", [("policy", negsim.policy_scenarios), ("rawtls", negsim.rawtls_scenarios)], 500)


def replay(path):
    return negsim.replay_common("C02", path)
