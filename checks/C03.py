"""C03 - Negotiation follows the server's offers; 'connected' means fully negotiated."""
import negsim

KNOWN = "C03-send-raw-bypasses-negotiation-gate"


def run(chk):
    # known finding: xmpp_send_raw() during negotiation reaches the wire (class: a `userraw` element written
    # before the connection was reported up)
    chk.known_preds[KNOWN] = lambda rec: "userraw" in rec.get("what", "")
    results = negsim.run_check(chk, "C03", [("policy", negsim.policy_scenarios), ("reconnect", negsim.reconnect_scenarios), ("resume", negsim.resume_scenarios), ("userid", negsim.userid_scenarios), ("slashres", negsim.slashres_scenarios)], 700)
    for sc, toks, info, mt in results:
        up = False
        for t in toks:
            if t in ("E:connect", "E:raw_connect"):
                up = True
            if t.startswith("E:disconnect") or t.startswith("R="):
                up = False if t.startswith("E:disconnect") else up
            if t in ("W:userraw", "T:userraw") and not up:
                chk.fail({"label": sc.label, "sim": sc.sim_line(), "model_in": sc.model_line()},
                         "userraw: data submitted with xmpp_send_raw() reached the wire before the connection was reported up", "known")
                break


def replay(path):
    return negsim.replay_common("C03", path)
