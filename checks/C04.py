"""C04 - Stream management never loses, duplicates or misnumbers outbound stanzas."""
import smcommon


def run(chk):
    smcommon.run_check(chk, "C04")


def replay(path):
    return smcommon.replay_check("C04", path)
