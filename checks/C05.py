"""C05 - Stream-management inbound count is exact."""
import smcommon


def run(chk):
    smcommon.run_check(chk, "C05")


def replay(path):
    return smcommon.replay_check("C05", path)
