"""C06 - Send queue is byte-exact FIFO under any transport back-pressure.

Layers: (1) Coq theorems over SendQueueModel (Properties_C06.v); (2) correspondence: the unmodified
library in the simulated world (harness/c/simworld.c, scripted send() results) against the extracted model on
the same operation history; (3) the property oracle below, an independent list-level bookkeeping over the
implementation's trace (it never looks at the model's output).
"""
import itertools
import json
import os
import re
import time

import vlib

JID = "user@example.com/res"
HDR = ("<?xml version='1.0'?><stream:stream xmlns='jabber:client' xmlns:stream='http://etherx.jabber.org/streams' "
       "id='s1' from='example.com' version='1.0'>")
F_SASL = ("<stream:features><mechanisms xmlns='urn:ietf:params:xml:ns:xmpp-sasl'><mechanism>PLAIN</mechanism>"
          "</mechanisms></stream:features>")
SUCCESS = "<success xmlns='urn:ietf:params:xml:ns:xmpp-sasl'/>"
BIND = ("<iq type='result' id='_xmpp_bind1'><bind xmlns='urn:ietf:params:xml:ns:xmpp-bind'><jid>" + JID +
        "</jid></bind></iq>")
ENABLED = "<enabled xmlns='urn:xmpp:sm:3' id='SMID' resume='true'/>"

# texts the library generates by itself
T_REQ = "<r xmlns='urn:xmpp:sm:3'/>"                         # SM ack request, follows a countable element
T_ACK0 = '<a h="0" xmlns="urn:xmpp:sm:3"/>'                  # answer to the server's <r/>
T_END = "</stream:stream>"                                   # xmpp_disconnect
T_ERR = ('<stream:error><invalid-xml xmlns="urn:ietf:params:xml:ns:xmpp-streams"/>'
         '<text xmlns="urn:ietf:params:xml:ns:xmpp-streams">parse error</text></stream:error>')
RX_R = "<r xmlns='urn:xmpp:sm:3'/>"
RX_BAD = "</a>"

MODES = ("raw", "plain", "sm")


def hx(s):
    if isinstance(s, str):
        s = s.encode()
    return s.hex() if s else "-"


def features2(sm):
    return ("<stream:features><bind xmlns='urn:ietf:params:xml:ns:xmpp-bind'/>" +
            ("<sm xmlns='urn:xmpp:sm:3'/>" if sm else "") + "</stream:features>")


def prefix(mode):
    """Fixed negotiation bringing the connection into the connected state."""
    p = ["conn", "jid " + hx(JID), "pass " + hx("pw")]
    if mode == "raw":
        return p + ["connect raw", "run", "run"]
    p += ["connect client", "run", "rx " + hx(HDR), "run", "rx " + hx(F_SASL), "run", "run", "rx " + hx(SUCCESS), "run",
          "run", "rx " + hx(HDR), "run", "rx " + hx(features2(mode == "sm")), "run", "run", "rx " + hx(BIND), "run", "run"]
    if mode == "sm":
        p += ["rx " + hx(ENABLED), "run", "run"]
    return p


# ----------------------------------------------------------------------------------------------
# abstract operations of a history (python tuples) and their two renderings
#   ("send", api, text)  api in send/sendraw/sendst     user submits text
#   ("send", "sendraw", text, tail)                      xmpp_send_raw(conn, buf, len(text)) where buf = text + tail is a longer
#                                                        NUL-terminated buffer: the element is `text`, `tail` must never show up
#   ("disc",)                                            xmpp_disconnect -> library queues </stream:stream>
#   ("srv_r",)            server sends <r/> (sm mode): iteration, then library queues <a h="0"/>
#   ("srv_bad",)          server sends unparsable bytes: iteration, then library queues a stream error
#   ("srv_a", h)          server sends <a h='h'/> (sm mode): iteration, then the ack is processed
#   ("tx", [tokens])      schedule of the coming send() results
#   ("run",) ("drop", "o"|"y") ("qlen",) ("dumpq",)
# Once the parser has seen unparsable bytes every later server chunk is another parse error.
# ----------------------------------------------------------------------------------------------
def render(mode, ops):
    """-> (simworld scenario line, model history line)"""
    sw = prefix(mode) + ["is"]
    md = ["1" if mode == "sm" else "0"]
    broken = False
    ntok = 0
    for o in ops:
        k = o[0]
        if k == "send":
            if len(o) > 3 and o[3]:
                sw.append("sendraw %s %d" % (hx(o[2] + o[3]), len(o[2].encode())))
            else:
                sw.append("%s %s" % (o[1], hx(o[2])))
            md.append("U " + hx(o[2]))
        elif k == "disc":
            sw.append("disc")
            md.append("S " + hx(T_END))
        elif k in ("srv_r", "srv_bad", "srv_a"):
            rx = RX_R if k == "srv_r" else RX_BAD if k == "srv_bad" else "<a xmlns='urn:xmpp:sm:3' h='%d'/>" % o[1]
            sw += ["rx " + hx(rx), "run"]
            md.append("I")
            if broken or k == "srv_bad":
                broken = True
                md.append("L " + hx(T_ERR))
            elif k == "srv_r":
                if mode == "sm":
                    md.append("S " + hx(T_ACK0))
            elif mode == "sm":
                md.append("A %d" % o[1])
        elif k == "tx":
            sw.append("tx " + ",".join(o[1]))
            # (EINTR before the first byte is a recoverable refusal like EAGAIN: one token of the model's alphabet)
            md.append("T " + ",".join("again" if t == "intr" else t for t in o[1]))
            ntok += len(o[1])
        elif k == "run":
            sw.append("run")
            md.append("I")
        elif k == "drop":
            sw.append("drop " + o[1])
            md.append("DO" if o[1] == "o" else "DY")
        elif k == "qlen":
            sw.append("qlen")
            md.append("QL")
        elif k == "dumpq":
            sw.append("dumpq")
            md.append("DQ")
        else:
            raise ValueError(o)
    # flush: enough all-accepting iterations to drain whatever is pending (or to hit a scripted error)
    for _ in range(ntok + 2):
        sw.append("run")
        md.append("I")
    sw += ["qlen", "dumpq", "is"]
    md += ["QL", "DQ"]
    return ";".join(sw), ";".join(md)


TOK = re.compile(r"\S+")


def canon(trace):
    """Implementation trace -> (body tokens in the model's vocabulary, problems)."""
    if trace is None or trace.startswith("CRASH"):
        return None, [trace or "no output"]
    toks = TOK.findall(trace)
    marks = [i for i, t in enumerate(toks) if t.startswith("S=")]
    problems = []
    if len(marks) < 2:
        return None, ["trace without the two state markers: " + trace[:200]]
    if not toks[marks[0]].startswith("S=010"):
        problems.append("prefix did not reach the connected state: " + toks[marks[0]])
    body = toks[marks[0] + 1:marks[-1]]
    out = []
    for t in body:
        if re.match(r"[WT]\d+:", t):
            out.append("W:" + t.split(":", 1)[1])
        elif re.match(r"X\d+$", t):
            continue
        elif re.match(r"E\d+:disconnect", t):
            out.append("E:disconnect")
        elif t.startswith("SMQ["):
            out.append(re.sub(r"handled=\d+,", "", t))
        else:
            out.append(t)
    m = re.search(r"END live=(\d+) allocerr=(\d+)", trace)
    if not m:
        problems.append("no END record")
    elif m.group(1) != "0" or m.group(2) != "0":
        problems.append("allocator: " + m.group(0))
    for t in toks:
        if t.startswith(("ALLOCERR", "SENDERR", "RECVERR", "CLOSEERR", "BADCMD", "NOCONN", "NOFD", "SENDST:")):
            problems.append("anomaly " + t)
    return out, problems


# ----------------------------------------------------------------------------------------------
# the property oracle: list-level reference bookkeeping over the implementation's observable behaviour
# ----------------------------------------------------------------------------------------------
class El:
    __slots__ = ("text", "user", "sent", "started", "link")

    def __init__(self, text, user, link=None):
        self.text = text.encode() if isinstance(text, str) else text
        self.user = user
        self.sent = 0
        self.started = False
        self.link = link      # the element an SM request follows


def oracle(mode, ops, body):
    """Returns a list of violated clauses (empty = the property holds on this trace)."""
    bad = []
    pend = []          # queued, not yet completely on the wire, not dropped: in submission order
    finished = []      # completely on the wire
    live = True
    req_outstanding = False
    broken = False
    it = iter(body)
    # causes that may legitimately end the connection in these histories: a scripted hard write error, unparsable input,
    # the user's disconnect
    may_end = any((o[0] == "tx" and "err" in o[1]) or o[0] in ("srv_bad", "disc") for o in ops)

    def nxt(kind):
        for t in it:
            return t
        bad.append("trace ended early (expected %s)" % kind)
        return None

    def submit(text, user, countable):
        nonlocal req_outstanding
        if not live:
            return
        e = El(text, user)
        pend.append(e)
        if mode == "sm" and countable and not req_outstanding:
            req_outstanding = True
            pend.append(El(T_REQ, False, link=e))

    def iteration():
        """consume the tokens of one loop iteration; the bytes must continue the pending elements in order"""
        nonlocal live, req_outstanding
        was_live = live
        data = b""
        while True:
            t = nxt("|")
            if t is None or t == "|":
                break
            if t.startswith("W:"):
                data += bytes.fromhex(t[2:])
            elif t == "E:disconnect":
                live = False
                req_outstanding = False
                if not may_end:
                    bad.append("the connection was given up although the transport only refused recoverably (EAGAIN / EINTR): "
                               "queued elements can no longer reach the wire")
            else:
                bad.append("unexpected token %s inside an iteration" % t[:40])
        if data and not was_live:
            bad.append("bytes written on a torn-down connection")
        while data:
            if not pend:
                bad.append("wire carries %d byte(s) that belong to no queued element: %r" % (len(data), data[:40]))
                return
            e = pend[0]
            rest = e.text[e.sent:]
            n = min(len(rest), len(data))
            if data[:n] != rest[:n]:
                bad.append("wire is not the FIFO continuation: got %r, the oldest pending element continues with %r"
                           % (data[:40], rest[:40]))
                return
            e.sent += n
            e.started = True
            data = data[n:]
            if e.sent == len(e.text):
                finished.append(pend.pop(0))
        if was_live and pend:
            pend[0].started = True      # every iteration attempts the oldest pending element

    for o in ops_with_flush(ops):
        k = o[0]
        if k == "send":
            submit(o[2], True, True)
        elif k == "disc":
            submit(T_END, False, False)
        elif k in ("srv_r", "srv_bad", "srv_a"):
            iteration()
            if live:
                if broken or k == "srv_bad":
                    broken = True
                    submit(T_ERR, False, True)
                elif k == "srv_r" and mode == "sm":
                    submit(T_ACK0, False, False)
                elif k == "srv_a" and mode == "sm":
                    req_outstanding = False
        elif k == "tx":
            pass
        elif k == "run":
            iteration()
        elif k == "qlen":
            t = nxt("L=")
            if t is None:
                break
            want = sum(1 for e in pend if e.user and not e.started)
            if t != "L=%d" % want:
                bad.append("queue length %s, but %d user element(s) are queued and not started" % (t, want))
        elif k == "drop":
            t = nxt("D=")
            if t is None:
                break
            cands = [e for e in pend if e.user and (not live or not e.started)]
            if t == "D=null":
                if cands:
                    bad.append("drop returned nothing although a user element that was never started is queued")
                continue
            got = bytes.fromhex(t[2:]) if t != "D=-" else b""
            exact = [e for e in pend if e.text == got]
            if not exact:
                if any(e.text == got for e in finished):
                    bad.append("drop returned %r: that element is already completely on the wire" % got[:60])
                else:
                    bad.append("drop returned %r which is not the text of a queued element" % got[:60])
                continue
            e = exact[0]
            if not e.user:
                bad.append("drop removed a library-owned element %r" % got[:60])
            if live and (e.started or e.sent):
                bad.append("drop removed an element that was already started (%d byte(s) on the wire)" % e.sent)
            if cands and e is not (cands[0] if o[1] == "o" else cands[-1]):
                bad.append("drop %s returned %r, not the %s droppable user element" %
                           (o[1], got[:40], "oldest" if o[1] == "o" else "youngest"))
            i = pend.index(e)
            pend.pop(i)
            if i < len(pend) and pend[i].link is e:      # the ack request that followed it goes with it
                pend.pop(i)
                req_outstanding = False
        elif k == "dumpq":
            nxt("Q[")
            nxt("SMQ[")
    if live and pend and not bad:
        bad.append("%d element(s) never reached the wire although the transport accepted everything at the end" % len(pend))
    return bad


def ops_with_flush(ops):
    ntok = sum(len(o[1]) for o in ops if o[0] == "tx")
    return list(ops) + [("run",)] * (ntok + 2) + [("qlen",), ("dumpq",)]


# ----------------------------------------------------------------------------------------------
# generators
# ----------------------------------------------------------------------------------------------
class Texts:
    """distinct user texts (a serial number in front), so that any reordering or repetition is visible"""

    def __init__(self, rng):
        self.rng = rng
        self.n = 0

    def make(self, api=None, length=None):
        rng = self.rng
        self.n += 1
        api = api or rng.choice(["send", "sendraw", "sendst"])
        if length is None:
            length = rng.choice([1, 2, 3, 5, 8, 13, 40, 1, 3, 8, 0] if rng.random() < 0.93 else [1022, 1023, 1024, 1025, 1100, 2049])
        if api == "sendst":
            head, tail = '<message id="u%d"><body>' % self.n, "</body></message>"
            fill = max(1, length - len(head) - len(tail))
            return api, head + "".join(rng.choice("abcdefgh") for _ in range(fill)) + tail
        if api in ("send", "sendraw") and length == 0:
            return api, ""                      # an empty element (xmpp_send_raw(conn, "", 0) / xmpp_send_raw_string("%s", ""))
        head = "%d:" % self.n
        fill = max(0, length - len(head))
        return api, head + "".join(rng.choice("ABCDEFGHxyz<>/ '\"=&%") for _ in range(fill))


SCHEDS = {
    "all": lambda n: [],
    "bytewise": lambda n: ["k1"] * n,
    "stutter": lambda n: (["again", "k2", "k1", "intr", "k3", "all"] * n)[:n],
    "abort": lambda n: ["k2", "again", "err"],
}


def small_scope(maxlen, mode):
    """every op sequence up to maxlen over a 6-op alphabet x 4 write schedules"""
    alpha = ["u", "l", "r", "o", "y", "q"]
    for L in range(1, maxlen + 1):
        for seq in itertools.product(alpha, repeat=L):
            if "u" not in seq and "l" not in seq:
                continue                      # nothing is ever queued
            for sname, sf in SCHEDS.items():
                ops = []
                toks = sf(3 * L)
                if toks:
                    ops.append(("tx", toks))
                n = 0
                for s in seq:
                    if s == "u":
                        n += 1
                        if n % 2:       # a slice of a longer buffer
                            ops.append(("send", "sendraw", "%d:%s" % (n, "abc"[:n % 3 + 1]), "#rest-of-buffer"[:n + 4]))
                        else:
                            ops.append(("send", "sendraw", "%d:%s" % (n, "abc"[:n % 3 + 1])))
                    elif s == "l":
                        ops.append(("disc",) if mode != "sm" or n % 2 == 0 else ("srv_r",))
                    elif s == "r":
                        ops.append(("run",))
                    elif s == "o":
                        ops.append(("drop", "o"))
                    elif s == "y":
                        ops.append(("drop", "y"))
                    else:
                        ops.append(("qlen",))
                yield ops, "small-%s-%s-len%d" % (mode, sname, L)


def random_history(rng, mode, nops):
    tx = Texts(rng)
    ops = []
    qtexts = 0
    for _ in range(nops):
        r = rng.random()
        if r < 0.30:
            api, t = tx.make()
            if api == "sendraw" and t and rng.random() < 0.5:
                ops.append(("send", api, t, "~" + "".join(rng.choice("TAILtail<>/") for _ in range(rng.choice([0, 1, 5, 30])))))
            else:
                ops.append(("send", api, t))
            qtexts += 1
        elif r < 0.40:
            c = rng.random()
            if mode == "sm" and c < 0.45:
                ops.append(("srv_r",))
            elif c < 0.80:
                ops.append(("disc",))
            else:
                ops.append(("srv_bad",))
        elif r < 0.46 and mode == "sm":
            ops.append(("srv_a", rng.choice([0, 1, 2, 3, 5, 100])))
        elif r < 0.60:
            n = rng.randint(1, 5)
            toks = []
            for _ in range(n):
                c = rng.random()
                if c < 0.18:
                    toks.append("all")
                elif c < 0.70:
                    toks.append("k%d" % rng.choice([1, 2, 3, 4, 5, 7, 8, 12, 13, 16, 25, 26, 27, 40, 155, 1023, 1024]))
                elif c < 0.96:
                    toks.append("again" if rng.random() < .7 else "intr")
                else:
                    toks.append("err")
            ops.append(("tx", toks))
        elif r < 0.75:
            ops.append(("run",))
        elif r < 0.83:
            ops.append(("drop", "o"))
        elif r < 0.91:
            ops.append(("drop", "y"))
        elif r < 0.97:
            ops.append(("qlen",))
        else:
            ops.append(("dumpq",))
    return ops


def corpus_cases():
    p = os.path.join(vlib.ROOT, "corpus", "C06.txt")
    out = []
    if os.path.exists(p):
        for l in open(p):
            l = l.strip()
            if l and not l.startswith("#"):
                rec = json.loads(l)
                out.append((rec["mode"], [tuple(o) for o in rec["ops"]], "corpus"))
    return out


def gen_cases(chk):
    rng = chk.rng
    thorough = chk.tier == "thorough"
    cases = corpus_cases()
    for mode in ("raw", "sm"):
        for ops, kind in small_scope(5 if thorough else 3, mode):
            cases.append((mode, ops, kind))
    if not thorough:   # a sample of the length-4 and length-5 sequences
        for mode in ("raw", "sm"):
            pool = [c for c in small_scope(5, mode) if c[1].endswith(("len4", "len5"))]
            for ops, kind in rng.sample(pool, 1200):
                cases.append((mode, ops, kind + "-sample"))
    nrand = 60000 if thorough else 2500
    for i in range(nrand):
        mode = MODES[i % 3]
        cases.append((mode, random_history(rng, mode, rng.choice([4, 8, 12, 20, 30])), "random-" + mode))
    # boundary texts of the 1024-byte _send_valist buffer, every API, with byte-exact short writes
    tx = Texts(rng)
    for api in ("send", "sendraw", "sendst"):
        for ln in (1021, 1022, 1023, 1024, 1025, 1026, 2048, 4097):
            for sched in ([], ["k1", "again", "k1023", "k1", "all"], ["k1024", "k1"], ["k1022", "again"]):
                _, t = tx.make(api, ln)
                _, t2 = tx.make(api, 3)
                ops = ([("tx", sched)] if sched else []) + [("send", api, t), ("send", api, t2), ("qlen",), ("run",), ("qlen",),
                                                          ("drop", "y"), ("run",), ("dumpq",)]
                cases.append((rng.choice(MODES), ops, "boundary-1024"))
                if api == "sendraw":      # the same as slices of longer buffers
                    ops = ([("tx", sched)] if sched else []) + [("send", api, t, "~tail"), ("send", api, t2, "~" + "x" * 1100), ("qlen",),
                                                              ("run",), ("qlen",), ("drop", "y"), ("drop", "o"), ("run",), ("dumpq",)]
                    cases.append((rng.choice(MODES), ops, "boundary-1024-slice"))
    return cases


def _private_copy(build, tag):
    """Other checks running concurrently on another tree wipe build/drv when they rebuild the implementation;
    run from a private copy so that a history batch is not interrupted (retry the build if it vanished)."""
    import shutil
    d = os.path.join(vlib.BUILD, "c06-run")
    os.makedirs(d, exist_ok=True)
    last = None
    for _ in range(5):
        try:
            exe = build()
            dst = os.path.join(d, "%s-%d-%s" % (tag, os.getpid(), os.path.basename(exe)))
            shutil.copy2(exe, dst)
            return dst
        except (FileNotFoundError, OSError, vlib.BuildError) as e:
            last = e
            if isinstance(e, vlib.BuildError) and "No such file or directory" not in str(e):
                raise
            time.sleep(0.5)
    raise vlib.BuildError("could not obtain %s: %s" % (tag, last))


def build_impl():
    return _private_copy(vlib.build_simworld, "simworld")


def build_model():
    return _private_copy(lambda: vlib.build_ocaml_model("C06"), "model")


def cleanup_private():
    d = os.path.join(vlib.BUILD, "c06-run")
    for f in os.listdir(d) if os.path.isdir(d) else []:
        if "-%d-" % os.getpid() in f:
            try:
                os.remove(os.path.join(d, f))
            except OSError:
                pass


def evaluate(chk, cases, exe, mexe):
    lines = [render(m, ops) for m, ops, _ in cases]
    impl = vlib.run_parallel(exe, [l[0] for l in lines], timeout=600)
    model = vlib.run_parallel(mexe, [l[1] for l in lines], timeout=600) if mexe else None
    for i, (mode, ops, kind) in enumerate(cases):
        chk.evaluations += 1
        chk.count(kind)
        case = {"mode": mode, "ops": ops}
        key = json.dumps(case)
        body, problems = canon(impl[i])
        if body is None:
            chk.fail(case, "implementation: %s" % problems[0], extra={"scenario": lines[i][0]})
            if model is not None:
                chk.disagree("sendqueue", case, (impl[i] or "")[:300], (model[i] or "")[:3000])
            continue
        for p in problems:
            chk.fail(case, "implementation: " + p, extra={"scenario": lines[i][0]})
        if any(t.startswith("W:") for t in body):
            chk.nontrivial.add(key)
        # (a history with an empty element is judged by the correspondence only: an empty element is invisible on the wire,
        #  the byte-level reference of the oracle cannot tell when it was "started" or "sent")
        has_empty = any(o[0] == "send" and o[2] == "" for o in ops)
        for b in ([] if has_empty else oracle(mode, ops, body)[:3]):
            chk.fail(case, b, extra={"scenario": lines[i][0], "trace": " ".join(body)[:2000]})
        if model is not None:
            chk.traces_validated += 1
            if model[i] != " ".join(body):
                chk.disagree("sendqueue", case, " ".join(body)[:3000], (model[i] or "")[:3000])
        for t in body:
            if t.startswith("D=") and t != "D=null":
                chk.count("obs:drop-returned")
            elif t == "D=null":
                chk.count("obs:drop-null")
            elif t == "E:disconnect":
                chk.count("obs:write-error-disconnect")
        if i % 1499 == 0:
            chk.sample({"mode": mode, "ops": ops[:12], "impl": " ".join(body)[:400], "model": (model[i] if model else None) and model[i][:400]})


def run(chk):
    chk.rule = ("histories = interleavings of user sends (xmpp_send_raw_string / xmpp_send_raw incl. slices of a longer buffer (len < strlen) / xmpp_send; texts of 1..40 bytes and at "
                "1021..1026/2048/4097 bytes around the 1024-byte _send_valist buffer), library-generated sends (</stream:stream> by "
                "xmpp_disconnect, <a/> provoked by the server's <r/>, stream error provoked by unparsable input, the SM <r/> piggy-back), "
                "server acks, write schedules (all / k<n> / EAGAIN / hard error), loop iterations, drop oldest/youngest, queue length, "
                "queue dumps; in raw mode, after a full negotiation without SM and with SM enabled. Exhaustive: every sequence up to "
                "length 3 (quick) / 5 (thorough) over {user send, library send, run, drop o, drop y, qlen} x 4 schedules (all, "
                "byte-wise, stutter with EAGAIN, abort with a hard error) x {raw, sm}; plus random longer histories. Non-trivial = a "
                "distinct history in which at least one byte reached the wire after the negotiation.")
    chk.assumptions = [
        "simworld (harness/c/simworld.c): send(2) replaced by a scripted transport; TLS and compression layers are not in the path",
        "the model's ids are never reused, the C allocator may reuse addresses: userdata is only compared against an element that "
        "sits in front of the request in the queue, so address reuse cannot alias (argued, not modelled)",
        "oracle: an element counts as started once an iteration of the event loop has attempted it (wip), also when the transport "
        "accepted none of its bytes",
        "empty elements (len 0) are generated (the simulated send() accepts a zero-length write with result 0, as send(2) does); histories containing one are decided by model/implementation correspondence only, the byte-level oracle skips them",
    ]
    chk.prove()
    exe = build_impl()
    mexe = None
    try:
        mexe = build_model()
    except vlib.BuildError as e:
        chk.broken.append({"kind": "extract", "name": "Extract_C06", "detail": str(e)[:500]})
    cases = gen_cases(chk)
    try:
        evaluate(chk, cases, exe, mexe)
    finally:
        cleanup_private()
    # keep the report small: identical failures on many histories are one finding
    seen = set()
    uniq = []
    for f in sorted(chk.failures, key=lambda f: len(json.dumps(f["case"]))):
        k = re.sub(r"0x[0-9a-f]+|\d+", "N", f["what"])[:80]
        if k not in seen:
            seen.add(k)
            uniq.append(f)
    chk.extra["failing_histories_total"] = len(chk.failures)
    chk.failures[:] = uniq


def replay(path):
    rec = json.load(open(path))
    f = rec.get("failure") or (rec.get("disagreements") or [{}])[0]
    case = f.get("case")
    if not case:
        print("replay file names no concrete history: %s" % json.dumps(rec.get("broken_obligations"))[:800])
        return 1
    mode, ops = case["mode"], [tuple(o) for o in case["ops"]]
    sw, md = render(mode, ops)
    impl = vlib.run_lines(build_impl(), [sw])[0]
    try:
        try:
            mexe = build_model()
        except vlib.BuildError:
            vlib.coq_property("C06")      # no extracted model for this tree yet: build it (translator + Coq + extraction)
            mexe = build_model()
        model = vlib.run_lines(mexe, [md])[0]
        # the model of the code as found (without fixes/C06-1.patch), for comparison
        model_u = vlib.run_lines(mexe, [md[0] + "u" + md[1:]])[0]
    except vlib.BuildError:
        model = model_u = "(model unavailable)"
    cleanup_private()
    body, problems = canon(impl)
    verdict = problems + (oracle(mode, ops, body) if body is not None else [])
    print("history : %s %s" % (mode, json.dumps(ops)))
    print("scenario: %s" % sw)
    print("impl    : %s" % (" ".join(body) if body is not None else impl))
    print("model   : %s" % model)
    if model_u != model:
        print("model of the code without fixes/C06-1.patch: %s" % model_u)
    print("property: %s" % ("holds" if not verdict else "; ".join(verdict)))
    return 0 if not verdict and (body is None or " ".join(body) == model) else 1
