"""C07 - SASL responses are what the RFCs say for every credential and challenge.

Two correspondence levels:
  * function level : sasl_plain / sasl_scram / SCRAM_ClientKey / sasl_digest_md5 / xmpp_rand_nonce called
                     directly (harness/c/c07_driver.c, getrandom wrapped) vs the extracted SaslModel;
  * negotiation    : complete <auth>/<challenge>/<response>, legacy <iq> and component <handshake>
                     exchanges through the unmodified event loop in the simulated world; the payloads
                     captured from the wire are compared with the model (make_scram_init_msg, sasl_scram,
                     sasl_digest_md5, sasl_plain, external_payload, legacy_payload, component_handshake).
Property oracle (independent of the model): a server-side RFC 5802 verifier (hashlib.pbkdf2_hmac / hmac),
the RFC 2831 response-value, RFC 4616, XEP-0178's identity rule, XEP-0078 and XEP-0114, in Python.
"""
import base64
import binascii
import hashlib
import hmac
import json
import os
import re
import xml.etree.ElementTree as ET

import vlib

DRIVER = os.path.join(vlib.ROOT, "harness", "c", "c07_driver.c")
HN = {"1": "sha1", "256": "sha256", "512": "sha512"}
MECH = {"1": "SCRAM-SHA-1", "256": "SCRAM-SHA-256", "512": "SCRAM-SHA-512"}
NS_SASL = "urn:ietf:params:xml:ns:xmpp-sasl"
KNOWN_BREAKS = {}


def hx(b):
    return bytes(b).hex() if b else "-"


def unhx(s):
    return b"" if s == "-" else bytes.fromhex(s)


def b64(b):
    return base64.b64encode(b)


def b64d(s):
    """strict RFC 4648 decode; None when malformed"""
    try:
        if len(s) % 4 or not re.fullmatch(rb"[A-Za-z0-9+/]*={0,2}", s):
            return None
        return base64.b64decode(s, validate=True)
    except (binascii.Error, ValueError):
        return None


def xor(a, b):
    return bytes(x ^ y for x, y in zip(a, b))


# ------------------------------------------------------------------------------------------------
# independent references
# ------------------------------------------------------------------------------------------------
def ref_plain(authid, pw):
    return b64(b"\0" + authid + b"\0" + pw)


def saslname_decode(s):
    out = bytearray()
    i = 0
    while i < len(s):
        c = s[i:i + 1]
        if c == b",":
            return None
        if c == b"=":
            e = s[i + 1:i + 3]
            if e == b"2C":
                out += b","
            elif e == b"3D":
                out += b"="
            else:
                return None
            i += 3
        else:
            out += c
            i += 1
    return bytes(out)


def hi(hname, password, salt, icount):
    """RFC 5802 Hi() written out (U1 = HMAC(str, salt || INT(1)), Uk = HMAC(str, Uk-1), xor of all)"""
    if icount > 64:
        return hashlib.pbkdf2_hmac(hname, password, salt, icount)
    u = hmac.new(password, salt + b"\0\0\0\1", hname).digest()
    acc = u
    for _ in range(icount - 1):
        u = hmac.new(password, u, hname).digest()
        acc = xor(acc, u)
    return acc


def scram_server_verify(hname, user, password, salt, icount, client_first, server_first, client_final,
                        plus, cbtype, cbdata, secured):
    """What an RFC 5802 server does with the client's two messages. Returns a list of problems."""
    parts = client_first.split(b",", 2)
    if len(parts) < 3:
        return ["client-first-message has no gs2 header"]
    flag, authzid, bare = parts
    pb = []
    if plus:
        if flag != b"p=" + cbtype:
            pb.append("gs2 cbind flag %r, expected p=%s" % (flag, cbtype.decode("latin-1")))
    else:
        if flag not in (b"n", b"y"):
            pb.append("gs2 cbind flag %r" % flag)
        elif (flag == b"y") != bool(secured):
            pb.append("gs2 cbind flag %r on a %s connection" % (flag, "TLS" if secured else "plain-text"))
    if authzid != b"":
        pb.append("unexpected authzid %r" % authzid)
    gs2 = flag + b"," + authzid + b","
    attrs = bare.split(b",")
    if len(attrs) != 2 or not attrs[0].startswith(b"n=") or not attrs[1].startswith(b"r="):
        return pb + ["client-first-message-bare is not n=<saslname>,r=<nonce>: %r" % bare[:80]]
    name = saslname_decode(attrs[0][2:])
    if name is None:
        pb.append("saslname %r is not escaped per RFC 5802 5.1" % attrs[0][2:][:60])
    elif name != user:
        pb.append("saslname decodes to %r, expected %r" % (name[:40], user[:40]))
    cnonce = attrs[1][2:]
    if not cnonce or not re.fullmatch(rb"[\x21-\x2b\x2d-\x7e]+", cnonce):
        pb.append("client nonce %r is not printable" % cnonce[:40])
    sf = server_first.split(b",")
    full_nonce = sf[0][2:]
    if not full_nonce.startswith(cnonce):
        pb.append("harness error: server nonce does not extend the client nonce")
    fa = client_final.split(b",")
    if len(fa) != 3 or not fa[0].startswith(b"c=") or not fa[1].startswith(b"r=") or not fa[2].startswith(b"p="):
        return pb + ["client-final-message is not c=..,r=..,p=..: %r" % client_final[:100]]
    if fa[1][2:] != full_nonce:
        pb.append("nonce echo: r=%r, server sent %r" % (fa[1][2:][:60], full_nonce[:60]))
    cbind = b64d(fa[0][2:])
    want = gs2 + (cbdata if plus else b"")
    if cbind is None:
        pb.append("c= is not base64")
    elif cbind != want:
        pb.append("c= decodes to %r, expected gs2 header%s %r" % (cbind[:70], " ++ cb data" if plus else "", want[:70]))
    proof = b64d(fa[2][2:])
    hl = hashlib.new(hname).digest_size
    if proof is None or len(proof) != hl:
        return pb + ["p= is not base64 of %d bytes" % hl]
    auth_message = bare + b"," + server_first + b"," + fa[0] + b"," + fa[1]
    salted = hi(hname, password, salt, icount)
    client_key = hmac.new(salted, b"Client Key", hname).digest()
    stored_key = hashlib.new(hname, client_key).digest()
    sig = hmac.new(stored_key, auth_message, hname).digest()
    if hashlib.new(hname, xor(proof, sig)).digest() != stored_key:
        pb.append("ClientProof does not verify (H(proof XOR HMAC(StoredKey, AuthMessage)) != StoredKey)")
    return pb


def parse_directives(s):
    """RFC 2831 7.1/7.2 list of key=value | key="quoted-string"; returns list of (key, value) or None."""
    out = []
    i, n = 0, len(s)
    while i < n:
        while i < n and s[i:i + 1] in (b",", b" ", b"\t"):
            i += 1
        if i >= n:
            break
        j = s.find(b"=", i)
        if j < 0:
            return None
        key = s[i:j]
        i = j + 1
        if s[i:i + 1] == b'"':
            i += 1
            v = bytearray()
            while i < n and s[i:i + 1] != b'"':
                if s[i:i + 1] == b"\\":
                    i += 1
                v += s[i:i + 1]
                i += 1
            if i >= n:
                return None
            i += 1
            out.append((key, bytes(v)))
        else:
            j = s.find(b",", i)
            j = n if j < 0 else j
            out.append((key, s[i:j]))
            i = j
    return out


def digest_verify(reply_b64, node, domain, password, srv):
    """srv: dict with nonce, realms (list), qops (list or None) the server offered."""
    reply = b64d(reply_b64)
    if reply is None:
        return ["reply is not base64"]
    d = parse_directives(reply)
    if d is None:
        return ["reply is not a directive list: %r" % reply[:100]]
    pb = []
    keys = [k for k, _ in d]
    f = dict(d)
    for k in (b"username", b"realm", b"nonce", b"cnonce", b"nc", b"digest-uri", b"response"):
        if keys.count(k) != 1:
            pb.append("directive %s appears %d times" % (k.decode(), keys.count(k)))
    if keys.count(b"qop") > 1:
        pb.append("qop appears more than once")
    if pb:
        return pb
    qop = f.get(b"qop", b"auth")
    offered = srv["qops"] if srv["qops"] is not None else [b"auth"]
    if qop not in (b"auth", b"auth-int", b"auth-conf") or qop not in offered:
        pb.append("qop=%r is not one of the alternatives %r" % (qop, offered))
    if f[b"username"] != node:
        pb.append("username %r, expected %r" % (f[b"username"][:40], node[:40]))
    if f[b"nonce"] != srv["nonce"]:
        pb.append("nonce %r, server sent %r" % (f[b"nonce"][:40], srv["nonce"][:40]))
    realms = [r for r in srv["realms"] if r]
    if realms:
        if f[b"realm"] not in realms:
            pb.append("realm %r not one of the offered %r" % (f[b"realm"][:40], realms))
    elif f[b"realm"] != domain:
        pb.append("realm %r, expected the domain %r" % (f[b"realm"][:40], domain[:40]))
    if f[b"digest-uri"] != b"xmpp/" + domain:
        pb.append("digest-uri %r" % f[b"digest-uri"][:60])
    if f[b"nc"] != b"00000001":
        pb.append("nc %r" % f[b"nc"])
    if not f[b"cnonce"]:
        pb.append("empty cnonce")
    a1 = hashlib.md5(f[b"username"] + b":" + f[b"realm"] + b":" + password).digest() + b":" + f[b"nonce"] + b":" + f[b"cnonce"]
    a2 = b"AUTHENTICATE:" + f[b"digest-uri"]
    if qop in (b"auth-int", b"auth-conf"):
        a2 += b":" + b"0" * 32
    kd = hashlib.md5(hashlib.md5(a1).hexdigest().encode() + b":" + f[b"nonce"] + b":" + f[b"nc"] + b":" +
                     f[b"cnonce"] + b":" + qop + b":" + hashlib.md5(a2).hexdigest().encode()).hexdigest().encode()
    if f[b"response"] != kd:
        pb.append("response %r is not the RFC 2831 2.1.2.1 value %r" % (f[b"response"], kd))
    return pb


def ref_external(jid, xaddrs):
    """XEP-0178: no authzid ("=") when the certificate names no XMPP address or exactly the one the client
    connects as; otherwise the JID."""
    if len(xaddrs) == 0 or (len(xaddrs) == 1 and xaddrs[0] == jid):
        return b"="
    return b64(jid)


def split_jid(j):
    res = None
    if b"/" in j:
        j, res = j.split(b"/", 1)
    node = None
    if b"@" in j:
        node, j = j.split(b"@", 1)
    return node, j, res


def nonce_of(rnd, length):
    return rnd[:length // 2].hex().upper().encode()[:max(length - 1, 0)]


# ------------------------------------------------------------------------------------------------
# function-level cases
# ------------------------------------------------------------------------------------------------
SPECIAL = [b"=", b",", b"\"", b"'", b"\\", b" ", b"\xc3\xa9", b"\xe2\x82\xac", b"\xf0\x9f\x98\x80", b"\x01", b"\x7f", b"\xff", b"&", b"<"]


def rand_text(rng, n, alphabet=None, special=0.15):
    out = bytearray()
    while len(out) < n:
        if rng.random() < special:
            out += rng.choice(SPECIAL)
        elif alphabet:
            out.append(rng.choice(alphabet))
        else:
            out.append(rng.randrange(1, 256))
    return bytes(out[:n]).replace(b"\0", b"\1")


PRINT_NOCOMMA = bytes(c for c in range(0x21, 0x7f) if c != 0x2c)


def gen_fn_cases(chk):
    """returns list of dicts: line, kind, model (bool), meta (for the oracle)"""
    rng = chk.rng
    thorough = chk.tier == "thorough"
    cases = []

    def add(line, kind, model=True, **meta):
        cases.append({"line": line, "kind": kind, "model": model, "meta": meta})

    # ---- PLAIN: every length 0..300 of both fields
    for n in range(0, 301):
        a = rand_text(rng, n if n % 2 == 0 else rng.randrange(0, 40))
        p = rand_text(rng, n if n % 2 == 1 else rng.randrange(0, 40))
        add("P %s %s" % (hx(a), hx(p)), "plain", a=a, p=p)
    for a, p in ((b"", b""), (b"a", b""), (b"", b"b"), (b"=,=", b",=,"), (b"x" * 1023, b"y" * 1024), (b"\xff" * 3, b"\x01")):
        add("P %s %s" % (hx(a), hx(p)), "plain-edge", a=a, p=p)

    # ---- xmpp_rand_nonce: every buffer length
    for ln in list(range(0, 70)) + [128, 255, 256]:
        rnd = rng.randbytes(ln // 2 + rng.randrange(0, 3))
        add("N %d %s" % (ln, hx(rnd)), "nonce-len", rnd=rnd, ln=ln)
    for b in (0x00, 0x0f, 0xf0, 0xff, 0x9a, 0xa9):
        add("N 33 %s" % hx(bytes([b]) * 16), "nonce-edge", rnd=bytes([b]) * 16, ln=33)

    # ---- SCRAM, well-formed server challenges
    def scram_case(alg, user, pw, salt, icount, cnonce, snonce, plus, cbtype, cbdata, secured, model, kind, ext=b""):
        gs2 = (b"p=" + cbtype + b",," if plus else (b"y,," if secured else b"n,,"))
        cb = b64(gs2 + (cbdata if plus else b""))
        fb = b"n=" + user.replace(b"=", b"=3D").replace(b",", b"=2C") + b",r=" + cnonce
        sfirst = b"r=" + cnonce + snonce + b",s=" + b64(salt) + b",i=" + str(icount).encode() + ext
        add("S %s%s %s %s %s %s" % (alg, "p" if plus else "", hx(cb), hx(sfirst), hx(fb), hx(pw)), kind, model,
            alg=alg, user=user, pw=pw, salt=salt, i=icount, cfirst=gs2 + fb, sfirst=sfirst, plus=plus, cbtype=cbtype,
            cbdata=cbdata, secured=secured, wf=True)

    def rnd_scram(alg, icount, model, kind, ulen=None, plen=None, slen=None, ext=b""):
        user = rand_text(rng, rng.randrange(1, 20) if ulen is None else ulen)
        pw = rand_text(rng, rng.randrange(0, 30) if plen is None else plen)
        salt = rng.randbytes(rng.randrange(1, 33) if slen is None else slen)
        cnonce = rng.randbytes(16).hex().upper().encode()
        snonce = bytes(rng.choice(PRINT_NOCOMMA) for _ in range(rng.randrange(1, 40)))
        plus = rng.random() < 0.4
        cbtype = rng.choice([b"tls-unique", b"tls-exporter", b"tls-server-end-point"])
        cbdata = rng.randbytes(rng.choice([12, 32, 0, 1, 36]))
        scram_case(alg, user, pw, salt, icount, cnonce, snonce, plus, cbtype, cbdata, plus or rng.random() < 0.5, model, kind, ext)

    # RFC 5802 / RFC 7677 published examples (user / pencil)
    scram_case("1", b"user", b"pencil", base64.b64decode("QSXCR+Q6sek8bf92"), 4096, b"fyko+d2lbbFgONRv9qkxdawL",
               b"3rfcNHYJY1ZVvWVs7j", False, b"", b"", False, True, "scram-rfc-vector")
    scram_case("256", b"user", b"pencil", base64.b64decode("W22ZaJ0SNY7soEsUEjb6gQ=="), 4096, b"rOprNGfwEbeRWgbNEkqO",
               b"%hvYDpWUa2RaTCAfuxFIlj)hNlF$k0", False, b"", b"", False, False, "scram-rfc-vector")
    for alg in ("1", "256", "512"):
        small = {"1": 60, "256": 40, "512": 16}[alg]
        # every salt length 1..124 (model on small iteration counts)
        for sl in range(1, 125):
            rnd_scram(alg, rng.randrange(1, 4), sl % (1 if alg == "1" else 3 if alg == "256" else 6) == 0 or sl in (1, 123, 124), "scram-salt-len", slen=sl)
        # password / user lengths, incl. longer than the HMAC block (64 / 128)
        for pl in [0, 1, 55, 63, 64, 65, 127, 128, 129, 200, 300] + [rng.randrange(0, 301) for _ in range(12)]:
            rnd_scram(alg, rng.randrange(1, 4), alg == "1" or pl in (0, 64, 65, 128, 129), "scram-pass-len", plen=pl)
        for ul in [1, 2, 100, 300]:
            rnd_scram(alg, 2, True, "scram-user-len", ulen=ul)
        # iteration counts: model on the small ones, oracle on all
        for ic in range(1, small):
            rnd_scram(alg, ic, ic <= (24 if alg == "1" else 10 if alg == "256" else 5), "scram-iter-small")
        big = [4096, 4095, 1000] if not thorough else [4096, 10000, 65535, 65536, 99999]
        for ic in big + [rng.randrange(100, 4097 if not thorough else 100000) for _ in range(3 if not thorough else 12)]:
            rnd_scram(alg, ic, False, "scram-iter-large")
        for _ in range(60 if not thorough else 4000):
            rnd_scram(alg, rng.randrange(1, 6), rng.random() < ((0.5 if alg != "512" else 0.2) if not thorough else (0.12 if alg != "512" else 0.04)), "scram-random")
    # the model at a realistic iteration count, once
    rnd_scram("1", 300 if not thorough else 4096, True, "scram-iter-model-large")
    # server-first messages carrying extension attributes after i= (RFC 5802: "extensions" are part of the message the
    # proof is computed over, whatever the client makes of them)
    for alg in ("1", "256", "512"):
        for ext in (b",x=some-extension", b",a=1,b=2", b",x=", b",r2=abc", b",i2=1"):
            rnd_scram(alg, rng.randrange(1, 4), alg == "1", "scram-extension", ext=ext)

    # ---- SCRAM, challenges outside the grammar / refusals
    def raw_scram(alg, cb, ch, fb, password, kind, model=True, **meta):
        add("S %s %s %s %s %s" % (alg, hx(cb), hx(ch), hx(fb), hx(password)), kind, model, wf=False, **meta)

    cb0 = b64(b"n,,")
    fb0 = b"n=user,r=ABCDEF0123456789ABCDEF0123456789"
    s0 = b64(b"salt1234")
    for alg in ("1", "256", "512"):
        mal = [
            b"", b",", b",,,", b"r=abc", b"s=" + s0, b"i=1", b"r=abc,s=" + s0, b"r=abc,i=1", b"s=" + s0 + b",i=1",
            b"r=abc,s=,i=1", b"r=abc,s=" + s0 + b",i=", b"r=abc,s=" + s0 + b",i=0", b"r=abc,s=" + s0 + b",i=-1",
            b"r=abc,s=" + s0 + b",i=abc", b"r=abc,s=" + s0 + b",i=2abc", b"r=abc,s=" + s0 + b",i= 2", b"r=abc,s=" + s0 + b",i=+2",
            b"r=abc,s=" + s0 + b",i=\t\n 3x", b"r=abc,s=" + s0 + b",i=-0", b"r=abc,s=" + s0 + b",i=00000002", b"r=abc,s=" + s0 + b",i=0x10",
            b"r=abc,s=!!!!,i=1", b"r=abc,s=QUJD=,i=1", b"r=abc,s=QUJ,i=1", b"r=abc,s=QQ=A,i=1", b"r=abc,s=====,i=1",
            b"i=2,s=" + s0 + b",r=abc", b",,r=abc,,s=" + s0 + b",,i=2,,", b"r=abc,s=" + s0 + b",i=2,m=ext,x=y",
            b"r=first,r=second,s=" + s0 + b",s=" + b64(b"other") + b",i=3,i=2", b"r=,s=" + s0 + b",i=2", b"R=abc,s=" + s0 + b",i=2",
            b"xr=abc,s=" + s0 + b",i=2", b"r=abc s=" + s0 + b" i=2", b"r=abc,s=" + s0 + b",i=2,", b"r=" + b"n" * 2000 + b",s=" + s0 + b",i=2",
            b"e=other-error", b"r=abc,s=" + b64(b"\0\0\0") + b",i=2", b"r=abc,s=" + b64(b"a\0b") + b",i=1",
        ]
        for sl in (124, 125, 126, 127, 128, 129, 200, 1000):
            mal.append(b"r=abc,s=" + b64(bytes(range(1, 200))[:sl] if sl < 199 else b"s" * sl) + b",i=1")
        for ch in mal:
            raw_scram(alg, cb0, ch, fb0, b"pencil", "scram-malformed")
        # iteration counts at and beyond the 32-bit / long boundaries (the model never iterates that often:
        # accepted ones are not run on either side unless the count is small after the refusals)
        for v in (2 ** 31 - 1, 2 ** 31, 2 ** 32 - 1):
            pass  # accepted by the fixed code and far too slow to run: left to the theorem
        for v in (2 ** 32, 2 ** 32 + 1, 2 ** 32 + 2, 2 ** 33 + 3, 2 ** 63 - 1, 2 ** 63, 2 ** 64 + 1, 10 ** 30 + 1, 3 * 2 ** 32 + 2):
            raw_scram(alg, cb0, b"r=ABCDEF0123456789ABCDEF0123456789srv,s=" + s0 + b",i=" + str(v).encode(), fb0, b"pencil",
                      "scram-iter-overflow", True, big_i=v, salt=b"salt1234", pw=b"pencil")
        for v in (-(2 ** 32) + 1, -(2 ** 63), -(2 ** 64) + 2):
            raw_scram(alg, cb0, b"r=abc,s=" + s0 + b",i=" + str(v).encode(), fb0, b"pencil", "scram-iter-negative")
        # long channel binding / first_bare / password
        raw_scram(alg, b64(b"p=tls-exporter,," + bytes(32)), b"r=abc,s=" + s0 + b",i=1", b"n=" + b"u" * 1000 + b",r=abc", b"p" * 1000, "scram-long-fields")
        raw_scram(alg, b"", b"r=abc,s=" + s0 + b",i=1", b"", b"", "scram-empty-fields")
    for _ in range(150 if not thorough else 20000):
        alg = rng.choice(["1", "256", "512"])
        toks = []
        for _ in range(rng.randrange(0, 7)):
            t = rng.choice([b"r=", b"s=", b"i=", b"m=", b"", b"x", b"r", b"s=QUJD", b"i=1", b"i=2", b"r=n"]) + \
                bytes(rng.choice(b"ABCD=+/09 i-") for _ in range(rng.randrange(0, 6)))
            toks.append(t)
        raw_scram(alg, cb0, b",".join(toks), fb0, b"pw", "scram-random-tokens")

    # ---- SCRAM_ClientKey directly (RFC vectors and the salt bound)
    add("K 1 %s %s 4096" % (hx(b"pencil"), hx(base64.b64decode("QSXCR+Q6sek8bf92"))), "clientkey-rfc", False,
        alg="1", pw=b"pencil", salt=base64.b64decode("QSXCR+Q6sek8bf92"), i=4096)
    for alg in ("1", "256", "512"):
        for ic in (0, 1, 2, 3):
            salt = rng.randbytes(rng.choice([1, 16, 124]))
            pw = rand_text(rng, rng.randrange(0, 150))
            add("K %s %s %s %d" % (alg, hx(pw), hx(salt), ic), "clientkey", True, alg=alg, pw=pw, salt=salt, i=ic)

    # ---- DIGEST-MD5
    def dg(text, jid, pw, kind, model=True, **meta):
        rnd = rng.randbytes(6)
        add("D %s %s %s %s" % (hx(b64(text)), hx(jid), hx(pw), hx(rnd)), kind, model, jid=jid, pw=pw, rnd=rnd, **meta)

    def q(v):
        return b'"' + v + b'"'

    def wf_digest(kind="digest-wf"):
        node = rand_text(rng, rng.randrange(1, 30), special=0.1).replace(b'"', b"q").replace(b"\\", b"b").replace(b"@", b"a").replace(b"/", b"s")
        domain = bytes(rng.choice(b"abcdefghijklmnopqrstuvwxyz0123456789.-") for _ in range(rng.randrange(1, 30)))
        jid = node + b"@" + domain + (b"/" + rand_text(rng, rng.randrange(0, 10)) if rng.random() < 0.5 else b"")
        pw = rand_text(rng, rng.randrange(0, 300 if rng.random() < 0.1 else 40))
        nonce = bytes(rng.choice(PRINT_NOCOMMA.replace(b'"', b"").replace(b"\\", b"")) for _ in range(rng.randrange(1, 50)))
        rk = rng.randrange(6)
        realms = []
        dirs = []
        if rk == 1:
            realms = [b""]
        elif rk in (2, 3):
            realms = [bytes(rng.choice(b"abcXYZ.,= -_") for _ in range(rng.randrange(1, 25)))]
        elif rk == 4:
            realms = [b"realm one, with = and spaces", b"example.org"]
        for r in realms:
            dirs.append(b"realm=" + q(r))
        dirs.append(b"nonce=" + q(nonce))
        qk = rng.randrange(7)
        qops = None
        if qk == 1:
            qops = [b"auth"]
            dirs.append(b'qop="auth"')
        elif qk == 2:
            qops = [b"auth"]
            dirs.append(b"qop=auth")
        elif qk == 3:
            qops = [b"auth", b"auth-int"]
            dirs.append(b'qop="auth,auth-int"')
        elif qk == 4:
            qops = [b"auth-int"]
            dirs.append(b'qop="auth-int"')
        elif qk == 5:
            qops = [b"auth-int", b"auth", b"auth-conf"]
            dirs.append(b'qop="auth-int, auth,auth-conf"')
        elif qk == 6:
            qops = [b"auth-conf", b"auth-int"]
            dirs.append(b'qop="auth-conf,auth-int"')
        if rng.random() < 0.7:
            dirs.append(b"charset=utf-8")
        if rng.random() < 0.7:
            dirs.append(b"algorithm=md5-sess")
        if rng.random() < 0.2:
            dirs.append(b'cipher="rc4-40,rc4"')
        if rng.random() < 0.3:
            rng.shuffle(dirs)
        text = (b", " if rng.random() < 0.2 else b",").join(dirs)
        # a client that can only do one of several offered qop values picks it; "auth-conf,auth-int" without auth
        # cannot be answered correctly by a client without security layers: outside the well-formed class
        wf = not (qops is not None and b"auth" not in qops and len(qops) > 1)
        dg(text, jid, pw, kind if wf else "digest-unanswerable", True, wf=wf, node=node, domain=domain,
           srv={"nonce": nonce, "realms": realms, "qops": qops})

    for _ in range(400 if not thorough else 40000):
        wf_digest()
    mald = [b"", b",", b"nonce", b"=", b"=x", b"nonce=", b'nonce="', b'nonce="abc', b"nonce='abc'", b"realm=\"x\"", b'realm="x",qop="auth"',
            b'nonce="a",nonce="b"', b'nonce="a",realm="r1",realm=""', b'nonce="a",qop="auth",qop="auth-int"', b'nonce="a",qop=""', b'nonce="a",qop=,',
            b'nonce="a\\"b",realm="c\\\\d"', b'nonce = "a"', b'NONCE="a"', b' nonce="a"', b',,, nonce="a",,,', b'nonce="a" realm="b"',
            b'nonce="a",username="evil",cnonce="x",nc=9,digest-uri="y",response="z"', b'nonce="a",charset="utf-8",charset=x',
            b'nonce="' + b"n" * 5000 + b'"', b'realm="' + b"r" * 5000 + b'",nonce="a"', b"nonce=a,b=c=d", b'nonce="a",=v', b'nonce="a",k',
            b'nonce="a",qop="auth ,auth-int"', b'nonce="a",qop="authx,xauth"', b'nonce="a",qop=" auth"', b"nonce=\"a\",realm='q\"uote'",
            b'rspauth=ea40f60335c427b5527b84dbabcdfffd', b"nonce=\xff\xfe,realm=\xc3\xa9"]
    for t in mald:
        dg(t, b"user@example.com/r", b"secret", "digest-malformed", True, wf=False)
    for raw in (b"!!!!", b"QUJD=", b"QQ", b"", b"AA=A"):
        add("D %s %s %s %s" % (hx(raw), hx(b"u@d"), hx(b"p"), hx(bytes(6))), "digest-bad-base64", True, wf=False)
    add("D %s %s %s %s" % (hx(b64(b'nonce="a\0b"')), hx(b"u@d"), hx(b"p"), hx(bytes(6))), "digest-bad-base64", True, wf=False)
    for _ in range(100 if not thorough else 20000):
        parts = []
        for _ in range(rng.randrange(0, 6)):
            k = rng.choice([b"nonce", b"realm", b"qop", b"charset", b"x", b"", b"nonce "])
            v = bytes(rng.choice(b'ab",= \'\\') for _ in range(rng.randrange(0, 7)))
            parts.append(k + rng.choice([b"=", b"", b"=\"", b"='"]) + v + rng.choice([b"", b'"', b"'"]))
        dg(rng.choice([b",", b", ", b" "]).join(parts), b"u@d.e", b"pw", "digest-random", True, wf=False)
    return cases


def oracle_fn(case, out):
    """property verdict on one function-level result; returns list of problems"""
    line, meta, kind = case["line"], case["meta"], case["kind"]
    op = line[0]
    if out is None or out.startswith("CRASH"):
        return ["implementation crashed: %s" % out]
    if "uninit" in out:
        return ["result differs between two runs with different allocator poison (uninitialised bytes)"]
    if op == "P":
        exp = "P " + hx(ref_plain(meta["a"], meta["p"]))
        return [] if out == exp else ["PLAIN is %s, RFC 4616 says %s" % (out[:80], exp[:80])]
    if op == "N":
        exp = "N " + hx(nonce_of(meta["rnd"], meta["ln"]))
        return [] if out == exp else ["nonce %s, expected hex of the RNG bytes %s" % (out, exp)]
    if op == "K":
        salted = hi(HN[meta["alg"]], meta["pw"], meta["salt"], meta["i"]) if meta["i"] > 0 else bytes(hashlib.new(HN[meta["alg"]]).digest_size)
        exp = "K " + hx(hmac.new(salted, b"Client Key", HN[meta["alg"]]).digest())
        return [] if out == exp else ["ClientKey %s, RFC 5802 says %s" % (out[:60], exp[:60])]
    if op == "S":
        if meta.get("wf"):
            if out == "S null":
                return ["well-formed challenge refused"]
            final = b64d(unhx(out[2:]))
            if final is None:
                return ["client-final-message is not base64"]
            return scram_server_verify(HN[meta["alg"]], meta["user"], meta["pw"], meta["salt"], meta["i"], meta["cfirst"],
                                       meta["sfirst"], final, meta["plus"], meta["cbtype"], meta["cbdata"], meta["secured"])
        if "big_i" in meta and out != "S null":
            # an iteration count this large cannot have been honoured in the time the call took: find the
            # count that was actually used
            final = b64d(unhx(out[2:])) or b""
            alg = line.split(" ")[1].rstrip("p")
            sfirst = unhx(line.split(" ")[3])
            for cand in {meta["big_i"] % 2 ** 32, 1, 2, 2 ** 31 - 1 if False else 1}:
                if 1 <= cand <= 100000:
                    pb = scram_server_verify(HN[alg], b"user", meta["pw"], meta["salt"], cand, b"n,," + b"n=user,r=ABCDEF0123456789ABCDEF0123456789",
                                             sfirst, final, False, b"", b"", False)
                    if not pb:
                        return ["server asked for i=%d, the proof was computed with i=%d" % (meta["big_i"], cand)]
            if meta["big_i"] % 2 ** 32 == 0:
                # Hi with zero iterations: all-zero SaltedPassword
                hname = HN[alg]
                ck = hmac.new(bytes(hashlib.new(hname).digest_size), b"Client Key", hname).digest()
                sk = hashlib.new(hname, ck).digest()
                fa = final.split(b",")
                if len(fa) == 3:
                    am = b"n=user,r=ABCDEF0123456789ABCDEF0123456789," + sfirst + b"," + fa[0] + b"," + fa[1]
                    pr = b64d(fa[2][2:]) or b""
                    if hashlib.new(hname, xor(pr, hmac.new(sk, am, hname).digest())).digest() == sk:
                        return ["server asked for i=%d, the proof was computed from an all-zero SaltedPassword (0 iterations)" % meta["big_i"]]
            return ["server asked for i=%d and got an answer at once" % meta["big_i"]]
        return []
    if op == "D":
        if "rng-underrun" in out or "rng-left" in out:
            return ["cnonce drew an unexpected number of RNG bytes: %s" % out[-20:]]
        if meta.get("wf"):
            if out == "D null":
                return ["well-formed challenge refused"]
            pb = digest_verify(unhx(out.split(" ")[1]), meta["node"], meta["domain"], meta["pw"], meta["srv"])
            d = dict(parse_directives(b64d(unhx(out.split(" ")[1])) or b"") or [])
            if d.get(b"cnonce") != nonce_of(meta["rnd"], 13):
                pb.append("cnonce %r is not the hex of the RNG bytes %r" % (d.get(b"cnonce"), nonce_of(meta["rnd"], 13)))
            return pb
        return []
    return []


# ------------------------------------------------------------------------------------------------
# negotiation-level cases (simworld)
# ------------------------------------------------------------------------------------------------
def lcg_stream(seed, n):
    s = seed & 0xffffffff
    out = bytearray()
    for _ in range(n):
        s = (s * 1103515245 + 12345) & 0x7fffffff
        out.append((s >> 16) & 0xff)
    return bytes(out)


def H(b):
    return hx(b if isinstance(b, bytes) else b.encode())


def stream_header(comp=False, sid=b"sid1"):
    ns = "jabber:component:accept" if comp else "jabber:client"
    return ("<?xml version='1.0'?><stream:stream xmlns='%s' xmlns:stream='http://etherx.jabber.org/streams' id='%s' from='example.com' version='1.0'>"
            % (ns, sid.decode())).encode()


def features(mechs, starttls=False):
    s = "<stream:features>"
    if starttls:
        s += "<starttls xmlns='urn:ietf:params:xml:ns:xmpp-tls'/>"
    if mechs is not None:
        s += "<mechanisms xmlns='%s'>%s</mechanisms>" % (NS_SASL, "".join("<mechanism>%s</mechanism>" % m for m in mechs))
    return (s + "</stream:features>").encode()


def challenge_xml(payload):
    return b"<challenge xmlns='" + NS_SASL.encode() + b"'>" + payload + b"</challenge>"


FAILURE = ("<failure xmlns='%s'><not-authorized/></failure>" % NS_SASL).encode()


def wire_of(trace):
    """client bytes in order (plain W and through-TLS T chunks)"""
    out = bytearray()
    for tok in trace.split(" "):
        m = re.fullmatch(r"[WT]\d+:([0-9a-f]+)", tok)
        if m:
            out += bytes.fromhex(m.group(1))
    return bytes(out)


def elements(wire, name):
    """(attributes text, unescaped text content) of every top-level <name ..>text</name> / <name ../> the client sent"""
    res = []
    for m in re.finditer(rb"<" + name + rb"(\s[^>]*?)?(/>|>(.*?)</" + name + rb">)", wire, re.S):
        txt = m.group(3) or b""
        txt = txt.replace(b"&lt;", b"<").replace(b"&gt;", b">").replace(b"&quot;", b'"').replace(b"&apos;", b"'").replace(b"&amp;", b"&")
        res.append(((m.group(1) or b"").decode("latin-1"), txt))
    return res


class Neg:
    """one negotiation scenario: configuration + what the scripted server does"""

    def __init__(self, kind, **kw):
        self.kind = kind
        self.__dict__.update(kw)

    def head(self):
        """commands up to and including the stream features that trigger _auth"""
        c = ["rng %d" % self.seed, "conn", "jid %s" % H(self.jid)]
        if self.pw is not None:
            c.append("pass %s" % H(self.pw))
        if getattr(self, "cert", False):
            c.append("cert")
            for a in self.xaddrs:
                c.append("xaddr %s" % H(self.jid if a == b"SELF" else a))
        if getattr(self, "cb", None):
            c.append("cb %s %s" % (H(self.cb[0]), H(self.cb[1])))
        flags = (4 if self.secured else 1) | (16 if self.kind == "legacy" else 0)
        c.append("flags %d" % flags)
        if self.kind == "component":
            c += ["connect component %s 5347" % H(b"localhost"), "run 2"]
            if self.sid is not None:
                c += ["rx %s" % H(stream_header(True, self.sid)), "run 2"]
            else:
                c += ["rx %s" % H(b"<?xml version='1.0'?><stream:stream xmlns='jabber:component:accept' xmlns:stream='http://etherx.jabber.org/streams' from='example.com'>"), "run 2"]
            return c
        c += ["connect client %s 5222" % H(b"localhost"), "run 2", "rx %s" % H(stream_header()), "run 2"]
        c += ["rx %s" % H(features(self.mechs)), "run 2"]
        return c


def run_sim(exe, scripts):
    return vlib.run_parallel(exe, [";".join(s) for s in scripts], batch=200)


def gen_neg(chk):
    rng = chk.rng
    thorough = chk.tier == "thorough"
    out = []
    seedc = [100]

    def seed():
        seedc[0] += 1
        return seedc[0]

    def jid_of(node, res=True):
        d = b"example.com"
        return (node + b"@" if node is not None else b"") + d + (b"/res" if res else b"")

    def user():
        return rand_text(rng, rng.randrange(1, 24), alphabet=b"abcdefghijklmnopqrstuvwxyzABC019._-", special=0.2) \
            .replace(b"@", b"a").replace(b"/", b"s")

    n = 1 if not thorough else 12
    for _ in range(n):
        for alg in ("1", "256", "512"):
            for plus in (False, True):
                for secured in (False, True):
                    for icount in (1, 3, rng.randrange(2, 9)):
                        out.append(Neg("scram", alg=alg, plus=plus, secured=secured, jid=jid_of(user()), pw=rand_text(rng, rng.randrange(0, 30)),
                                       seed=seed(), mechs=[MECH[alg] + ("-PLUS" if plus else "")], icount=icount,
                                       salt=rng.randbytes(rng.choice([1, 8, 16, 124])),
                                       snonce=bytes(rng.choice(PRINT_NOCOMMA) for _ in range(rng.randrange(1, 30))),
                                       cb=(rng.choice([b"tls-unique", b"tls-exporter"]), rng.randbytes(rng.choice([12, 32, 0, 44, 45, 46, 48, 100])))
                                       if (plus and rng.random() < 0.9) else None))
    # user names that need escaping, every escape position
    for node in (b"a=b", b"a,b", b"=", b",", b"==,,", b"u=2C", b"x=3Dy,", b",=,=", b"a" * 300):
        out.append(Neg("scram", alg="1", plus=False, secured=rng.random() < 0.5, jid=jid_of(node), pw=b"pencil", seed=seed(),
                       mechs=["SCRAM-SHA-1"], icount=2, salt=b"NaCl", snonce=b"srv", cb=None))
    # larger iteration counts (oracle only)
    for alg in ("1", "256", "512"):
        out.append(Neg("scram", alg=alg, plus=False, secured=True, jid=jid_of(b"user"), pw=b"pencil", seed=seed(), mechs=[MECH[alg]],
                       icount=4096, salt=rng.randbytes(16), snonce=b"3rfcNHYJY1ZVvWVs7j", cb=None, nomodel=True))
    # several attempts on one connection: the server refuses each mechanism in turn
    for _ in range(3 * n):
        ms = ["SCRAM-SHA-512", "SCRAM-SHA-256", "SCRAM-SHA-1"]
        plus = rng.random() < 0.5
        if plus:
            ms = [m + "-PLUS" for m in ms] + ms
        out.append(Neg("multi", jid=jid_of(user()), pw=rand_text(rng, 8), seed=seed(), mechs=ms + ["DIGEST-MD5"], secured=True,
                       cb=(b"tls-unique", rng.randbytes(12)) if plus else None))
    for _ in range(20 * n):
        node = user()
        out.append(Neg("plain", jid=jid_of(node, rng.random() < 0.5), pw=rand_text(rng, rng.randrange(0, 60)), seed=seed(), mechs=["PLAIN"],
                       secured=rng.random() < 0.5))
    for _ in range(30 * n):
        node = user().replace(b'"', b"q").replace(b"\\", b"b")
        realm = rng.choice([None, b"", b"example.org", b"a realm, with = signs"])
        qop = rng.choice([None, b'"auth"', b"auth", b'"auth,auth-int"', b'"auth-int"', b'"auth-int,auth"'])
        nonce = bytes(rng.choice(PRINT_NOCOMMA.replace(b'"', b"").replace(b"\\", b"").replace(b"<", b"").replace(b"&", b"")) for _ in range(rng.randrange(1, 40)))
        out.append(Neg("digest", jid=jid_of(node), pw=rand_text(rng, rng.randrange(0, 40)), seed=seed(), mechs=["DIGEST-MD5"],
                       secured=rng.random() < 0.5, realm=realm, qop=qop, nonce=nonce))
    for xa in ([], [b"SELF"], [b"other@example.com"], [b"SELF", b"other@example.com"], [b"other@example.com", b"SELF"], [b"a@b", b"c@d", b"e@f"]):
        for withnode in (True, False):
            out.append(Neg("external", jid=jid_of(user() if withnode else None, rng.random() < 0.5), pw=None, seed=seed(), mechs=["EXTERNAL", "PLAIN"],
                           secured=True, cert=True, xaddrs=xa))
    for _ in range(2 * n):
        out.append(Neg("anonymous", jid=b"example.com", pw=None, seed=seed(), mechs=["ANONYMOUS", "PLAIN"], secured=rng.random() < 0.5))
    # legacy jabber:iq:auth: text must survive XML (valid UTF-8, no control characters)
    def xtext(k):
        return "".join(rng.choice("abcXYZ019 <>&'\"=,é€") for _ in range(k)).encode()
    for _ in range(10 * n):
        node = xtext(rng.randrange(1, 20)).replace(b"@", b"a").replace(b"/", b"s")
        res = rng.choice([None, b"", xtext(rng.randrange(1, 12))])
        j = node + b"@example.com" + (b"/" + res if res is not None else b"")
        out.append(Neg("legacy", jid=j, pw=xtext(rng.randrange(0, 30)), seed=seed(), mechs=None, secured=False))
    for _ in range(10 * n):
        sid = rng.choice([None, b"", b"3BF96D32", bytes(rng.choice(b"abcdef0123456789") for _ in range(rng.randrange(1, 70)))])
        out.append(Neg("component", jid=b"comp.example.com", pw=rand_text(rng, rng.randrange(0, 80)), seed=seed(), mechs=None, secured=False, sid=sid))
    return out


def eval_neg(chk, sim, cases, model_run):
    """runs the scenarios (two passes where the server's answer depends on the client's first message),
    returns per case: dict(problems=[..], model_lines=[..], observed=[..])"""
    res = [{"problems": [], "queries": [], "observed": [], "trace": None} for _ in cases]
    # pass 1: up to the first client message
    t1 = run_sim(sim, [c.head() for c in cases])
    second = []
    for k, c in enumerate(cases):
        tr = t1[k]
        res[k]["trace"] = tr
        if tr is None or tr.startswith("CRASH"):
            res[k]["problems"].append("implementation crashed: %s" % tr)
            continue
        w = wire_of(tr)
        c.auths = elements(w, b"auth")
        if c.kind in ("scram", "multi", "digest"):
            script = c.head()
            if c.kind == "digest":
                d = []
                if c.realm is not None:
                    d.append(b'realm="' + c.realm + b'"')
                d.append(b'nonce="' + c.nonce + b'"')
                if c.qop is not None:
                    d.append(b"qop=" + c.qop)
                d += [b"charset=utf-8", b"algorithm=md5-sess"]
                c.chal = b",".join(d)
                script += ["rx %s" % H(challenge_xml(b64(c.chal))), "run 2"]
            elif c.kind == "scram":
                if len(c.auths) == 1:
                    cf = b64d(c.auths[0][1]) or b""
                    m = re.search(rb"r=([^,]*)$", cf)
                    c.cfirst = cf
                    c.sfirst = b"r=" + (m.group(1) if m else b"") + c.snonce + b",s=" + b64(c.salt) + b",i=" + str(c.icount).encode()
                    script += ["rx %s" % H(challenge_xml(b64(c.sfirst))), "run 2"]
            else:
                # refuse every mechanism; each <failure/> makes _auth try the next one
                for _ in range(len(c.mechs) + 1):
                    script += ["rx %s" % H(FAILURE), "run 2"]
            second.append((k, script))
    t2 = run_sim(sim, [s for _, s in second])
    for (k, _), tr in zip(second, t2):
        res[k]["trace"] = tr
        if tr is None or tr.startswith("CRASH"):
            res[k]["problems"].append("implementation crashed: %s" % tr)
    # judge
    for k, c in enumerate(cases):
        r = res[k]
        if r["problems"]:
            continue
        w = wire_of(r["trace"])
        auths = elements(w, b"auth")
        resps = elements(w, b"response")
        node, domain, resource = split_jid(c.jid)
        stream = lcg_stream(c.seed, 4096)
        pb = r["problems"]
        q = r["queries"]     # (model line, expected model output derived from the wire)

        def mech_of(a):
            m = re.search(r"mechanism=[\"']([^\"']*)[\"']", a)
            return m.group(1) if m else None

        def locate(nonce_hex):
            try:
                return stream.find(bytes.fromhex(nonce_hex.decode()))
            except ValueError:
                return -1

        if c.kind == "plain":
            if len(auths) != 1 or mech_of(auths[0][0]) != "PLAIN":
                pb.append("expected one <auth mechanism='PLAIN'>, saw %r" % auths[:2])
            else:
                if auths[0][1] != ref_plain(node, c.pw):
                    pb.append("PLAIN payload %r, RFC 4616 says %r" % (auths[0][1][:60], ref_plain(node, c.pw)[:60]))
                q.append(("P %s %s" % (hx(node), hx(c.pw)), "P " + hx(auths[0][1])))
        elif c.kind == "anonymous":
            if len(auths) != 1 or mech_of(auths[0][0]) != "ANONYMOUS" or auths[0][1] != b"":
                pb.append("expected an empty <auth mechanism='ANONYMOUS'/>, saw %r" % auths[:2])
        elif c.kind == "external":
            xa = [c.jid if a == b"SELF" else a for a in c.xaddrs]
            if len(auths) != 1 or mech_of(auths[0][0]) != "EXTERNAL":
                pb.append("expected one <auth mechanism='EXTERNAL'>, saw %r" % auths[:2])
            else:
                if auths[0][1] != ref_external(c.jid, xa):
                    pb.append("EXTERNAL identity %r, expected %r" % (auths[0][1][:60], ref_external(c.jid, xa)[:60]))
                q.append(("X %s %s" % (hx(c.jid), ",".join(hx(a) for a in xa) if xa else "-"), "X " + hx(auths[0][1])))
        elif c.kind == "scram":
            cbt = c.cb[0] if c.cb else None
            cbd = c.cb[1] if c.cb else None
            mname = MECH[c.alg] + ("-PLUS" if c.plus else "")
            iline = None
            if len(auths) > 1 or (auths and mech_of(auths[0][0]) != mname):
                pb.append("unexpected <auth> elements %r" % auths[:2])
            elif not auths:
                # refusal: only legitimate for -PLUS without TLS / without binding data / data that does not fit
                legit = c.plus and (not c.secured or c.cb is None or len(c.cb[1]) > 56 - len(b"p=" + c.cb[0] + b",,"))
                if not legit:
                    pb.append("no <auth> was sent")
                iline = ("I %d %d %s %s %s %s" % (c.plus, c.secured, hx(cbt) if cbt is not None else "~", hx(cbd) if cbd is not None else "~",
                                                  hx(c.jid), hx(stream[:16])), "I null")
            else:
                cf = b64d(auths[0][1])
                if cf is None:
                    pb.append("<auth> text is not base64")
                    continue
                m = re.search(rb"r=([0-9A-F]{32})$", cf)
                off = locate(m.group(1)) if m else -1
                if off < 0:
                    pb.append("client nonce %r is not 32 upper-case hex digits taken from the RNG stream" % cf[-40:])
                    continue
                if len(resps) != 1:
                    pb.append("expected one <response>, saw %d" % len(resps))
                    continue
                final = b64d(resps[0][1])
                if final is None:
                    pb.append("<response> text is not base64")
                    continue
                pb += scram_server_verify(HN[c.alg], node, c.pw, c.salt, c.icount, cf, c.sfirst, final, c.plus, cbt or b"", cbd or b"", c.secured)
                if not getattr(c, "nomodel", False):
                    iline = ("I %d %d %s %s %s %s" % (c.plus, c.secured, hx(cbt) if cbt is not None else "~", hx(cbd) if cbd is not None else "~",
                                                      hx(c.jid), hx(stream[off:off + 16])), ("I-auth", hx(auths[0][1])))
                    c.final_b64 = resps[0][1]
            if iline:
                q.append(iline)
        elif c.kind == "multi":
            offs = []
            for a, t in auths:
                mn = mech_of(a) or ""
                if not mn.startswith("SCRAM"):
                    continue
                cf = b64d(t) or b""
                m = re.search(rb"r=([0-9A-F]{32})$", cf)
                off = locate(m.group(1)) if m else -1
                if off < 0:
                    pb.append("client nonce of %s is not taken from the RNG stream" % mn)
                offs.append(off)
            want = [m for m in c.mechs if m.startswith("SCRAM")]
            if [mech_of(a) for a, _ in auths if (mech_of(a) or "").startswith("SCRAM")] != want:
                pb.append("SCRAM attempts %r, expected %r" % ([mech_of(a) for a, _ in auths], want))
            for a, b in zip(offs, offs[1:]):
                if a >= 0 and b >= 0 and b < a + 16:
                    pb.append("two attempts drew overlapping RNG positions %d and %d" % (a, b))
            if len(set(t for _, t in auths if t)) != len([t for _, t in auths if t]):
                pb.append("two attempts sent the same client-first-message")
            if offs and all(o >= 0 for o in offs):
                # the model on the same stream: attempts in order
                fields = []
                for mn in want:
                    plus = mn.endswith("-PLUS")
                    fields += ["1" if plus else "0", "1", hx(c.cb[0]) if c.cb else "~", hx(c.cb[1]) if c.cb else "~", hx(c.jid)]
                # positions between the attempts that other code consumed are skipped by handing the model
                # the concatenation of the 16-byte windows
                rngcat = b"".join(stream[o:o + 16] for o in offs)
                q.append(("A " + " ".join(fields) + " " + hx(rngcat), "A " + ",".join(hx(b64d(t)) for a, t in auths if (mech_of(a) or "").startswith("SCRAM"))))
        elif c.kind == "digest":
            if len(auths) != 1 or mech_of(auths[0][0]) != "DIGEST-MD5" or len(resps) < 1:
                pb.append("expected <auth mechanism='DIGEST-MD5'/> and a <response>, saw %r / %d responses" % (auths[:1], len(resps)))
            else:
                reply = b64d(resps[0][1])
                d = dict(parse_directives(reply or b"") or [])
                cn = d.get(b"cnonce", b"")
                off = -1
                if re.fullmatch(rb"[0-9A-F]{12}", cn):
                    off = stream.find(bytes.fromhex(cn.decode()))
                if off < 0:
                    pb.append("cnonce %r is not 12 upper-case hex digits taken from the RNG stream" % cn)
                qops = None
                if c.qop is not None:
                    qops = [x.strip() for x in c.qop.strip(b'"').split(b",")]
                pb += digest_verify(resps[0][1], node, domain, c.pw, {"nonce": c.nonce, "realms": [c.realm] if c.realm is not None else [], "qops": qops})
                if off >= 0:
                    q.append(("D %s %s %s %s" % (hx(b64(c.chal)), hx(c.jid), hx(c.pw), hx(stream[off:off + 6])), "D " + hx(resps[0][1])))
        elif c.kind == "legacy":
            iqs = re.findall(rb"<iq [^>]*>.*?</iq>", w, re.S)
            iqs = [x for x in iqs if b"jabber:iq:auth" in x]
            got = None
            if iqs:
                try:
                    e = ET.fromstring(iqs[0].decode("utf-8"))
                    qn = e.find("{jabber:iq:auth}query")
                    got = [(ch.tag.split("}")[-1].encode(), (ch.text or "").encode("utf-8")) for ch in qn]
                except (ET.ParseError, UnicodeDecodeError, AttributeError, TypeError) as ex:
                    pb.append("legacy <iq> does not parse: %s" % ex)
            if resource is None:
                if got is not None:
                    pb.append("legacy auth sent without a resource")
                q.append(("L %s %s" % (hx(c.jid), hx(c.pw)), "L null"))
            elif got is None:
                pb.append("no jabber:iq:auth request was sent")
            else:
                want = [(b"username", node), (b"password", c.pw), (b"resource", resource)]
                if got != want:
                    pb.append("legacy payload %r, expected %r" % (got, want))
                q.append(("L %s %s" % (hx(c.jid), hx(c.pw)), "L " + ",".join("%s=%s" % (hx(a), hx(b)) for a, b in got)))
        elif c.kind == "component":
            hs = elements(w, b"handshake")
            if c.sid is None:
                if hs:
                    pb.append("handshake sent without a stream id")
                q.append(("H ~ %s" % hx(c.pw), "H null"))
            elif len(hs) != 1:
                pb.append("expected one <handshake>, saw %d" % len(hs))
            else:
                want = hashlib.sha1(c.sid + c.pw).hexdigest().encode()
                if hs[0][1] != want:
                    pb.append("handshake %r, XEP-0114 says %r" % (hs[0][1], want))
                q.append(("H %s %s" % (hx(c.sid), hx(c.pw)), "H " + hx(hs[0][1])))
    # model side
    lines = []
    idx = []
    for k, r in enumerate(res):
        for j, (ln, _) in enumerate(r["queries"]):
            lines.append(ln)
            idx.append((k, j))
    outs = model_run(lines) if lines else []
    follow = []
    for (k, j), o in zip(idx, outs or []):
        exp = res[k]["queries"][j][1]
        c = cases[k]
        if isinstance(exp, tuple):
            # SCRAM: compare the <auth> payload, then ask the model for the response with its own first_bare / cb
            f = (o or "").split(" ")
            if len(f) != 5:
                res[k].setdefault("disagree", []).append((res[k]["queries"][j][0], "auth=" + exp[1], o))
                continue
            if f[4] != exp[1]:
                res[k].setdefault("disagree", []).append((res[k]["queries"][j][0], "auth=" + exp[1], o))
            msg = unhx(f[1])
            fb = msg[int(f[2]):]
            follow.append((k, "S %s%s %s %s %s %s" % (c.alg, "p" if c.plus else "", f[3], hx(c.sfirst), hx(fb), hx(c.pw)), "S " + hx(c.final_b64)))
        elif o != exp:
            res[k].setdefault("disagree", []).append((res[k]["queries"][j][0], exp, o))
    if follow:
        outs2 = model_run([ln for _, ln, _ in follow])
        for (k, ln, exp), o in zip(follow, outs2):
            if o != exp:
                res[k].setdefault("disagree", []).append((ln, exp, o))
    return res


# ------------------------------------------------------------------------------------------------
def build(chk=None):
    exe = vlib.build_c_driver("c07", [DRIVER], extra_ldflags=["-Wl,--wrap=getrandom"])
    sim = vlib.build_simworld()
    return exe, sim


def load_corpus():
    p = os.path.join(vlib.ROOT, "corpus", "C07.txt")
    if not os.path.exists(p):
        return []
    return [l.rstrip("\n") for l in open(p) if l.strip() and not l.startswith("#")]


def corpus_cases():
    """corpus lines: `fn <json meta> | <driver line>` or `neg <json scenario>`"""
    fn, neg = [], []
    for l in load_corpus():
        if l.startswith("fn "):
            meta, line = l[3:].split(" | ", 1)
            fn.append({"line": line, "kind": "corpus", "model": True, "meta": meta_from_json(json.loads(meta))})
        elif l.startswith("neg "):
            neg.append(neg_from_json(json.loads(l[4:])))
    return fn, neg


def neg_to_json(c):
    d = {}
    for k, v in c.__dict__.items():
        if k in ("auths", "cfirst", "sfirst", "chal", "final_b64"):
            continue
        if isinstance(v, bytes):
            d[k] = "hex:" + v.hex()
        elif isinstance(v, tuple):
            d[k] = ["hex:" + x.hex() for x in v]
        elif isinstance(v, list) and v and isinstance(v[0], bytes):
            d[k] = ["hex:" + x.hex() for x in v]
        else:
            d[k] = v
    return d


def neg_from_json(d):
    e = {}
    for k, v in d.items():
        if isinstance(v, str) and v.startswith("hex:"):
            e[k] = bytes.fromhex(v[4:])
        elif isinstance(v, list) and v and isinstance(v[0], str) and v[0].startswith("hex:"):
            e[k] = [bytes.fromhex(x[4:]) for x in v]
            if k == "cb":
                e[k] = tuple(e[k])
        else:
            e[k] = v
    return Neg(**e)


def meta_to_json(m):
    return {k: ("hex:" + v.hex() if isinstance(v, bytes) else v) for k, v in m.items() if not isinstance(v, dict)} | \
           {k: {kk: ("hex:" + vv.hex() if isinstance(vv, bytes) else ["hex:" + x.hex() for x in vv] if isinstance(vv, list) else vv)
                for kk, vv in v.items()} for k, v in m.items() if isinstance(v, dict)}


def meta_from_json(m):
    def cv(v):
        if isinstance(v, str) and v.startswith("hex:"):
            return bytes.fromhex(v[4:])
        if isinstance(v, list):
            return [cv(x) for x in v]
        if isinstance(v, dict):
            return {k: cv(x) for k, x in v.items()}
        return v
    return {k: cv(v) for k, v in m.items()}


def run(chk):
    chk.rule = ("function level: PLAIN for every length 0..300 of both fields (bytes incl. = , quotes UTF-8), xmpp_rand_nonce for every buffer length, "
                "SCRAM-SHA-1/256/512 with every salt length 1..124, passwords around the HMAC block sizes, iteration counts 1..60 (model) and up to "
                "4096 (quick) / 10^5 (thorough) against the Python RFC 5802 server, with and without channel binding; challenges outside the grammar "
                "(each attribute missing / duplicated / empty, bad base64, salt 125+, counts <= 0, with junk, beyond 2^32 and 2^63), DIGEST-MD5 "
                "challenges with realm / qop absent, empty, quoted, lists, commas inside quotes, malformed and random directive soup; negotiation level: "
                "full exchanges in the simulated world for every mechanism incl. -PLUS with scripted channel-binding data, several SCRAM attempts on "
                "one connection, EXTERNAL with 0/1/2/3 xmppAddr, ANONYMOUS, legacy jabber:iq:auth, component handshake. non-trivial = distinct case "
                "whose result is a message (not a refusal)")
    chk.assumptions = [
        "password normalisation (SASLprep) is omitted by the library and by the reference verifier: both use the password bytes as given",
        "the RNG is an input stream (getrandom wrapped); unpredictability of the nonce is not expressible, the run tests pairwise distinctness of real nonces",
        "DIGEST-MD5 quoted strings containing backslash escapes are outside the well-formed class (correspondence only)",
        "JID split is C19's (jid_split_is_rfc7622); digests / HMAC are C17's, base64 is C18's",
        "negotiation level uses the harness TLS of simworld (channel-binding type / data scripted); tls_openssl.c is not exercised here",
    ]
    chk.prove()
    try:
        exe, sim = build()
    except vlib.BuildError as e:
        chk.broken.append({"kind": "build", "name": "c07 drivers", "detail": str(e)[:600]})
        return
    mexe = None
    try:
        mexe = vlib.build_ocaml_model("C07")
    except vlib.BuildError as e:
        chk.broken.append({"kind": "extract", "name": "Extract_C07", "detail": str(e)[:500]})

    def model_run(lines):
        if mexe is None:
            return [None] * len(lines)
        return vlib.run_parallel(mexe, lines, nshards=min(vlib.NCPU, max(1, len(lines) // 4)), timeout=600, per_case_timeout=300)

    cfn, cneg = corpus_cases()
    fn = cfn + gen_fn_cases(chk)
    # cases that make an unrepaired tree iterate 2^32 times run one per process with a short time limit
    risky = [c for c in fn if c["kind"] == "scram-iter-overflow"]
    calm = [c for c in fn if c["kind"] != "scram-iter-overflow"]
    fn = calm + risky
    impl = vlib.run_parallel(exe, [c["line"] for c in calm], timeout=300, per_case_timeout=60)
    impl += vlib.run_parallel(exe, [c["line"] for c in risky], nshards=min(vlib.NCPU, max(1, len(risky))), batch=1, timeout=10, per_case_timeout=10)
    mlines = [c["line"] for c in calm if c["model"]]
    # interleave cheap and expensive cases over the shards
    order = sorted(range(len(mlines)), key=lambda i: (i * 7919) % max(1, len(mlines)))
    mres = model_run([mlines[i] for i in order])
    mout = {}
    for pos, i in enumerate(order):
        mout[mlines[i]] = mres[pos]
    if mexe is not None and risky:
        rl = [c["line"] for c in risky if c["model"]]
        for ln, o in zip(rl, vlib.run_parallel(mexe, rl, nshards=min(vlib.NCPU, len(rl)), batch=1, timeout=10, per_case_timeout=10)):
            mout[ln] = o
    mlines += [c["line"] for c in risky if c["model"]]
    seen = set()
    for c, out in zip(fn, impl):
        chk.evaluations += 1
        chk.count(c["kind"])
        if c["line"] not in seen:
            seen.add(c["line"])
            if out and not out.endswith("null") and not out.startswith("CRASH"):
                chk.nontrivial.add(c["line"])
        pb = oracle_fn(c, out)
        if pb:
            chk.fail(c["line"], "; ".join(pb)[:600], stream="function", extra={"meta": meta_to_json(c["meta"]), "impl": out})
        if c["model"] and mexe is not None:
            chk.traces_validated += 1
            mo = mout.get(c["line"])
            canon = out
            if out and out.startswith("CRASH") and "ssertion" in out:
                canon = c["line"][0] + " ABORT"
            if out and out.startswith("D ") and (" rng-" in out):
                canon = out.split(" rng-")[0]
            if c["kind"] == "scram-iter-overflow" and mo and mo.startswith("CRASH") and canon and canon.startswith("CRASH TIMEOUT"):
                mo = canon      # 2^32 - 1 iterations: neither side answers in the time allowed
            if mo != canon:
                chk.disagree("function", c["line"], out, mo)
        if chk.evaluations % 397 == 0:
            chk.sample({"input": c["line"][:200], "impl": (out or "")[:120], "kind": c["kind"]})
    # nonce distinctness over 10^4 (quick) / 10^5 (thorough) real nonces: a test, not a proof of freshness
    cnt = 10000 if chk.tier != "thorough" else 100000
    z = vlib.run_lines(exe, ["Z %d" % cnt])[0]
    chk.evaluations += 1
    chk.count("nonce-distinct")
    if z != "Z %d %d" % (cnt, cnt):
        chk.fail("Z %d" % cnt, "client nonces repeat: %s" % z, stream="function")
    chk.extra["nonce_distinct_test"] = z
    # negotiation level
    negs = cneg + gen_neg(chk)
    res = eval_neg(chk, sim, negs, model_run)
    for c, r in zip(negs, res):
        chk.evaluations += 1
        chk.count("neg-" + c.kind)
        key = json.dumps(neg_to_json(c), sort_keys=True)
        if r["trace"] and ("3c617574" in r["trace"] or "68616e647368616b65" in r["trace"] or "6a61626265723a69713a61757468" in r["trace"]):
            chk.nontrivial.add(key)
        if r["problems"]:
            chk.fail(key, "; ".join(r["problems"])[:600], stream="negotiation", extra={"trace": (r["trace"] or "")[:1500]})
        if mexe is not None:
            chk.traces_validated += 1
            for ln, exp, got in r.get("disagree", []):
                chk.disagree("negotiation", {"scenario": json.loads(key), "model_query": ln}, exp, got)
        if chk.evaluations % 53 == 0:
            chk.sample({"scenario": c.kind, "jid": c.jid.decode("latin-1")[:40], "trace": (r["trace"] or "")[:200]})
    chk.extra["result_kinds"] = {
        "message": sum(1 for o in impl if o and not o.endswith("null") and not o.startswith("CRASH")),
        "refused": sum(1 for o in impl if o and o.endswith("null")),
        "crash": sum(1 for o in impl if o and o.startswith("CRASH"))}
    chk.extra["model_cases"] = len(mlines)
    cls = {}
    for f in chk.failures:
        k = f["stream"] + ": " + re.sub(r"b'[^']*'|b\"[^\"]*\"|\d+", "#", f["what"])[:110]
        cls[k] = cls.get(k, 0) + 1
    chk.extra["failure_classes"] = cls


def replay(path):
    rec = json.load(open(path))
    f = rec.get("failure") or (rec.get("disagreements") or [{}])[0]
    case = f.get("case")
    if not case:
        print("replay file names no concrete input: %s" % json.dumps(rec.get("broken_obligations"))[:800])
        return 1
    exe, sim = build()
    try:
        mexe = vlib.build_ocaml_model("C07")
    except vlib.BuildError:
        # the model is extracted by chk.prove(); do that once
        chk = vlib.Check("C07")
        chk.prove()
        mexe = vlib.build_ocaml_model("C07")

    def model_run(lines):
        return vlib.run_lines(mexe, lines, timeout=600, per_case_timeout=300)

    if isinstance(case, dict):
        case = json.dumps(case.get("scenario", case))
    if case.startswith("{"):
        c = neg_from_json(json.loads(case))
        chk = vlib.Check("C07")
        r = eval_neg(chk, sim, [c], model_run)[0]
        print("scenario: %s\ntrace   : %s\nmodel   : %s\nproperty: %s" % (case[:400], (r["trace"] or "")[:600],
              "agrees" if not r.get("disagree") else r["disagree"], "holds" if not r["problems"] else "; ".join(r["problems"])))
        return 0 if not r["problems"] and not r.get("disagree") else 1
    impl = vlib.run_lines(exe, [case], per_case_timeout=300)[0]
    model = model_run([case])[0]
    meta = meta_from_json(f.get("meta") or {})
    pb = oracle_fn({"line": case, "meta": meta, "kind": "replay"}, impl) if meta or case[0] not in "PNKSD" else []
    print("input   : %s\nimpl    : %s\nmodel   : %s\nproperty: %s" % (case[:400], impl, model, "holds" if not pb else "; ".join(pb)))
    return 0 if not pb and impl == model else 1
