"""C08 - A TLS session is only trusted if the certificate verifies or the user said so.

Layer 1: Properties_C08.v (policy model over the calls the translator finds in tls_openssl.c).
Layer 2: the exhaustive decision table with the real tls_openssl.c: a libstrophe client against an OpenSSL
         server thread on loopback, certificates minted at run time; every cell's observations are compared
         with the extracted model fed with the verdict stream OpenSSL produced in that very handshake.
Layer 3: the decision table of the property text written down here in Python (no model involved).

PARTIAL: whether a certificate verifies (path, dates, RFC 6125 name matching) is OpenSSL's decision.
"""
import json
import os
from concurrent.futures import ThreadPoolExecutor

import vlib

KINDS = ["valid", "wrongname", "partial", "expired", "notyet", "untrusted", "selfsigned"]
MODES = ["T", "N", "A", "R"]
ENTRIES = ["starttls", "legacy"]
CAS = ["ca", "noca"]
# X509_V_ERR_* that OpenSSL must report first for each kind when the CA is configured
FIRST_ERR = {"wrongname": 62, "partial": 62, "expired": 10, "notyet": 9, "untrusted": 20, "selfsigned": 18, "chainexp": 10,
             "announced": 62, "expired10m": 10, "notyet10m": 9}
DOMAIN = "xmpp.example.com"
DIGIT_DOMAIN = "4chat.example.org"          # a DNS domain that starts with a digit
# dNSName in the certificate of each kind; GOOD_CHAIN = issued (directly or through a valid intermediate) by the CA, in date
KIND_SAN = {"valid": DOMAIN, "wrongname": "xmpp.example.org", "partial": "xm*.example.com", "expired": DOMAIN, "notyet": DOMAIN,
            "untrusted": DOMAIN, "selfsigned": DOMAIN, "fullwild": "*.example.com", "chainok": DOMAIN, "chainexp": DOMAIN,
            "announced": "evil.example.net", "silent": DOMAIN, "expired10m": DOMAIN, "notyet10m": DOMAIN,
            "dvalid": DIGIT_DOMAIN, "dprefix": DIGIT_DOMAIN + ".example.net", "dsuffix": "x" + DIGIT_DOMAIN,
            "dwild": "*.example.org", "dpartial": "4c*.example.org"}
GOOD_CHAIN = ("valid", "wrongname", "partial", "fullwild", "chainok", "announced", "dvalid", "dprefix", "dsuffix", "dwild", "dpartial")


def name_matches(san, domain):
    """RFC 6125 as the property wants it: the exact name, or a wildcard that is one whole left-most label"""
    if san == domain:
        return True
    return san.startswith("*.") and "." in domain and domain.split(".", 1)[1] == san[2:]
KNOWN_NO_DEADLINE = "C08-tls-start-no-deadline"
KNOWN_NO_DEADLINE_ENTRY = {
    "property": "C08", "id": KNOWN_NO_DEADLINE, "status": "known",
    "class": "STARTTLS or legacy-SSL handshake against a peer that accepts the TCP connection (and sends <proceed/>) "
             "but never answers the ClientHello",
    "what": "tls_start() loops on SSL_connect/select(100 ms) without any deadline: the whole event loop (all connections "
            "of the context, timed handlers included) is blocked inside one xmpp_run_once() until the peer closes "
            "(also C01: wedged by a silent peer)",
    "witness": "silent N starttls ca 16500",
    "line": "known: property=C08 tls_start has no handshake deadline; a silent peer blocks xmpp_run_once indefinitely",
}
SILENT_LONG_MS = 16500      # longer than every negotiation time-out of the library (15 s)
SILENT_SHORT_MS = 1200


def drv_sources():
    return [os.path.join(vlib.ROOT, "harness", "c", "c08_driver.c")]


def build_impl_driver():
    return vlib.build_c_driver("c08", drv_sources(), extra_ldflags=["-lpthread", "-Wl,--wrap=SSL_connect,--wrap=send"])


def scratch_dir():
    d = os.path.join(vlib.BUILD, "c08")
    os.makedirs(d, exist_ok=True)
    return d


# ------------------------------------------------------------------------------------------ cases
def all_cells():
    return ["%s %s %s %s" % (k, m, e, c) for k in KINDS for m in MODES for e in ENTRIES for c in CAS]


def quick_cells():
    """28 representative cells (every kind x every trust mode, entry point and CA setting rotating so that each
    of the four (entry, ca) combinations meets every kind and every mode) + the 4 trust modes on a valid certificate
    for both entry points with the CA configured."""
    cells = []
    for i, k in enumerate(KINDS):
        for j, m in enumerate(MODES):
            e = ENTRIES[(i + j) % 2]
            c = CAS[1] if (i + 2 * j) % 4 == 3 else CAS[0]
            cells.append("%s %s %s %s" % (k, m, e, c))
    for m in MODES:
        for e in ENTRIES:
            c = "valid %s %s ca" % (m, e)
            if c not in cells:
                cells.append(c)
    return cells


def extra_cells(thorough):
    ex = [
        # full-label wildcard: must be accepted ("full-label wildcards only")
        "fullwild N starttls ca", "fullwild N legacy ca", "fullwild R starttls ca", "fullwild N starttls noca",
        # CA given as a hashed directory
        "valid N legacy cadir", "wrongname N starttls cadir",
        # CA file that cannot be loaded: TLS must not come up, whatever the certificate or trust mode
        "valid N starttls badca", "valid N legacy badca", "valid T legacy badca", "valid A starttls badca",
        # scripted callbacks: accept the first failing element, reject the second; answers other than 1
        "untrusted S10 starttls ca", "untrusted S10 legacy noca", "untrusted S11 starttls ca", "untrusted S110 legacy ca",
        "expired S2 starttls ca", "expired S0 legacy ca", "selfsigned S9 legacy ca", "valid S0 starttls ca",
        # chains root -> intermediate -> leaf, the intermediate valid or expired; callbacks that decide on the certificate
        # they are shown: P<r> accepts only role r, Q<r> rejects only role r (0 leaf, 1 intermediate, 2 root)
        "chainok N starttls ca", "chainok N legacy noca", "chainok A starttls noca", "chainok P1 legacy noca",
        "chainok P0 starttls noca", "chainok Q1 starttls noca", "chainok Q0 legacy noca",
        "chainexp N legacy ca", "chainexp A starttls ca", "chainexp R legacy ca", "chainexp T legacy ca",
        "chainexp P0 starttls ca", "chainexp P0 legacy ca", "chainexp P1 starttls ca", "chainexp P1 legacy noca",
        "chainexp Q1 legacy ca", "chainexp Q0 starttls ca", "chainexp Q0 legacy noca",
        "expired P0 starttls ca", "expired Q0 legacy ca", "expired P1 legacy ca", "untrusted P1 starttls ca",
        "wrongname Q1 legacy ca",
        # the server calls itself something else in its stream headers (before and after TLS) and has a perfectly good
        # certificate for THAT name: the name to verify is the JID's domain, whatever the server announces
        "announced N starttls ca", "announced N starttls noca", "announced N legacy ca", "announced N legacy noca",
        "announced R starttls ca", "announced R starttls noca", "announced R legacy ca", "announced R legacy noca",
        "announced A starttls ca", "announced A starttls noca", "announced A legacy ca", "announced A legacy noca",
        "valid N starttls ca announce=evil.example.net", "valid N legacy ca announce=evil.example.net",
        "wrongname N starttls ca announce=xmpp.example.org", "wrongname R starttls+m ca announce=xmpp.example.org",
        # a second configured domain, one that starts with a digit: the certificate has to name THAT domain
        "dvalid N starttls ca domain=4chat.example.org", "dvalid N legacy ca domain=4chat.example.org",
        "dvalid R starttls ca domain=4chat.example.org", "dvalid A legacy noca domain=4chat.example.org",
        "dwild N starttls ca domain=4chat.example.org", "dwild R legacy ca domain=4chat.example.org",
        "valid N starttls ca domain=4chat.example.org", "valid N legacy ca domain=4chat.example.org",
        "valid R starttls ca domain=4chat.example.org", "valid R legacy ca domain=4chat.example.org",
        "valid A starttls ca domain=4chat.example.org",
        "dprefix N starttls ca domain=4chat.example.org", "dprefix N legacy ca domain=4chat.example.org",
        "dprefix R starttls ca domain=4chat.example.org", "dprefix R legacy ca domain=4chat.example.org",
        "dsuffix N starttls ca domain=4chat.example.org", "dsuffix N legacy ca domain=4chat.example.org",
        "dsuffix R starttls ca domain=4chat.example.org", "dsuffix R legacy ca domain=4chat.example.org",
        "dpartial N starttls ca domain=4chat.example.org", "dpartial R legacy ca domain=4chat.example.org",
        "dvalid N starttls ca", "dwild N legacy ca",       # and the digit-domain certificates are wrong for the first domain
        # ten minutes outside the validity period is outside the validity period
        "expired10m N starttls ca", "expired10m N legacy ca", "expired10m R starttls ca", "expired10m R legacy ca",
        "expired10m A starttls ca", "expired10m A legacy noca",
        "notyet10m N starttls ca", "notyet10m N legacy ca", "notyet10m R legacy ca", "notyet10m R starttls ca",
        "notyet10m A legacy ca", "notyet10m A starttls noca",
        # callback history on the same connection object: what counts is the handler set last (hist= lists the earlier
        # settings: A accept-all, R reject-all, N none); "A then removed" must behave like N, "R then A" like A
        "untrusted N starttls ca hist=A", "untrusted N legacy ca hist=A", "wrongname N starttls ca hist=A",
        "expired N legacy ca hist=A", "selfsigned N starttls noca hist=RA", "valid N starttls ca hist=A",
        "untrusted A legacy ca hist=R", "expired A starttls ca hist=R", "selfsigned R legacy ca hist=A",
        "wrongname R starttls ca hist=A", "chainexp P1 legacy ca hist=R", "chainexp P0 starttls ca hist=A",
        "untrusted A starttls ca hist=AN", "untrusted T legacy noca hist=R",
        # XMPP_CONN_FLAG_MANDATORY_TLS: the failure reactions must not depend on it
        "wrongname N starttls+m ca", "valid N starttls+m ca", "expired R starttls+m ca", "untrusted N legacy+m ca",
        "valid N starttls+m badca", "valid A legacy+m badca",
    ]
    if thorough:
        ex += ["fullwild %s %s %s" % (m, e, c) for m in MODES for e in ENTRIES for c in CAS]
        ex += ["%s %s %s cadir" % (k, m, e) for k in KINDS for m in ("N", "A") for e in ENTRIES]
        ex += ["%s S%s %s ca" % (k, s, e) for k in ("untrusted", "wrongname", "notyet") for s in ("01", "10", "11", "101", "3")
               for e in ENTRIES]
        ex += ["%s %s %s %s" % (k, m, e, c) for k in ("chainok", "chainexp")
               for m in ("T", "N", "A", "R", "P0", "P1", "P2", "Q0", "Q1", "Q2", "S10", "S01") for e in ENTRIES for c in CAS]
        ex += ["%s %s %s+m ca" % (k, m, e) for k in KINDS for m in ("N", "R", "A") for e in ENTRIES]
        ex += ["%s %s %s %s" % (k, m, e, c) for k in ("expired10m", "notyet10m") for m in MODES + ["P0", "Q0"] for e in ENTRIES for c in CAS]
        ex += ["%s %s %s ca hist=%s" % (k, m, e, h) for k in ("untrusted", "wrongname", "expired10m", "chainexp", "valid")
               for m in ("N", "A", "R") for e in ENTRIES for h in ("A", "R", "AR", "RA", "AN")]
        ex += ["%s %s %s %s domain=4chat.example.org" % (k, m, e, c)
               for k in ("dvalid", "dprefix", "dsuffix", "dwild", "dpartial", "valid", "wrongname", "fullwild", "expired", "chainok")
               for m in MODES + ["P0", "S10"] for e in ENTRIES for c in CAS]
    seen, out = set(), []
    for c in ex:
        if c not in seen:
            seen.add(c)
            out.append(c)
    return out


def load_corpus():
    p = os.path.join(vlib.ROOT, "corpus", "C08.txt")
    if not os.path.exists(p):
        return []
    return [l.strip() for l in open(p) if l.strip() and not l.startswith("#")]


# ------------------------------------------------------------------------------------------ parsing
def parse(line):
    if line is None or line.startswith("CRASH") or "=" not in line:
        return None
    d = {}
    for tok in line.split():
        k, _, v = tok.partition("=")
        d[k] = v
    return d


def case_fields(case):
    p = case.split()
    f = {"kind": p[0], "mode": p[1], "entry": p[2], "ca": p[3], "ms": 0, "domain": DOMAIN,
         "announce": "evil.example.net" if p[0] == "announced" else None}
    for opt in p[4:]:
        if opt.isdigit():
            f["ms"] = int(opt)
        elif opt.startswith("announce="):
            f["announce"] = opt[9:]
        elif opt.startswith("domain="):
            f["domain"] = opt[7:]
        elif opt.startswith("hist="):
            f["hist"] = opt[5:]
    return f


def model_line(case, obs):
    """input of the extracted model: the cell + what OpenSSL/the peer did in this very run"""
    f = case_fields(case)
    # (preverify_ok, role of the certificate the verdict is about) as the shim at the OpenSSL boundary saw them
    stream = ",".join(x[0] + y.split(":")[2] for x, y in zip(obs["v"].split(","), obs["e"].split(","))) if obs["v"] != "-" else "-"
    hs_ok = "0" if f["kind"] == "silent" else "1"
    te = obs.get("te", "0")
    if f["kind"] == "silent" and obs.get("silent", "").split("/")[1:2] == ["0"]:
        te = "5"        # the library's own handshake deadline expired: tls_start reports SSL_ERROR_SYSCALL
    return "%s %s %s %s %s %s %s %s" % (f["mode"], f["entry"], f["ca"], hs_ok, te, stream, "close", f.get("hist") or "-")


def compare(case, obs, mod):
    """fields predicted by the model vs observed; returns list of differing field names"""
    f = case_fields(case)
    diffs = []
    srv = dict(x.split(":", 1) if ":" in x else (x[:2], x[2:]) for x in obs["srv"].split("|"))
    pairs = [("cfg", obs["cfg"][:-1] + "0" if obs["cfg"].endswith("/-") else obs["cfg"], mod["cfg"]), ("v", obs["v"], mod["v"]), ("cbn", obs["cb"].split(":")[0], mod["cbn"]),
             ("shown", obs["sh"], mod["sh"]), ("stale", obs.get("stale", "0"), mod.get("stale", "0")),
             ("ts", obs["ts"], mod["ts"]), ("sec", obs["sec"], mod["sec"]), ("nd", obs["nd"], mod["nd"]),
             ("t", srv.get("t", "?"), mod["t"])]
    for name, a, b in pairs:
        if a != b:
            diffs.append("%s: impl %s model %s" % (name, a, b))
    # events: the error code of a disconnect caused by the peer closing is whatever errno says (model: *)
    ea, eb = obs["ev"].split(","), mod["ev"].split(",")
    if len(ea) != len(eb) or any(not (x == y or (y.endswith("/*") and x.split("/")[0] == y.split("/")[0])) for x, y in zip(ea, eb)):
        diffs.append("ev: impl %s model %s" % (obs["ev"], mod["ev"]))
    # plaintext written by the library: before / after the handshake began
    wa, wb = obs["cw"].split("|"), mod["cw"].split("|")
    if wa[0] != wb[0]:
        diffs.append("cw-before: impl %s model %s" % (wa[0], wb[0]))
    if f["kind"] == "silent":
        # the peer is gone by then: the write may be lost
        if wa[1] not in ("-", wb[1]):
            diffs.append("cw-after: impl %s model %s" % (wa[1], wb[1]))
    elif wa[1] != wb[1]:
        diffs.append("cw-after: impl %s model %s" % (wa[1], wb[1]))
    if mod.get("crash") != "0":
        diffs.append("model predicts a call through a NULL handler")
    return diffs


# ------------------------------------------------------------------------------------------ the property oracle
def script_answers(mode, roles):
    """what the user's handler answers when asked, in turn, about certificates of these roles"""
    n = len(roles)
    if mode == "A":
        return [1] * n
    if mode == "R":
        return [0] * n
    if mode.startswith("S"):
        ds = [int(ch) for ch in mode[1:]]
        return [(ds[i] if i < len(ds) else 0) for i in range(n)]
    if mode.startswith("P"):
        return [1 if r == mode[1] else 0 for r in roles]
    if mode.startswith("Q"):
        return [0 if r == mode[1] else 1 for r in roles]
    return []


def oracle(case, obs):
    """The decision table of the property text.  Returns (violations, functional, expected_secured):
    violations = the property fails; functional = the cell did not behave as the table says in the harmless direction
    (a session that should have come up did not) or the harness' certificate did not exercise what it claims."""
    f = case_fields(case)
    bad, func = [], []
    if obs is None:
        return ["no result (crash or hang)"], [], None
    mode, kind, entry, ca = f["mode"], f["kind"], f["entry"], f["ca"]
    silent = kind == "silent"
    mandatory = entry.endswith("+m")
    entry = entry.split("+")[0]
    # the name the certificate must carry is the domain of the configured JID
    verifies = (kind in GOOD_CHAIN and name_matches(KIND_SAN[kind], f["domain"]) and ca in ("ca", "cadir") and not silent)
    VERIFYING = tuple(k for k in GOOD_CHAIN if name_matches(KIND_SAN[k], f["domain"]))
    has_cb = mode[0] in "ARSPQ"
    trust = mode == "T"
    srv = dict(x.split(":", 1) if ":" in x else (x[:2], x[2:]) for x in obs["srv"].split("|"))
    evs = obs["ev"].split(",") if obs["ev"] != "-" else []
    ncb = int(obs["cb"].split(":")[0])
    secured_seen = ("C1" in evs) or any(e.startswith("D1") for e in evs) or obs["sec"] != "0/0"
    tls_data = srv.get("t", "-") != "-"
    vs = obs["v"].split(",") if obs["v"] != "-" else []
    es = obs["e"].split(",") if obs["e"] != "-" else []
    failing = [x for x in vs if x[0] != "1"]
    # the certificates OpenSSL's verdicts were about (read by the shim with X509_STORE_CTX_get_current_cert)
    failing_roles = [y.split(":")[2] for x, y in zip(vs, es) if x[0] != "1"]

    # --- a handler that was replaced or removed before connecting has no say any more
    if obs.get("stale", "0") != "0":
        bad.append("a handler that had been %s before connecting (history %s) was still consulted %s times"
                   % ("removed" if not has_cb else "replaced", f.get("hist"), obs["stale"]))
    # --- never reported secured before the handshake has completed successfully
    if "1" in obs.get("hsec", ""):
        bad.append("xmpp_conn_is_secured was true while the handshake was still running (hsec=%s: at each verify-callback "
                   "invocation / inside the user handler)" % obs["hsec"])
    if obs.get("hang") != "0":
        bad.append("the connection was still not torn down when the driver's wall-clock bound expired")
    # --- configuration handed to OpenSSL
    if obs["cfg"] != "none":
        vm, vcb, hf, host = obs["cfg"].split("/")
        if int(vm) % 2 == 0 and not trust:
            bad.append("peer verification is off (SSL verify mode %s) although the trust flag is not set" % vm)
        if not trust and vcb != "1":
            bad.append("no verify callback installed although the trust flag is not set")
        if host != "1":
            bad.append("the reference identity handed to OpenSSL is %r, not the domain of the configured JID%s"
                       % (obs.get("ph", host), " (the server announced from=%r)" % f["announce"] if f.get("announce") else ""))
        if int(hf) != 4:
            bad.append("host flags are %s, not X509_CHECK_FLAG_NO_PARTIAL_WILDCARDS alone" % hf)
    # --- user consent in this run
    # what the user's handler says about the certificates that actually failed
    answers = script_answers(mode, failing_roles) if not trust else []
    consent = trust or (has_cb and len(failing) > 0 and all(a != 0 for a in answers) and ncb >= len(failing))
    allowed = (verifies and not failing) or consent
    if ca == "badca" or silent:
        allowed = False
    if (secured_seen or tls_data) and not allowed:
        bad.append("session trusted (secured reported: %s, data over TLS: %s) although the certificate does not verify "
                   "and the user did not consent" % (secured_seen, srv.get("t")))
    if not trust and not has_cb and failing and (secured_seen or tls_data or "C0" in evs):
        bad.append("no callback installed, a chain element failed, and the handshake was not aborted")
    if has_cb and not trust and any(a == 0 for a in answers) and (secured_seen or tls_data):
        bad.append("the callback rejected a certificate and the session was used anyway")
    # the verdict of the certificate itself must not depend on the user's settings
    if not trust and not silent and ca != "badca" and obs["cfg"] != "none":
        if verifies and failing:
            func.append("a certificate that should verify was flagged by OpenSSL (%s)" % obs["e"])
        if not verifies and not failing and kind not in VERIFYING:
            bad.append("certificate kind '%s' was not flagged by OpenSSL at all (v=%s)" % (kind, obs["v"]))
        if not verifies and not failing and kind in VERIFYING:
            bad.append("certificate verified although no CA is configured")
        first_err = FIRST_ERR.get(kind, 62 if kind in GOOD_CHAIN and kind not in VERIFYING else None)
        if f["domain"] != DOMAIN:
            first_err = (None if kind in VERIFYING else 62) if kind in GOOD_CHAIN else None
        if failing and ca in ("ca", "cadir") and first_err is not None:
            first = [x for x, y in zip(es, vs) if y[0] != "1"][0]
            if int(first.split(":")[1]) != first_err:
                func.append("certificate kind '%s' failed with X509 error %s, expected %d" % (kind, first, first_err))
    # --- callback bookkeeping
    if not has_cb or trust:
        if ncb != 0:
            bad.append("user handler invoked %d times although %s" % (ncb, "the trust flag is set" if trust else "none is installed"))
    elif obs["cfg"] != "none":
        if ncb != len(failing):
            bad.append("user handler invoked %d times for %d failing chain elements" % (ncb, len(failing)))
        if obs["sh"].replace("-", "") != "".join(failing_roles):
            bad.append("the handler was shown certificates of roles %s, the failing ones were %s (0 leaf, 1 intermediate, 2 root)"
                       % (obs["sh"], "".join(failing_roles) or "-"))
        for (x, a) in zip(failing, answers):
            if (x[1] != "0") != (a != 0):
                bad.append("verify callback returned %s where the user answered %d" % (x[1], a))
    for x in vs:
        if x[0] == "1" and x[1] != "1" and not trust:
            bad.append("verify callback did not pass an ok element through (%s)" % x)
    # --- teardown
    if obs["nd"] != "1":
        bad.append("%s disconnect notifications" % obs["nd"])
    if obs["sec"].split("/")[1] != "0":
        bad.append("still reported secured after the disconnect")
    started = obs["ts"] != "0"
    if started and not (secured_seen or tls_data):
        # failed handshake
        after = obs["cw"].split("|")[1]
        if after not in ("-", "X"):
            bad.append("after the failed handshake the client wrote %r in the clear (only </stream:stream> is allowed)" % after)
        if entry == "legacy" and obs["cw"] != "-|-":
            bad.append("legacy SSL: plaintext %r left the client" % obs["cw"])
        if srv.get("r", "-") not in ("-", "X"):
            bad.append("after the failed handshake the server received %r" % srv.get("r"))
        if any(e.startswith("C") for e in evs):
            bad.append("XMPP_CONN_CONNECT delivered after a failed handshake")
    if entry == "legacy" and obs["cw"] != "-|-" and not any(b.startswith("legacy SSL") for b in bad):
        bad.append("legacy SSL: plaintext %r left the client" % obs["cw"])
    before = obs["cw"].split("|")[0]
    if ca == "badca" and entry == "starttls":
        # TLS cannot be initialised: without MANDATORY_TLS the library goes on without it (by design), with it nothing is sent
        if before != ("H" if mandatory else "HA"):
            bad.append("unexpected plaintext with TLS unavailable: %r" % before)
    elif before not in ("-", "HS"):
        bad.append("unexpected plaintext before TLS: %r" % obs["cw"])
    if mandatory and "A" in obs["cw"]:
        bad.append("authentication data in the clear although TLS is mandatory (%s)" % obs["cw"])
    if (secured_seen or tls_data) and obs["cw"].split("|")[1] != "-":
        bad.append("plaintext %r written after TLS came up" % obs["cw"].split("|")[1])
    # --- the harmless direction: what the table says should work, works
    if allowed and not silent:
        if not (evs[:1] == ["C1"] and srv.get("t") == "HAHBX" and srv.get("hs") == "+"):
            func.append("the table says this session comes up secured; observed ev=%s t=%s" % (obs["ev"], srv.get("t")))
    return bad, func, allowed


# ------------------------------------------------------------------------------------------ run
def run_cases(exe, mexe, cases):
    """returns list of (case, impl_line, obs, model_line, mod)"""
    table = [c for c in cases if not (c.startswith("silent") and case_fields(c)["ms"] > 5000)]
    slow = [c for c in cases if c not in table]
    args = [scratch_dir()]

    def go(lines):
        return vlib.run_lines(exe, lines, args=args, timeout=240, per_case_timeout=45) if lines else []

    with ThreadPoolExecutor(max_workers=1 + len(slow)) as ex:
        fut_t = ex.submit(go, table)
        futs = [ex.submit(go, [c]) for c in slow]
        res = dict(zip(table, fut_t.result()))
        for c, fu in zip(slow, futs):
            res[c] = fu.result()[0]
    out = []
    mlines, idx = [], []
    for c in cases:
        obs = parse(res[c])
        out.append([c, res[c], obs, None, None])
        if obs is not None and mexe:
            mlines.append(model_line(c, obs))
            idx.append(len(out) - 1)
    if mexe and mlines:
        mo = vlib.run_lines(mexe, mlines)
        for i, ml, o in zip(idx, mlines, mo):
            out[i][3] = ml
            out[i][4] = parse(o)
    return out


def evaluate(chk, rows):
    for case, line, obs, ml, mod in rows:
        f = case_fields(case)
        chk.evaluations += 1
        chk.count("%s/%s" % ("silent" if f["kind"] == "silent" else ("scripted" if f["mode"][0] in "SPQ" else f["ca"]), f["entry"]))
        chk.count("kind:" + f["kind"])
        chk.count("mode:" + f["mode"][0])
        bad, func, allowed = oracle(case, obs)
        if obs is not None and obs.get("ts", "0") != "0":
            chk.nontrivial.add(case)
        if obs is not None:
            chk.count("verdict:" + ("secured" if allowed else "refused"))
        for b in bad:
            chk.fail(case, b, extra={"impl": line})
        for b in func:
            chk.disagree("table", case, line, b)
        sil = obs.get("silent", "").split("/") if obs is not None else []
        if f["kind"] == "silent" and len(sil) == 3 and sil[1] == "0":
            chk.count("silent:gave-up-after-%ss" % sil[2])
            if f["ms"] >= 15500 and sil[2] not in ("15", "16"):
                chk.fail(case, "the handshake with a silent peer was given up after %s s, not at the 15 s deadline" % sil[2],
                         extra={"impl": line})
            if f["ms"] < 5000:
                chk.fail(case, "the handshake with a silent peer was given up after %s s although the peer was still there" % sil[2],
                         extra={"impl": line})
        if f["kind"] == "silent" and len(sil) == 3 and f["ms"] >= 15500 and sil[1] == "1":
            if not any(k.get("id") == KNOWN_NO_DEADLINE for k in chk.known):
                # known_findings.json is the coordinator's file; until the entry is committed there the check carries it
                chk.known.append(dict(KNOWN_NO_DEADLINE_ENTRY))
            chk.fail(case, "tls_start was still looping %d ms after the peer went silent (longer than every negotiation "
                           "time-out of the library) and only returned when the peer closed" % f["ms"],
                     extra={"impl": line, "cls": "tls-start-no-deadline"})
        if mod is not None:
            chk.traces_validated += 1
            diffs = compare(case, obs, mod)
            if diffs:
                chk.disagree("tls-table", case, line, "; ".join(diffs) + " || model: " + " ".join("%s=%s" % kv for kv in mod.items()))
            if mod.get("pol") != "1":
                chk.broken.append({"kind": "model-statement", "name": "policy_ok",
                                   "detail": "the executable statement of the property is false on the model for %s (%s)" % (case, ml)})
        elif obs is not None and ml is not None:
            chk.disagree("tls-table", case, line, "model produced no result")
        if len(chk.samples) < 8 and chk.evaluations % 9 == 1:
            chk.sample({"case": case, "impl": line, "model": " ".join("%s=%s" % kv for kv in (mod or {}).items())})


def run(chk):
    thorough = chk.tier == "thorough"
    chk.rule = ("decision table {valid, wrong-name, partial-wildcard, expired, not-yet-valid, untrusted-issuer, self-signed} x "
                "{trust flag, no callback, callback accepts, callback rejects} x {STARTTLS, legacy SSL} x {CA file set, not set}: "
                "quick = 28 representative cells (every kind x every mode, entry/CA rotating) + the 4 modes on a valid certificate, "
                "thorough = all 112; plus full-label wildcard, CA directory, unloadable CA file, scripted per-certificate answers "
                "(accept-then-reject, answers other than 0/1) and a peer that goes silent after <proceed/> (1.2 s and 16.5 s). "
                "Every case is one real TLS handshake of the unmodified tls_openssl.c against an OpenSSL server thread on loopback; "
                "non-trivial = a handshake was actually started (SSL_connect called)")
    chk.assumptions = [
        "PARTIAL: X.509 path validation, validity dates and RFC 6125 name matching are OpenSSL's (3.0.x here); the model takes "
        "OpenSSL's per-chain-element verdicts (preverify_ok) and 'the handshake as such completes' as inputs",
        "OpenSSL contract assumed by the model: the verification walk stops at the first 0 answer of the verify callback; with "
        "SSL_VERIFY_PEER a failed verification aborts the handshake, with SSL_VERIFY_NONE the client continues; without a callback "
        "OpenSSL keeps its own verdict; X509_CHECK_FLAG_NO_PARTIAL_WILDCARDS / X509_VERIFY_PARAM_set1_host mean what the manual says "
        "(exercised by the wrong-name, partial-wildcard and full-wildcard cells)",
        "observation hook: ld --wrap=SSL_connect (reads verify mode/callback/host flags/host off the SSL object and wraps the "
        "installed verify callback with a logging shim) and --wrap=send (plaintext written by sock.c); the library source is unmodified",
        "tools/gens/gen_tls.py reads the SSL_set_verify / host-flag / set1_host calls and the return statements of _tls_verify out of "
        "`gcc -E tls_openssl.c`; guards other than `if (conn->tls_trust) ... else ...` are reported as unknown (obligation fails)",
        "the harness server offers STARTTLS only before TLS and SASL PLAIN + bind after it; certificates are P-256, minted per process",
    ]
    chk.known_preds[KNOWN_NO_DEADLINE] = lambda rec: rec.get("cls") == "tls-start-no-deadline"
    chk.prove()
    exe = build_impl_driver()
    mexe = None
    try:
        mexe = vlib.build_ocaml_model("C08")
    except vlib.BuildError as e:
        chk.broken.append({"kind": "extract", "name": "Extract_C08", "detail": str(e)[:500]})
    cases = load_corpus()
    for c in (all_cells() if thorough else quick_cells()) + extra_cells(thorough):
        if c not in cases:
            cases.append(c)
    for c in ["silent N starttls ca %d" % SILENT_SHORT_MS, "silent A legacy ca %d" % SILENT_SHORT_MS,
              "silent N starttls ca %d" % SILENT_LONG_MS]:
        if c not in cases:
            cases.append(c)
    if thorough:
        cases.append("silent T legacy noca %d" % SILENT_LONG_MS)
    rows = run_cases(exe, mexe, cases)
    evaluate(chk, rows)
    # a second pass in the thorough tier: the table must be reproducible (no dependence on timing)
    if thorough:
        rows2 = run_cases(exe, mexe, all_cells())
        first = {r[0]: r[1] for r in rows}
        for case, line, obs, ml, mod in rows2:
            chk.evaluations += 1
            chk.count("repeat")
            if strip_volatile(line) != strip_volatile(first.get(case)):
                chk.disagree("repeatability", case, line, first.get(case))
    chk.extra["cells"] = {"table": len([c for c in cases if c.split()[0] in KINDS and c.split()[1] in MODES and c.split()[3] in CAS]),
                          "total": len(cases)}


def strip_volatile(line):
    if not line:
        return line
    # the server's view after a failed handshake depends on whether the RST overtakes the stream close
    return " ".join(t for t in line.split() if not t.startswith("srv=")) + " " + \
        "|".join(x for x in (parse(line) or {}).get("srv", "").split("|") if not x.startswith("r:"))


def replay(path):
    rec = json.load(open(path))
    f = rec.get("failure") or (rec.get("disagreements") or [{}])[0]
    case = f.get("case")
    if not case:
        print("replay file names no concrete input: %s" % json.dumps(rec.get("broken_obligations"))[:800])
        return 1
    exe = build_impl_driver()
    try:
        mexe = vlib.build_ocaml_model("C08")
    except vlib.BuildError:
        # no extracted model for this source tree yet: run the translator + extraction for it
        try:
            vlib.coq_property("C08")
            mexe = vlib.build_ocaml_model("C08")
        except vlib.BuildError:
            mexe = None
    (case, line, obs, ml, mod), = run_cases(exe, mexe, [case])
    bad, func, allowed = oracle(case, obs)
    print("cell      : %s" % case)
    print("impl      : %s" % line)
    print("model in  : %s" % ml)
    print("model     : %s" % (" ".join("%s=%s" % kv for kv in mod.items()) if mod else "(model unavailable)"))
    print("table says: %s" % ("session may be trusted" if allowed else "session must not be trusted"))
    if mod and obs:
        for d in compare(case, obs, mod):
            print("differs   : %s" % d)
    for b in bad:
        print("property  : FAILS - %s" % b)
    for b in func:
        print("table     : %s" % b)
    if not bad:
        print("property  : holds on this cell")
    return 1 if bad else 0
