"""C09 - Stanza serialisation is faithful and cannot be broken out of.

A case is a program of public stanza API calls (see harness/c/c09_driver.c for the syntax).
Three things are compared for every program:
  * correspondence: the implementation's return codes / handles / rendered bytes / reported length /
    accessor dumps against the extracted Coq model (byte-exact, including attribute order);
  * the extracted reference parser (XmlSubsetSpec.spec_parse) applied to the model's text;
  * the PROPERTY ORACLE (independent of the model): a small reference interpreter of the API in this
    file says which tree the program built; libxml2's and the library's own re-read of the rendered
    text must be that tree (names, effective namespaces, attribute sets, child order, merged text),
    the reported length must be the string length, an object rendered twice without an intervening
    mutation of its subtree must give identical bytes (copies are unaffected by later changes of the
    original), replies / error replies must have the RFC 6120 shape.
"""
import json
import os
import re

import vlib

NS_CLIENT = b"jabber:client"
NS_STANZAS = b"urn:ietf:params:xml:ns:xmpp-stanzas"
NS_STREAMS = b"urn:ietf:params:xml:ns:xmpp-streams"
NS_ETHERX = b"http://etherx.jabber.org/streams"
XMLNS = b"xmlns"

STREAM_CONDITIONS = [b"bad-format", b"bad-namespace-prefix", b"conflict", b"connection-timeout", b"host-gone",
                     b"host-unknown", b"improper-addressing", b"internal-server-error", b"invalid-from", b"invalid-id",
                     b"invalid-namespace", b"invalid-xml", b"not-authorized", b"policy-violation",
                     b"remote-connection-failed", b"resource-constraint", b"restricted-xml", b"see-other-host",
                     b"system-shutdown", b"undefined-condition", b"unsupported-encoding", b"unsupported-stanza-type",
                     b"unsupported-version", b"xml-not-well-formed"]
STANZA_CONDITIONS = [b"bad-request", b"conflict", b"feature-not-implemented", b"forbidden", b"gone",
                     b"internal-server-error", b"item-not-found", b"jid-malformed", b"not-acceptable", b"not-allowed",
                     b"not-authorized", b"policy-violation", b"recipient-unavailable", b"redirect",
                     b"registration-required", b"remote-server-not-found", b"remote-server-timeout",
                     b"resource-constraint", b"service-unavailable", b"subscription-required", b"undefined-condition",
                     b"unexpected-request"]
ERROR_TYPES = [b"auth", b"cancel", b"continue", b"modify", b"wait"]


def hx(b):
    return b.hex() if b else "-"


def unhx(s):
    return b"" if s == "-" else bytes.fromhex(s)


# ---------------------------------------------------------------------------------------------------
# legality of content (the property's character classes)
# ---------------------------------------------------------------------------------------------------
_NS = "A-Z_a-z\u00C0-\u00D6\u00D8-\u00F6\u00F8-\u02FF\u0370-\u037D\u037F-\u1FFF\u200C-\u200D\u2070-\u218F" \
      "\u2C00-\u2FEF\u3001-\uD7FF\uF900-\uFDCF\uFDF0-\uFFFD\U00010000-\U000EFFFF"
_NC = _NS + "\\-.0-9\u00B7\u0300-\u036F\u203F-\u2040"
NCNAME = re.compile("^[%s][%s]*$" % (_NS, _NC))


def legal_chars(b, attr):
    try:
        s = b.decode("utf-8")
    except UnicodeDecodeError:
        return False
    for ch in s:
        c = ord(ch)
        if c in (9, 10):
            if attr:
                return False
            continue
        if not (0x20 <= c <= 0xD7FF or 0xE000 <= c <= 0xFFFD or 0x10000 <= c <= 0x10FFFF):
            return False
    return True


def legal_name(b):
    try:
        return NCNAME.match(b.decode("utf-8")) is not None
    except UnicodeDecodeError:
        return False


# ---------------------------------------------------------------------------------------------------
# reference interpreter of the API (the oracle's own notion of "the tree the program built")
# ---------------------------------------------------------------------------------------------------
class Node:
    __slots__ = ("kind", "data", "attrs", "children", "parent", "stamp")

    def __init__(self):
        self.kind = "U"
        self.data = None
        self.attrs = {}
        self.children = []
        self.parent = None
        self.stamp = 0


class Ref:
    """Reference semantics: handles are object references, add_child shares the object."""

    def __init__(self):
        self.slots = {}
        self.clock = 0

    def touch(self, n):
        self.clock += 1
        while n is not None:
            n.stamp = self.clock
            n = n.parent

    def deep_copy(self, n, parent=None):
        c = Node()
        c.kind, c.data, c.attrs, c.parent = n.kind, n.data, dict(n.attrs), parent
        c.children = [self.deep_copy(ch, c) for ch in n.children]
        return c

    def reply(self, n):
        if n.kind != "E" or b"from" not in n.attrs:
            return None
        r = Node()
        r.kind, r.data = "E", n.data
        r.attrs = {k: v for k, v in n.attrs.items() if k not in (b"to", b"from", XMLNS)}
        r.attrs[b"to"] = n.attrs[b"from"]
        return r

    def elem(self, name, attrs, children, parent=None):
        e = Node()
        e.kind, e.data, e.attrs, e.parent = "E", name, dict(attrs), parent
        for ch in children:
            ch.parent = e
            e.children.append(ch)
        return e

    def text(self, s):
        t = Node()
        t.kind, t.data = "T", s
        return t

    def step(self, op):
        """Returns (expected token kind, detail) and performs the op."""
        o = op[0]
        S = self.slots
        if o == "N":
            S[op[1]] = Node()
            return "h0"
        if o == "T":
            n = S.get(op[1])
            if n is None:
                return "k"
            if n.kind == "E":
                return "r-2"
            n.kind, n.data = "T", op[2][:op[3]]
            self.touch(n)
            return "r0"
        if o in "ntsiofyda":
            n = S.get(op[1])
            if n is None:
                return "k"
            if o == "n":
                if n.kind == "T":
                    return "r-2"
                n.kind, n.data = "E", op[2]
                self.touch(n)
                return "r0"
            if o == "t":
                if n.kind == "E":
                    return "r-2"
                n.kind, n.data = "T", op[2]
                self.touch(n)
                return "r0"
            if o == "d":
                if n.kind != "E" or op[2] not in n.attrs:
                    return "r-1"
                del n.attrs[op[2]]
                self.touch(n)
                return "r0"
            key = {"s": XMLNS, "i": b"id", "o": b"to", "f": b"from", "y": b"type"}.get(o)
            val = op[2]
            if o == "a":
                key, val = op[2], op[3]
            if n.kind != "E":
                return "r-2"
            n.attrs[key] = val
            self.touch(n)
            return "r0"
        if o == "c":
            p, c = S.get(op[1]), S.get(op[2])
            if p is None or c is None or c.parent is not None:
                return "k"
            root = p
            while root.parent is not None:
                root = root.parent
            if root is c:
                return "k"
            p.children.append(c)
            c.parent = p
            self.touch(c)
            return "r0"
        if o in "CRE":
            src = S.get(op[2])
            if src is None:
                return "k"
            if o == "C":
                r = self.deep_copy(src)
            elif o == "R":
                r = self.reply(src)
            else:
                r = self.reply(src)
                if r is not None:
                    r.attrs[b"type"] = b"error"
                    if b"to" in src.attrs:
                        r.attrs[b"from"] = src.attrs[b"to"]
                    kids = [self.elem(op[4], {XMLNS: NS_STANZAS}, [])]
                    if op[5] is not None:
                        kids.append(self.elem(b"text", {XMLNS: NS_STANZAS}, [self.text(op[5])]))
                    err = self.elem(b"error", {b"type": op[3]}, kids)
                    err.parent = r
                    r.children.append(err)
            S[op[1]] = r
            return "h0" if r is not None else "h1"
        if o == "S":
            k = op[2]
            name = STREAM_CONDITIONS[k] if 0 <= k < len(STREAM_CONDITIONS) else b"internal-server-error"
            kids = [self.elem(name, {XMLNS: NS_STREAMS}, [])]
            if op[3] is not None:
                kids.append(self.elem(b"text", {XMLNS: NS_STREAMS}, [self.text(op[3])]))
            S[op[1]] = self.elem(b"stream:error", {}, kids)
            return "h0"
        if o in "PD":
            n = S.get(op[1])
            if n is None:
                return "k"
            return o
        raise ValueError(op)


def renders_ok(n):
    if n.kind == "U":
        return False
    if n.kind == "T":
        return True
    return all(renders_ok(c) for c in n.children)


def raw_dump(n, sort):
    if n.kind == "U":
        return "U"
    if n.kind == "T":
        return "T" + hx(n.data)
    items = list(n.attrs.items())
    if sort:
        items.sort()
    return "E%s[%s](%s)" % (hx(n.data), ",".join("%s=%s" % (hx(k), hx(v)) for k, v in items),
                            ",".join(raw_dump(c, sort) for c in n.children))


def sort_raw_dump(s):
    """Sort the attribute lists of an implementation raw dump."""
    def fix(m):
        body = m.group(1)
        if not body:
            return "[]"
        return "[" + ",".join(sorted(body.split(","), key=lambda kv: unhx(kv.split("=")[0]))) + "]"
    return re.sub(r"\[([^\]]*)\]", fix, s)


def canon(n, inherited, mode):
    """Canonical dump of an element. mode 'x' resolves the stream: prefix like a namespace-aware parser in
    stream context does; mode 's' keeps prefixed names opaque (the Coq reference parser)."""
    own = n.attrs.get(XMLNS)
    ns = own if own is not None else inherited
    name = n.data
    ens = ns
    if mode == "x" and name.startswith(b"stream:"):
        name, ens = name[7:], NS_ETHERX
    attrs = sorted((k, v) for k, v in n.attrs.items() if k != XMLNS)
    kids = []
    acc = b""
    for c in n.children:
        if c.kind == "T":
            acc += c.data
            continue
        if acc:
            kids.append("T" + hx(acc))
            acc = b""
        kids.append(canon(c, ns, mode))
    if acc:
        kids.append("T" + hx(acc))
    return "E%s{%s}[%s](%s)" % (hx(name), hx(ens), ",".join("%s=%s" % (hx(k), hx(v)) for k, v in attrs), ",".join(kids))


def tree_legal(n, top=True):
    """Is the tree inside the property's quantifier (names are XML names, text / values in the character
    classes, namespaces non-empty)?"""
    if n.kind == "T":
        return legal_chars(n.data, False)
    if n.kind != "E":
        return False
    if not legal_name(n.data) and not (top and n.data == b"stream:error"):
        return False
    for k, v in n.attrs.items():
        if not legal_name(k) or not legal_chars(v, True):
            return False
        if k == XMLNS and v == b"":
            return False
    return all(tree_legal(c, False) for c in n.children)


# ---------------------------------------------------------------------------------------------------
# programs
# ---------------------------------------------------------------------------------------------------
def enc_op(op):
    o = op[0]
    f = [o]
    for i, x in enumerate(op[1:]):
        if isinstance(x, int):
            f.append(str(x))
        elif x is None:
            f.append("~")
        else:
            f.append(hx(x))
    return ",".join(f)


def enc_prog(ops):
    return " ".join(enc_op(o) for o in ops)


def dec_prog(line):
    ops = []
    for tok in line.split():
        f = tok.split(",")
        o = f[0]
        if o in ("N", "P", "D"):
            ops.append((o, int(f[1])))
        elif o in "ntsiofyd":
            ops.append((o, int(f[1]), unhx(f[2])))
        elif o == "a":
            ops.append((o, int(f[1]), unhx(f[2]), unhx(f[3])))
        elif o == "T":
            ops.append((o, int(f[1]), unhx(f[2]), int(f[3])))
        elif o in ("c", "C", "R"):
            ops.append((o, int(f[1]), int(f[2])))
        elif o == "E":
            ops.append((o, int(f[1]), int(f[2]), unhx(f[3]), unhx(f[4]), None if f[5] == "~" else unhx(f[5])))
        elif o == "S":
            ops.append((o, int(f[1]), int(f[2]), None if f[3] == "~" else unhx(f[3])))
        else:
            raise ValueError(tok)
    return ops


SPECIALS = ["<", ">", "&", '"', "'", "]]>", "&amp;", "&#60;", "<!--", "<![CDATA[", "</a>", "/>", "=", " ", "\t", "\n",
            "&lt;", "&quot", "&;", "\"/><x y=\"", "'/><x y='"]
MB = ["\u00e9", "\u00df", "\u03a9", "\u0416", "\u4e2d", "\u20ac", "\ud7ff", "\ue000", "\ufffd", "\U00010000", "\U0001f600",
      "\U0010ffff", "\u0085", "\u00a0", "\u2028", "\u007f"]
NAME_START = "abcdefghijklmnopqrstuvwxyzABCDEFGHIJKLMNOPQRSTUVWXYZ_"
NAME_REST = NAME_START + "0123456789-."
NAME_MB = ["\u00e9", "\u03a9", "\u4e2d", "\u00b7", "\u0301"]
NS_POOL = [NS_CLIENT, b"jabber:server", b"jabber:component:accept", b"urn:x:1", b"urn:x:2", b"http://a/b?c=d&e=f",
           b"urn:\"q\"", b"urn:<x>", b"urn:it's", "urn:\u00e9\u4e2d".encode(), NS_STANZAS, b"jabber:clien", b"jabber:client2", b" ",
           b"jabber:iq:roster"]


class Gen:
    def __init__(self, rng):
        self.rng = rng

    def name(self, maxlen=10):
        r = self.rng
        n = r.choice([1, 1, 2, 3, 4, 5, 8, maxlen])
        s = r.choice(NAME_START) if r.random() < 0.93 else r.choice(NAME_MB[:3])
        while len(s) < n:
            s += r.choice(NAME_REST) if r.random() < 0.93 else r.choice(NAME_MB)
        return s.encode()

    def chars(self, n, attr):
        r = self.rng
        out = []
        while len(out) < n:
            x = r.random()
            if x < 0.25:
                s = r.choice(SPECIALS)
                if attr and s in ("\t", "\n"):
                    s = " "
                out.append(s)
            elif x < 0.40:
                out.append(r.choice(MB))
            elif x < 0.45:
                c = r.choice([0x20, 0x7e, 0xa0, 0x7ff, 0x800, 0xfff, 0x1000, 0xd7ff, 0xe000, 0xfffd, 0x10000, 0x10ffff,
                              r.randrange(0x20, 0xd800), r.randrange(0xe000, 0xfffe), r.randrange(0x10000, 0x110000)])
                out.append(chr(c))
            else:
                out.append(r.choice("abcdefghijklmnopqrstuvwxyz ABC019.,;:!?()[]{}#%*+-/=@^_`|~$\\"))
        return "".join(out).encode()

    def text(self, attr=False, maxlen=40):
        r = self.rng
        n = r.choice([0, 1, 1, 2, 3, 5, 8, 13, maxlen])
        return self.chars(n, attr)

    def ns(self):
        return self.rng.choice(NS_POOL)


class Builder:
    """Emits ops while keeping handle numbers unique."""

    def __init__(self, g):
        self.g = g
        self.ops = []
        self.next = 0

    def new(self):
        h = self.next
        self.next += 1
        self.ops.append(("N", h))
        return h

    def elem(self, name=None):
        h = self.new()
        self.ops.append(("n", h, name if name is not None else self.g.name()))
        return h

    def textnode(self, s):
        h = self.new()
        self.ops.append(("t", h, s))
        return h

    def attr(self, h, k, v):
        std = {XMLNS: "s", b"id": "i", b"to": "o", b"from": "f", b"type": "y"}
        if k in std and self.g.rng.random() < 0.7:
            self.ops.append((std[k], h, v))
        else:
            self.ops.append(("a", h, k, v))

    def random_attrs(self, h, n):
        g = self.g
        keys = []
        for _ in range(n):
            if keys and g.rng.random() < 0.15:
                k = g.rng.choice(keys)          # overwrite
            elif g.rng.random() < 0.3:
                # names whose bucket collides (bucket = xor of (byte & 7) at positions 0,4,8,..)
                k = (g.rng.choice("aiqyAIQY") + g.rng.choice(["", "b", "bc", "bcd"])).encode()
            else:
                k = g.name(6)
            if k == XMLNS:
                continue
            keys.append(k)
            self.attr(h, k, g.text(True, 20))
        return keys

    def tree(self, depth, fanout, p_ns=0.3, p_text=0.4, budget=None):
        """Random element subtree; returns its handle. Children are attached in random interleaving with
        attribute sets (some before, some after add_child)."""
        g, r = self.g, self.g.rng
        budget = budget if budget is not None else [120]
        h = self.elem()
        budget[0] -= 1
        late = []
        if r.random() < p_ns:
            if r.random() < 0.5:
                self.attr(h, XMLNS, g.ns())
            else:
                late.append((XMLNS, g.ns()))
        na = r.choice([0, 0, 1, 1, 2, 3, 5])
        self.random_attrs(h, na)
        nch = 0 if depth <= 0 or budget[0] <= 0 else r.randrange(0, fanout + 1)
        for _ in range(nch):
            if budget[0] <= 0:
                break
            if r.random() < p_text:
                c = self.textnode(g.text(False))
                budget[0] -= 1
            else:
                c = self.tree(depth - 1, fanout, p_ns, p_text, budget)
            self.ops.append(("c", h, c))
            if r.random() < 0.1:
                # mutate the child after it has been attached (shared reference)
                self.ops.append(("a", c, g.name(4), g.text(True, 8)))
        for k, v in late:
            self.attr(h, k, v)
        return h


def pred_len(n, ctx):
    """Length of the rendering (independent of attribute order); used only to steer sizes."""
    esc = {60: 4, 62: 4, 38: 5, 34: 6}
    if n.kind == "T":
        return sum(esc.get(c, 1) for c in n.data)
    if n.kind != "E":
        return 0
    L = 1 + len(n.data)
    for k, v in n.attrs.items():
        if k == XMLNS:
            if ctx is None and v == NS_CLIENT:
                continue
            if ctx is not None and ctx[0] is not None and ctx[0] == v:
                continue
        L += 1 + len(k) + 2 + sum(esc.get(c, 1) for c in v) + 1
    if not n.children:
        return L + 2
    L += 1
    for c in n.children:
        L += pred_len(c, (n.attrs.get(XMLNS),))
    return L + 3 + len(n.data)


def gen_cases(chk):
    rng = chk.rng
    thorough = chk.tier == "thorough"
    g = Gen(rng)
    cases = []

    def add(ops, kind):
        cases.append((enc_prog(ops), kind))

    def run_ref(ops):
        ref = Ref()
        for o in ops:
            ref.step(o)
        return ref

    # --- 1. random trees: render, copy, render the copy, mutate the original deep inside, render both again
    for i in range(30000 if thorough else 500):
        b = Builder(g)
        depth = rng.choice([1, 2, 2, 3, 3, 4])
        root = b.tree(depth, rng.choice([1, 2, 3, 4]))
        b.ops += [("D", root), ("P", root)]
        if rng.random() < 0.6:
            cp = b.next
            b.next += 1
            b.ops += [("C", cp, root), ("P", cp), ("D", cp)]
            victim = rng.randrange(0, cp)          # any earlier handle: somewhere in the original tree
            m = rng.random()
            if m < 0.4:
                b.ops.append(("a", victim, g.name(4), g.text(True, 10)))
            elif m < 0.6:
                b.ops.append(("n", victim, g.name()))
            elif m < 0.8:
                b.ops.append(("t", victim, g.text(False)))
            else:
                extra = b.textnode(g.text(False))
                b.ops.append(("c", victim, extra))
            b.ops += [("P", cp), ("P", root)]
            if rng.random() < 0.3:
                cc = b.next
                b.next += 1
                b.ops += [("C", cc, cp), ("P", cc)]
        add(b.ops, "random-tree")
    # --- 2. deep / wide
    for i in range(5000 if thorough else 120):
        b = Builder(g)
        root = b.tree(rng.choice([5, 6, 7, 8]), rng.choice([2, 3, 6]), budget=[rng.choice([40, 150, 400])])
        b.ops += [("P", root), ("D", root)]
        add(b.ops, "deep-wide")
    for depth in (8,):
        b = Builder(g)
        hs = [b.elem() for _ in range(depth + 1)]
        for i in range(depth):
            b.ops.append(("c", hs[i], hs[i + 1]))
            for _ in range(5):
                b.ops.append(("c", hs[i], b.textnode(g.text(False, 5))))
        b.ops.append(("P", hs[0]))
        add(b.ops, "deep-wide")
    # --- 3. sizes steered around the first buffer (1024) and far above it
    targets = list(range(1000, 1101)) if thorough else list(range(1015, 1035)) + [1000, 1100, 1050]
    targets += [2047, 2048, 2049, 4095, 4096, 4097, 5000, 8191, 8192, 8193, 12000, 20000] if thorough else [2048, 4097, 4500, 9000, 15000]
    reps = 12 if thorough else 2
    for target in targets:
        for rep in range(reps):
            b = Builder(g)
            root = b.tree(rng.choice([1, 2, 3]), 3, budget=[25])
            ref = run_ref(b.ops)
            cur = pred_len(ref.slots[root], None)
            if cur >= target - 4:
                continue
            pad = target - cur
            where = rng.choice(["text", "attr", "entity-text", "child"])
            had_kids = bool(ref.slots[root].children)
            if not had_kids:
                pad -= 1 + len(ref.slots[root].data) + 2      # "/>" becomes "></name>"
            if where == "attr" or pad < 8:
                if had_kids or where == "attr":
                    pad = target - cur - (1 + 2 + 2 + 1)       # ' zz=""'
                    if pad >= 0:
                        b.ops.append(("a", root, b"zz", b"v" * pad))
                else:
                    b.ops.append(("c", root, b.textnode(b"p" * max(pad, 0))))
            elif where == "text":
                b.ops.append(("c", root, b.textnode(b"p" * pad)))
            elif where == "entity-text":
                # an entity straddles the end of the first buffer
                k = rng.randrange(0, 6)
                body = b"p" * max(pad - 5 - k, 0) + b"&" + b"q" * k
                body = body[:0] + body
                extra = pad - (len(body) + 4)
                if extra > 0:
                    body = b"p" * extra + body
                b.ops.append(("c", root, b.textnode(body)))
            else:
                ch = b.elem(b"pad")
                inner = pad - (1 + 3 + 1 + 3 + 3)              # <pad>..</pad>
                if inner >= 1:
                    b.ops.append(("c", ch, b.textnode(b"p" * inner)))
                    b.ops.append(("c", root, ch))
                else:
                    b.ops.append(("c", root, b.textnode(b"p" * pad)))
            b.ops.append(("P", root))
            cp = b.next
            b.next += 1
            b.ops += [("C", cp, root), ("P", cp)]
            add(b.ops, "size-%s" % ("near-1024" if target < 1200 else "large"))
    # single text node / single attribute exactly at the boundary, with escapes
    for n in ([1013, 1014, 1015, 1016, 1017, 1018, 1019, 1020] if not thorough else range(1005, 1030)):
        b = Builder(g)
        root = b.elem(b"m")
        b.ops.append(("c", root, b.textnode(b"x" * n + b"<>&\"'")))
        b.ops.append(("P", root))
        add(b.ops, "size-near-1024")
        b = Builder(g)
        root = b.elem(b"m")
        b.ops.append(("a", root, b"k", b"\"" * (n // 6) + b"y" * (n % 6)))
        b.ops.append(("P", root))
        add(b.ops, "size-near-1024")
    # --- 4. many attributes: collisions, overwrites, deletions
    for i in range(10000 if thorough else 200):
        b = Builder(g)
        root = b.elem()
        keys = b.random_attrs(root, rng.choice([6, 10, 16, 30, 40]))
        b.ops.append(("D", root))
        for _ in range(rng.randrange(0, 6)):
            if keys and rng.random() < 0.7:
                k = rng.choice(keys)
            else:
                k = g.name(3)
            b.ops.append(("d", root, k))
            if rng.random() < 0.4:
                b.attr(root, k, g.text(True, 6))
        b.ops += [("D", root), ("P", root)]
        cp = b.next
        b.next += 1
        b.ops += [("C", cp, root), ("D", cp), ("P", cp)]
        add(b.ops, "many-attrs")
    # --- 5. namespaces: nested changes and repeats (exhaustive over 4 choices on a 3-chain + extras)
    choices = [None, NS_CLIENT, b"urn:x:1", b"urn:x:2"]
    for a in choices:
        for bb in choices:
            for c in choices:
                b = Builder(g)
                h0, h1, h2 = b.elem(b"a"), b.elem(b"b"), b.elem(b"c")
                h3 = b.elem(b"d")
                for h, v in ((h0, a), (h1, bb), (h2, c)):
                    if v is not None:
                        b.attr(h, XMLNS, v)
                b.ops += [("c", h1, h2), ("c", h0, h1), ("c", h2, h3), ("c", h2, b.textnode(b"t")), ("P", h0), ("D", h0)]
                add(b.ops, "ns-chain")
    for i in range(10000 if thorough else 200):
        b = Builder(g)
        pool = [rng.choice(NS_POOL) for _ in range(rng.choice([1, 2, 3]))] + [NS_CLIENT]
        sv = list(NS_POOL)

        def sub(d):
            h = b.elem()
            if rng.random() < 0.7:
                b.attr(h, XMLNS, rng.choice(pool))
            for _ in range(rng.randrange(0, 3) if d > 0 else 0):
                b.ops.append(("c", h, sub(d - 1)))
            if rng.random() < 0.2:
                b.attr(h, XMLNS, rng.choice(pool + sv))        # change after the children are attached
            return h
        root = sub(rng.choice([2, 3, 4]))
        b.ops += [("P", root), ("D", root)]
        add(b.ops, "ns-nest")
    # --- 5b. rendering a stanza that is a child of another one (its parent is not part of the output)
    for a in choices:
        for bb in choices:
            b = Builder(g)
            h0, h1, h2 = b.elem(b"a"), b.elem(b"b"), b.elem(b"c")
            for h, v in ((h0, a), (h1, bb), (h2, bb)):
                if v is not None:
                    b.attr(h, XMLNS, v)
            b.ops += [("c", h1, h2), ("c", h0, h1), ("P", h1), ("P", h2), ("P", h0)]
            add(b.ops, "sub-render")
    for i in range(8000 if thorough else 120):
        b = Builder(g)
        root = b.tree(rng.choice([2, 3, 4]), rng.choice([2, 3]), p_ns=0.6)
        ref = run_ref(b.ops)
        inner = [h for h, n in ref.slots.items() if n.parent is not None and n.kind == "E"]
        for h in rng.sample(inner, min(len(inner), 3)):
            b.ops.append(("P", h))
            if rng.random() < 0.3:
                cp = b.next
                b.next += 1
                b.ops += [("C", cp, h), ("P", cp)]
        b.ops.append(("P", root))
        add(b.ops, "sub-render")
    # --- 6. reply / reply_error / error_new
    def stanza(b, with_from=True, with_to=True):
        name = rng.choice([b"message", b"iq", b"presence", g.name()])
        h = b.elem(name)
        if rng.random() < 0.6:
            b.attr(h, XMLNS, rng.choice([NS_CLIENT, NS_CLIENT, b"jabber:server", b"urn:x:1"]))
        if with_to:
            b.attr(h, b"to", g.text(True, 20))
        if with_from:
            b.attr(h, b"from", g.text(True, 20))
        if rng.random() < 0.8:
            b.attr(h, b"id", g.text(True, 12))
        if rng.random() < 0.8:
            b.attr(h, b"type", rng.choice([b"get", b"set", b"chat", b"result", g.text(True, 6)]))
        b.random_attrs(h, rng.choice([0, 0, 1, 3]))
        if rng.random() < 0.7:
            c = b.elem(rng.choice([b"body", b"query", g.name()]))
            if rng.random() < 0.5:
                b.attr(c, XMLNS, g.ns())
            b.ops.append(("c", c, b.textnode(g.text(False))))
            b.ops.append(("c", h, c))
        return h
    combos = [(t, c) for t in ERROR_TYPES for c in STANZA_CONDITIONS]
    rng.shuffle(combos)
    for idx, (ty, cond) in enumerate(combos if thorough else combos[:40] + [(t, STANZA_CONDITIONS[i]) for i, t in enumerate(ERROR_TYPES)]):
        b = Builder(g)
        wf, wt = rng.random() < 0.9, rng.random() < 0.8
        h = stanza(b, wf, wt)
        r1, r2, r3 = b.next, b.next + 1, b.next + 2
        b.next += 3
        txt = rng.choice([None, g.text(False), b"x"])
        b.ops += [("P", h), ("R", r1, h), ("P", r1), ("D", r1), ("E", r2, h, ty, cond, txt), ("P", r2), ("D", r2)]
        # the original is not disturbed, the replies do not change when it changes later
        b.ops += [("f", h, b"changed@later"), ("o", h, b"other@later"), ("P", r1), ("P", r2), ("P", h)]
        b.ops += [("E", r3, h, g.text(True, 5), g.name(), txt), ("P", r3)]
        add(b.ops, "reply")
    for i in range(3000 if thorough else 40):
        b = Builder(g)
        h = stanza(b, rng.random() < 0.5, rng.random() < 0.5)
        r1, r2 = b.next, b.next + 1
        b.next += 2
        b.ops += [("R", r1, h), ("P", r1), ("E", r2, h, rng.choice(ERROR_TYPES), rng.choice(STANZA_CONDITIONS),
                                            rng.choice([None, g.text(False)])), ("P", r2), ("D", r2)]
        # replies to a text node / unnamed node
        t = b.textnode(b"x")
        u = b.new()
        b.ops += [("R", b.next, t), ("R", b.next + 1, u), ("E", b.next + 2, t, b"cancel", b"gone", None)]
        b.next += 3
        add(b.ops, "reply")
    for k in list(range(-1, 26)) + [99]:
        for txt in (None, b"", g.text(False), b"a<b"):
            b = Builder(g)
            h = b.next
            b.next += 1
            b.ops += [("S", h, k, txt), ("P", h), ("D", h)]
            cp = b.next
            b.next += 1
            b.ops += [("C", cp, h), ("P", cp)]
            add(b.ops, "error-new")
    # --- 7. text: adjacency, emptiness, white space, every special
    alphabet = [b"<", b">", b"&", b"\"", b"'", b"a"]
    maxlen = 4 if thorough else 3
    def words(n):
        if n == 0:
            yield b""
            return
        for w in words(n - 1):
            for a in alphabet:
                yield w + a
    for n in range(0, maxlen + 1):
        for w in words(n):
            b = Builder(g)
            root = b.elem(b"e")
            b.ops.append(("a", root, b"v", w))
            b.ops.append(("c", root, b.textnode(w)))
            b.ops.append(("P", root))
            add(b.ops, "escape-exhaustive")
    for i in range(8000 if thorough else 150):
        b = Builder(g)
        root = b.elem()
        for _ in range(rng.randrange(1, 7)):
            x = rng.random()
            if x < 0.25:
                b.ops.append(("c", root, b.textnode(b"")))
            elif x < 0.45:
                b.ops.append(("c", root, b.textnode(rng.choice([b" ", b"\n", b"\t", b"  \n "]))))
            elif x < 0.8:
                b.ops.append(("c", root, b.textnode(g.text(False))))
            else:
                c = b.elem()
                if rng.random() < 0.5:
                    b.ops.append(("c", c, b.textnode(b"")))
                b.ops.append(("c", root, c))
        b.ops += [("P", root), ("D", root)]
        add(b.ops, "text-adjacent")
    for c in range(1, 256):
        b = Builder(g)
        root = b.elem(b"e")
        b.ops.append(("a", root, b"v", bytes([c])))
        b.ops.append(("c", root, b.textnode(bytes([c, c]))))
        b.ops.append(("P", root))
        add(b.ops, "every-byte")
    # --- 7b. overwriting existing values: shorter / equal length / longer / empty, several times in a row, through
    #         every setter (set_text, set_text_with_size, set_name, set_attribute and the set_ns/id/to/from/type
    #         shorthands), before and after the node is attached, rendered and dumped after every step
    def resized(old, how):
        n = len(old)
        if how == "empty":
            return b""
        if how == "shorter":
            m = rng.randrange(0, n) if n else 0
        elif how == "shorter1":
            m = max(n - 1, 0)
        elif how == "equal":
            m = n
        elif how == "longer1":
            m = n + 1
        else:
            m = n + rng.randrange(1, 40)
        base = rng.choice([b"second", b"xy", b"0123456789" * 5, g.chars(m + 1, True)])
        out = (base * (m // max(len(base), 1) + 1))[:m]
        try:
            out.decode("utf-8")
        except UnicodeDecodeError:
            out = (b"abcdefghij" * (m // 10 + 1))[:m]
        return out
    hows = ["empty", "shorter", "shorter1", "equal", "longer1", "longer"]
    firsts = [b"first and rather long text", b"a", b"", b"0123456789abcdef" * 8]
    for first in firsts:
        for h1 in hows:
            for h2 in (["shorter", "equal", "longer"] if not thorough else hows):
                for setter2 in ("t", "T"):
                    b = Builder(g)
                    root = b.elem(b"m")
                    t = b.textnode(first) if rng.random() < 0.7 else None
                    if t is None:
                        t = b.new()
                        b.ops.append(("T", t, first + b"junk", len(first)))
                    cur = first
                    attached = rng.random() < 0.5
                    if attached:
                        b.ops.append(("c", root, t))
                    b.ops += [("D", t), ("P", root)]
                    for how, setter in ((h1, rng.choice("tT")), (h2, setter2)):
                        cur = resized(cur, how)
                        if setter == "t":
                            b.ops.append(("t", t, cur))
                        else:
                            b.ops.append(("T", t, cur + rng.choice([b"", b"tail", b"<&>"]), len(cur)))
                        b.ops += [("D", t), ("P", t), ("P", root)]
                    if not attached:
                        b.ops += [("c", root, t), ("P", root), ("D", root)]
                    cp = b.next
                    b.next += 1
                    b.ops += [("C", cp, root), ("P", cp)]
                    add(b.ops, "overwrite-text")
    for i in range(6000 if thorough else 400):
        b = Builder(g)
        root = b.elem(g.name())
        ch = b.elem(g.name())
        t = b.textnode(g.text(False))
        b.ops += [("c", ch, t), ("c", root, ch)]
        vals = {}
        for _ in range(rng.randrange(3, 12)):
            tgt = rng.choice([root, ch])
            x = rng.random()
            how = rng.choice(hows)
            if x < 0.25:
                key = ("text", t)
                new = resized(vals.get(key, b"some text to start with"), how)
                if not legal_chars(new, False):
                    new = b"x" * len(new)
                vals[key] = new
                if rng.random() < 0.5:
                    b.ops.append(("t", t, new))
                else:
                    b.ops.append(("T", t, new + rng.choice([b"", b"zzz"]), len(new)))
            elif x < 0.45:
                key = ("name", tgt)
                new = resized(vals.get(key, b"name"), how)
                new = bytes(c if chr(c) in NAME_START else ord("n") for c in new) or b"n"
                vals[key] = new
                b.ops.append(("n", tgt, new))
            elif x < 0.8:
                k = rng.choice([b"k", b"key2", b"id", b"to", b"from", b"type", b"a", b"i"])
                key = ("attr", tgt, k)
                new = resized(vals.get(key, b"a value of some length"), how)
                vals[key] = new
                b.attr(tgt, k, new)
            else:
                key = ("attr", tgt, XMLNS)
                new = resized(vals.get(key, b"urn:some:namespace"), how) or b"u"
                vals[key] = new
                b.attr(tgt, XMLNS, new)
            if rng.random() < 0.6:
                b.ops.append(("P", root))
            if rng.random() < 0.2:
                b.ops.append(("D", root))
        b.ops += [("P", root), ("D", root)]
        cp = b.next
        b.next += 1
        b.ops += [("C", cp, root), ("P", cp)]
        add(b.ops, "overwrite-any")
    # --- 8. API misuse (the error returns; nothing may crash)
    for i in range(5000 if thorough else 60):
        b = Builder(g)
        hs = [b.new() for _ in range(rng.randrange(1, 5))]
        for _ in range(rng.randrange(3, 14)):
            h = rng.choice(hs)
            x = rng.random()
            if x < 0.2:
                b.ops.append(("n", h, g.name()))
            elif x < 0.3:
                b.ops.append(("t", h, g.text(False, 6)))
            elif x < 0.4:
                v = g.text(False, 6)
                b.ops.append(("T", h, v + b"rest", len(v)))
            elif x < 0.55:
                b.ops.append(("a", h, g.name(3), g.text(True, 4)))
            elif x < 0.65:
                b.ops.append(("d", h, g.name(3)))
            elif x < 0.8:
                b.ops.append(("c", h, rng.choice(hs)))
            elif x < 0.9:
                b.ops.append(("P", h))
            elif x < 0.95:
                b.ops.append(("C", b.next, h))
                hs.append(b.next)
                b.next += 1
            else:
                b.ops.append(("R", b.next, h))
                hs.append(b.next)
                b.next += 1
        for h in hs:
            b.ops += [("P", h), ("D", h)]
        add(b.ops, "misuse")
    return cases


# ---------------------------------------------------------------------------------------------------
# evaluation of one case
# ---------------------------------------------------------------------------------------------------
def split_line(line):
    if line is None or line.startswith("CRASH"):
        return None, None
    main, _, aux = line.partition(" #")
    return main.split(" "), aux.split()


def evaluate(case, impl_line, model_line, subrender_ok=True):
    """Returns (oracle failures [str], correspondence disagreements [(stream, impl, model)], stats dict)."""
    fails, dis, stats = [], [], {"P": 0, "legal": 0, "bytes": 0, "retry": 0}
    ops = dec_prog(case)
    if impl_line is None or impl_line.startswith("CRASH"):
        return ["implementation crashed: %s" % impl_line], dis, stats
    itoks, iaux = split_line(impl_line)
    mtoks, maux = (None, None)
    if model_line is not None:
        if model_line.startswith("CRASH"):
            dis.append(("model-run", impl_line[:200], model_line[:200]))
        else:
            mtoks, maux = split_line(model_line)
            if mtoks != itoks:
                # first differing token
                k = next((i for i, (a, b) in enumerate(zip(itoks, mtoks)) if a != b), min(len(itoks), len(mtoks)))
                dis.append(("api-trace op %d %s" % (k, enc_op(ops[k]) if k < len(ops) else "?"),
                            itoks[k] if k < len(itoks) else "-", mtoks[k] if k < len(mtoks) else "-"))
    if len(itoks) != len(ops):
        return ["driver produced %d tokens for %d ops" % (len(itoks), len(ops))], dis, stats
    ref = Ref()
    li = xi = si = 0
    last_render = {}
    for k, op in enumerate(ops):
        exp = ref.step(op)
        tok = itoks[k]
        where = "op %d (%s)" % (k, enc_op(op)[:60])
        if exp not in ("P", "D"):
            if tok != exp:
                fails.append("%s: returned %s, the API contract says %s" % (where, tok, exp))
            continue
        n = ref.slots[op[1]]
        if exp == "D":
            if not tok.startswith("D:") or sort_raw_dump(tok[2:]) != raw_dump(n, True):
                fails.append("%s: accessors show %s, the program built %s" % (where, tok[:300], raw_dump(n, True)[:300]))
            continue
        # ---- P
        stats["P"] += 1
        f = tok.split(":")
        if len(f) != 5 or f[0] != "P":
            fails.append("%s: malformed result %s" % (where, tok[:80]))
            continue
        rc, rep, slen, text = int(f[1]), int(f[2]), int(f[3]), f[4]
        want_rc = 0 if renders_ok(n) else -2
        if rc != want_rc:
            fails.append("%s: xmpp_stanza_to_text returned %d, expected %d" % (where, rc, want_rc))
            continue
        if rc != 0:
            if rep != 0 or text != "-":
                fails.append("%s: failure must give NULL / 0, got len %d" % (where, rep))
            continue
        data = unhx(text)
        stats["bytes"] += len(data)
        if len(data) >= 1024:
            stats["retry"] += 1
        if rep != slen or slen != len(data):
            fails.append("%s: reported length %d, strlen %d" % (where, rep, slen))
        key = id(n)
        sig = (n.stamp, n.parent.stamp if n.parent is not None else -1)
        if key in last_render and last_render[key][0] == sig and last_render[key][1] != text:
            fails.append("%s: the same unmodified object rendered differently (a later mutation of another object "
                         "leaked into it): %s then %s" % (where, last_render[key][1][:200], text[:200]))
        last_render[key] = (sig, text)
        if n.kind != "E":
            continue
        L = iaux[li] if li < len(iaux) else "L:?"
        X = iaux[li + 1] if li + 1 < len(iaux) else "X:?"
        li += 2
        S = None
        if maux is not None:
            S = maux[si] if si < len(maux) else "S:?"
            si += 1
        if n.parent is not None and not subrender_ok:
            continue
        if not tree_legal(n):
            continue
        stats["legal"] += 1
        want_x = canon(n, NS_CLIENT, "x")
        want_s = canon(n, NS_CLIENT, "s")
        if X != "X:" + want_x:
            fails.append("%s: libxml2 reads the rendered text %s as %s, the program built %s" % (where, text[:300], X[:400], want_x[:400]))
        if b":" not in n.data:
            if L != "L:" + want_s:
                fails.append("%s: xmpp_stanza_new_from_string reads the rendered text %s as %s, the program built %s"
                             % (where, text[:300], L[:400], want_s[:400]))
        if S is not None and S != "S:" + want_s:
            dis.append(("spec_parse at " + where, want_s[:300], S[:300]))
    return fails, dis, stats


# ---------------------------------------------------------------------------------------------------
def build_impl_driver():
    return vlib.build_c_driver("c09", [os.path.join(vlib.ROOT, "harness", "c", "c09_driver.c")],
                               extra_cflags=("-I/usr/include/libxml2",), extra_ldflags=("-lxml2",))


def load_corpus():
    p = os.path.join(vlib.ROOT, "corpus", "C09.txt")
    if not os.path.exists(p):
        return []
    return [l.strip() for l in open(p) if l.strip() and not l.startswith("#")]


def shrink_case(case, exe, mexe, want_fail):
    """Delta-debug the op list of a failing program (keeps it failing in the same way)."""
    ops = case.split(" ")

    def still(cand):
        line = " ".join(cand)
        try:
            impl = vlib.run_lines(exe, [line])[0]
            model = vlib.run_lines(mexe, [line])[0] if mexe else None
            f, d, _ = evaluate(line, impl, model)
        except Exception:
            return False
        return bool(f) if want_fail == "oracle" else bool(d)
    try:
        return " ".join(vlib.shrink_list(ops, still, max_steps=150))
    except Exception:
        return case


def run(chk):
    chk.rule = ("programs of stanza API calls: random trees (depth<=8, fan-out<=6) rendered / copied / mutated / re-rendered; "
                "render sizes steered to every length around the 1024-byte first buffer and far above it; many attributes with "
                "bucket collisions, overwrites and deletions; nested namespace changes and repeats (exhaustive 4^3 chain); rendering of stanzas that are children of other stanzas (exhaustive 4^2 + random); "
                "reply / reply_error (error types x RFC 6120 conditions, with/without text, with/without from/to) / "
                "xmpp_error_new for every enumerator; exhaustive strings over {< > & \" ' a} as text and attribute; every byte "
                "1..255; adjacent / empty / white-space text; every setter applied again to a value that exists already (shorter / equal / longer / empty, set_text and set_text_with_size, set_name, set_attribute and shorthands, set_ns), rendered after every step; API misuse. non-trivial = distinct program with at least one "
                "successful render of an element")
    chk.assumptions = [
        "libxml2 2.9.14 (xmlReadMemory, namespace-aware, stream wrapper element) is the independent reader of the oracle",
        "the oracle's reference interpreter of the API (checks/C09.py: Ref) states what tree a program builds",
        "programs build trees: the driver refuses xmpp_stanza_add_child of a node that already has a parent or is the root of the target's tree",
        "rendered sizes stay below INT_MAX (the model does not reduce int results)",
        "re-read equality is demanded only inside the property's quantifier (XML names without prefix, text without CR, attribute values without TAB/CR/LF, non-empty namespaces); a stanza rendered while it is the child of another one must keep its own xmlns (one it merely inherits is not demanded)",
    ]
    chk.prove()
    exe = build_impl_driver()
    cases = gen_cases(chk)
    corpus = load_corpus()
    lines = corpus + [c for c, _ in cases]
    kinds = ["corpus"] * len(corpus) + [k for _, k in cases]
    impl = vlib.run_parallel(exe, lines, timeout=30, batch=64, per_case_timeout=5)
    model = None
    mexe = None
    try:
        mexe = vlib.build_ocaml_model("C09")
        model = vlib.run_parallel(mexe, lines, timeout=900)
    except vlib.BuildError as e:
        chk.broken.append({"kind": "extract", "name": "Extract_C09", "detail": str(e)[:500]})
    tot = {"P": 0, "legal": 0, "bytes": 0, "retry": 0}
    shrunk = 0
    for i, line in enumerate(lines):
        chk.evaluations += 1
        chk.count(kinds[i])
        try:
            fails, dis, stats = evaluate(line, impl[i], model[i] if model else None)
        except Exception as e:  # malformed driver output is a finding, not a crash of the check
            fails, dis, stats = ["cannot evaluate: %r (impl %s)" % (e, str(impl[i])[:200])], [], {}
        for k in tot:
            tot[k] += stats.get(k, 0)
        if stats.get("legal"):
            chk.nontrivial.add(line)
        if model is not None:
            chk.traces_validated += 1
        if fails:
            case = line
            if shrunk < 3:
                shrunk += 1
                case = shrink_case(line, exe, mexe, "oracle")
                try:
                    f2, _, _ = evaluate(case, vlib.run_lines(exe, [case])[0], vlib.run_lines(mexe, [case])[0] if mexe else None)
                    if f2:
                        fails = f2
                    else:
                        case = line
                except Exception:
                    case = line
            chk.fail(case, "; ".join(fails)[:1500], stream=kinds[i])
        for (stream, a, b) in dis:
            case = line
            if shrunk < 3 and not fails:
                shrunk += 1
                case = shrink_case(line, exe, mexe, "dis")
            chk.disagree(kinds[i] + ": " + stream, case, a, b)
        if i % 401 == 0:
            chk.sample({"input": line[:400], "impl": str(impl[i])[:400], "model": str(model[i])[:400] if model else None})
    chk.extra["renders"] = tot["P"]
    chk.extra["renders_checked_by_reread"] = tot["legal"]
    chk.extra["rendered_bytes"] = tot["bytes"]
    chk.extra["renders_needing_second_pass"] = tot["retry"]
    chk.extra["crashes"] = sum(1 for o in impl if o and o.startswith("CRASH"))


def replay(path):
    rec = json.load(open(path))
    f = rec.get("failure") or (rec.get("disagreements") or [{}])[0]
    case = f.get("case")
    if not case:
        print("replay file names no concrete input: %s" % json.dumps(rec.get("broken_obligations"))[:800])
        return 1
    exe = build_impl_driver()
    impl = vlib.run_lines(exe, [case])[0]
    try:
        model = vlib.run_lines(vlib.build_ocaml_model("C09"), [case])[0]
    except vlib.BuildError:
        model = None
    fails, dis, _ = evaluate(case, impl, model)
    print("input   : %s\nimpl    : %s\nmodel   : %s" % (case, impl, model if model is not None else "(model unavailable)"))
    for x in fails:
        print("property: FAILS - %s" % x)
    for (s, a, b) in dis:
        print("correspondence: %s impl=%s model=%s" % (s, a[:300], b[:300]))
    if not fails:
        print("property: holds on this input")
    return 1 if fails else 0
