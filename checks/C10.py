"""C10 - Inbound XML is delivered identically however it is chunked.

Layers (see DESIGN.md 4/C10):
  1. theorems over ParserLayerModel (libstrophe's layer above expat, as a machine over SAX events)
  2. correspondence: the real parser_new/parser_feed/parser_reset (harness/c/c10_driver.c, mode L) against the
     extracted model run on the very SAX events a twin expat parser received for the same chunks (mode S)
  3. property oracle on the implementation, independent of the model:
       a. the event log of every partition equals the log of the reference partition   (chunk invariance)
       b. for input libxml2 accepts, the log equals an independent Python tree builder run on libxml2's SAX2 events
       c. what libstrophe delivered is the tree builder's reading of what expat delivered to it
       d. restarts: log(doc, resets) = concatenation of the logs of the pieces on new parsers   (clean slate)
     and the ASSUMPTION of the theorems is tested: a plain expat with reparse deferral off reports the same events
     (character data joined) for every partition, and the same as libxml2.

A case is "<dochex> <cuts> <resets> <base>": document, partition, restarts (positions or @<hexname> = restart when
a top-level stanza of that name was delivered), and the reference partition it is compared with.
"""
import itertools
import json
import os
import re

import vlib

DRV = os.path.join(vlib.ROOT, "harness", "c", "c10_driver.c")
SEP = "1f"
KNOWN_DEFERRAL = "C10-expat-reparse-deferral"


KNOWN_DEFERRAL_ENTRY = {
    "property": "C10", "id": KNOWN_DEFERRAL, "status": "known",
    "class": "a partition in which an XML token is split over three or more reads (two consecutive feeds end inside the same "
             "token) with libexpat >= 2.6.0 or a distribution back-port of its reparse deferral (Debian 2.5.0-1+deb12u3): "
             "checks/C10.py classifies a failing run into this class iff libstrophe delivered exactly what expat delivered to "
             "it, and the same chunks through an expat with XML_SetReparseDeferralEnabled(p, XML_FALSE) give the reference events",
    "what": "expat's reparse deferral makes delivery depend on the partition: events of a token split over small reads are "
            "held back until later bytes arrive (a final </stream:stream> or the last stanza may never be delivered), and a "
            "stanza that requests a restart (<proceed/>, <success/>) can be delivered only after bytes of the new stream were "
            "fed to the old parser, which then fails with a parse error; src/parser_expat.c never calls "
            "XML_SetReparseDeferralEnabled(parser->expat, XML_FALSE)",
    "witness": "%s 42,45 - -" % b"<stream:stream xmlns:stream='S'></stream:stream>".hex(),
}


def build_driver():
    return vlib.build_c_driver("c10", [DRV], extra_cflags=["-I/usr/include/libxml2"], extra_ldflags=["-lxml2", "-ldl"])


# --------------------------------------------------------------------------------------------------
# token helpers
# --------------------------------------------------------------------------------------------------
E_RE = re.compile(r"(^| )E\d+")


def norm(log):
    """drop the feed number of E<k> (it depends on the partition by construction)"""
    return E_RE.sub(r"\1E", log)


def norm_ev(log):
    """event logs of a bare parser: like norm(), and the character data reported immediately before an error is dropped
    (how much of the text in front of an ill-formed token has already been reported depends on where the reads were cut;
    no stanza is delivered from it, so it is outside the property)"""
    toks = norm(log).split(" ")
    if toks and toks[-1] == "E":
        k = len(toks) - 1
        while k > 0 and (toks[k - 1].startswith("c(") or toks[k - 1] == "/"):
            k -= 1
        toks = toks[:k] + ["E"]
    return " ".join(toks)


def split_results(line):
    if line is None:
        return None
    parts = line.split(" ; ")
    if parts and parts[-1].endswith(" NOAPI"):
        parts[-1] = parts[-1][:-6]
    first = parts[0]
    return [first if p == "=" else p for p in parts]


def hx(b):
    return b.hex() if b else "-"


def local_of(qhex):
    i = find_sep(qhex)
    return qhex if i < 0 else (qhex[i + 2:] or "-")


def ns_of(qhex):
    i = find_sep(qhex)
    return None if i < 0 else (qhex[:i] or "-")


def find_sep(qhex):
    if qhex == "-":
        return -1
    for i in range(0, len(qhex), 2):
        if qhex[i:i + 2] == SEP:
            return i
    return -1


def hexkey(h):
    return b"" if h == "-" else bytes.fromhex(h)


def parse_attrs(s):
    if not s:
        return []
    out = []
    for kv in s.split(","):
        k, v = kv.split("=")
        out.append((k, v))
    return out


def fmt_attrs(pairs):
    return ",".join("%s=%s" % kv for kv in sorted(pairs, key=lambda kv: hexkey(kv[0])))


def pybuild(sax_log):
    """Independent tree builder: SAX tokens (mode S/D/X) -> the log the property demands in mode L format.
    Attributes: names lose their namespace, an unqualified attribute is never shadowed by a qualified one,
    the element's namespace becomes xmlns; consecutive character data joins into one text node; character data
    directly inside the stream element is not part of any stanza."""
    if sax_log in ("-", "", None):
        return "-"
    out = []
    depth = 0
    stack = []
    for tok in sax_log.split(" "):
        c = tok[0]
        if tok == "R":
            out.append("R")
            depth, stack = 0, []
        elif tok == "/" or c == "E":
            out.append(tok)
        elif c == "s":
            q, _, at = tok[2:-1].partition(";")
            attrs = parse_attrs(at)
            if depth == 0:
                out.append("O(%s;%s)" % (local_of(q), fmt_attrs(attrs)))
            else:
                d = {}
                for k, v in attrs:
                    if find_sep(k) >= 0:
                        d[local_of(k)] = v
                for k, v in attrs:
                    if find_sep(k) < 0:
                        d[k] = v
                ns = ns_of(q)
                if ns is not None:
                    d["786d6c6e73"] = ns
                node = [local_of(q), d, []]
                if stack:
                    stack[-1][2].append(node)
                stack.append(node)
            depth += 1
        elif c == "e":
            depth -= 1
            if depth == 0:
                out.append("C(%s)" % tok[2:-1])
            else:
                node = stack.pop()
                if not stack:
                    out.append("Z(%s)" % render(node))
        elif c == "c":
            if depth >= 2 and stack:
                kids = stack[-1][2]
                t = tok[2:-1]
                t = "" if t == "-" else t
                if kids and isinstance(kids[-1], str):
                    kids[-1] += t
                else:
                    kids.append(t)
        else:
            out.append("?" + tok)
    return " ".join(out) if out else "-"


def render(node):
    if isinstance(node, str):
        return "t(%s)" % (node or "-")
    return "e(%s|%s|%s)" % (node[0], fmt_attrs(node[1].items()), "".join(render(k) for k in node[2]))


def is_token_prefix(a, b):
    """log a (without a failure) is a proper prefix of log b, token-wise"""
    if a == "-":
        return b != "-"
    ta, tb = a.split(" "), b.split(" ")
    return len(ta) < len(tb) and tb[:len(ta)] == ta


def strip_timing(log):
    r = " ".join(t for t in log.split(" ") if t != "/")
    return r or "-"


# --------------------------------------------------------------------------------------------------
# document generators
# --------------------------------------------------------------------------------------------------
NAMES = ["message", "iq", "presence", "body", "x", "query", "item", "a", "b", "show", "thread", "e-1", "_u", "n.m"]
UTF8 = ["é", "€", "\U0001f600", "Ж", "中"]


LATIN1 = ["\xe9", "\xfc\xdf", "\xa0", "\xff", "\x80", "\x85", "\xd7\xf7", "\xc3\xa9"]     # incl. C1 controls and a byte pair that is valid UTF-8


class DocGen:
    def __init__(self, rng, small=False, hi=None, prolog=None, codec="utf-8"):
        """hi: the non-ASCII characters used in text and attribute values; prolog: XML declaration put in front of every
        stream (None: the generator's own choice); codec: how the document is turned into bytes"""
        self.rng = rng
        self.small = small
        self.hi = hi if hi is not None else UTF8
        self.prolog = prolog
        self.codec = codec

    def name(self):
        return self.rng.choice(["m", "i", "b", "x", "q"]) if self.small else self.rng.choice(NAMES)

    def text(self, long=False):
        r = self.rng
        parts = []
        n = r.randint(1, 3 if self.small else 6)
        for _ in range(n):
            k = r.randrange(12)
            if k == 0:
                parts.append("&lt;")
            elif k == 1:
                parts.append("&amp;")
            elif k == 2:
                parts.append(r.choice(["&#x41;", "&#65;", "&gt;", "&quot;", "&apos;", "&#x20AC;", "&#128512;"]))
            elif k == 3:
                parts.append("<![CDATA[%s]]>" % r.choice(["<x>", "a&b", "]]", "", "]", " ", "<![CDATA["]))
            elif k == 4:
                parts.append(r.choice(self.hi))
            elif k == 5:
                parts.append(r.choice(["\n", "\r\n", "\t", " ", "]]", "]", ">"]))
            elif k == 6 and not self.small:
                parts.append(r.choice(["<!--c-->", "<?pi d?>", "<!-- - - -->"]))
            else:
                parts.append("".join(r.choice("abcxyz019 .,") for _ in range(r.randint(1, 3 if self.small else 12))))
        if long:
            parts.append("".join(r.choice("abcdefgh \n") for _ in range(r.choice([1021, 1024, 1100, 2500, 4100]))))
        # "]]>" must not appear literally in character data (XML 1.0, 2.4): when adjacent pieces would form it,
        # the '>' is written as a reference (the CDATA pieces themselves end with "]]>" legitimately)
        out = ""
        for p in parts:
            if not p.startswith("<![CDATA[") and not p.startswith("<!--") and not p.startswith("<?"):
                tail = out[-2:] if not out.endswith("]]>") else ""
                joined = tail + p
                while "]]>" in joined:
                    i = joined.index("]]>") + 2 - len(tail)
                    p = p[:i] + "&gt;" + p[i + 1:]
                    joined = tail + p
            out += p
        return out

    def attval(self):
        r = self.rng
        k = r.randrange(8)
        if k == 0:
            return r.choice(["&lt;&amp;", "&#x41;b", "a&quot;b", "&#65;", "x&#10;y", "a\tb", "a\nb"])
        if k == 1:
            return r.choice(self.hi)
        if k == 2:
            return ""
        return "".join(r.choice("abcxyz@/.019") for _ in range(r.randint(1, 3 if self.small else 10)))

    def quote(self, v):
        q = self.rng.choice("'\"")
        return q + v.replace(q, "&quot;" if q == '"' else "&apos;") + q

    def element(self, depth, prefixes, collide=False):
        """prefixes: list of prefixes in scope (bound)."""
        r = self.rng
        decls = []
        prefixes = list(prefixes)
        nm = self.name()
        k = r.randrange(10)
        if k == 0:
            p = r.choice(["p", "q"])
            decls.append("xmlns:%s=%s" % (p, self.quote("urn:%s%d" % (p, r.randrange(3)))))
            prefixes.append(p)
            if r.random() < 0.5:
                nm = p + ":" + nm
        elif k == 1:
            decls.append("xmlns=%s" % self.quote(r.choice(["jabber:x:oob", "u:d", "", "jabber:client"])))
        elif k == 2 and prefixes:
            nm = r.choice(prefixes) + ":" + nm
        attrs = []
        used = set()
        for _ in range(r.choice([0, 0, 1, 1, 2, 3] if not self.small else [0, 0, 1, 2])):
            an = r.choice(["to", "from", "id", "type", "a", "xml:lang"])
            if prefixes and r.random() < 0.25:
                an = r.choice(prefixes) + ":" + r.choice(["to", "id", "z", "xmlns"])
            if an in used:
                continue
            used.add(an)
            attrs.append("%s=%s" % (an, self.quote(self.attval())))
        if collide and prefixes:
            # an attribute with a namespace and one without, same local name (both orders)
            p = r.choice(prefixes)
            pair = ["%s:to=%s" % (p, self.quote("evil")), "to=%s" % self.quote("good")]
            if r.random() < 0.5:
                pair.reverse()
            attrs = [a for a in attrs if not a.startswith("to=") and not a.startswith(p + ":to=")] + pair
        allat = decls + attrs
        r.shuffle(allat)
        # two attributes of distinct prefixes bound to the same URI would be a duplicate: prefixes here always
        # carry distinct URIs per prefix letter family, and at most one attribute per (prefix, name) is generated
        ws = r.choice([" ", " ", "  ", "\n "])
        head = "<" + nm + "".join(ws + a for a in allat)
        if r.random() < 0.25:
            return head + r.choice(["/>", " />"])
        body = []
        nkids = r.choice([0, 1, 1, 2, 3]) if depth < (2 if self.small else 4) else r.choice([0, 1])
        for _ in range(nkids):
            if r.random() < 0.5 and depth < (2 if self.small else 5):
                body.append(self.element(depth + 1, prefixes))
            else:
                body.append(self.text())
        return head + ">" + "".join(body) + "</" + nm + r.choice(["", "", " "]) + ">"

    def stream(self, nstanzas=None, closed=None, long_text=False, collide=False):
        r = self.rng
        if self.small:
            hdr = r.choice(["<s:s xmlns:s='S' xmlns='c' id='1'>", "<s xmlns='c'>", "<s>", "<s:s xmlns:s='S' v=\"1\">"])
            close = "</" + hdr[1:hdr.index(" ") if " " in hdr else hdr.index(">")] + ">"
            prefixes = ["s"] if hdr.startswith("<s:s") else []
        else:
            at = ["xmlns:stream='http://etherx.jabber.org/streams'", "xmlns='jabber:client'",
                  "id=%s" % self.quote(self.attval()), "from='example.org'", "version='1.0'", "xml:lang='en'"]
            r.shuffle(at)
            at = [a for a in at if a.startswith("xmlns:stream") or r.random() < 0.8]
            hdr = r.choice(["", "<?xml version='1.0'?>", "<?xml version=\"1.0\" encoding=\"UTF-8\"?>\n"]) + \
                "<stream:stream " + " ".join(at) + ">"
            close = "</stream:stream>"
            prefixes = ["stream"]
        n = nstanzas if nstanzas is not None else r.choice([1, 2, 3] if self.small else [1, 2, 3, 5, 8])
        body = []
        for i in range(n):
            if r.random() < 0.4:
                body.append(r.choice([" ", "\n", "\r\n", "  "]))
            st = self.element(1, prefixes, collide=collide and i == 0)
            if long_text and i == 0:
                st = "<message><body>%s</body><x>%s</x></message>" % (self.text(long=True), self.text(long=True))
            body.append(st)
        if closed is None:
            closed = r.random() < 0.7
        if self.prolog is not None:
            if hdr.startswith("<?xml"):
                hdr = hdr[hdr.index("?>") + 2:].lstrip("\n")
            hdr = self.prolog + hdr
        return (hdr + "".join(body) + (close if closed else "")).encode(self.codec)


def mutate(rng, doc):
    """malformed documents: one edit of a well-formed one"""
    b = bytearray(doc)
    k = rng.randrange(13)
    kind = "mal-"
    if k == 0 and len(b) > 2:
        del b[rng.randrange(len(b))]
        kind += "delete"
    elif k == 1:
        b[rng.randrange(len(b))] = rng.choice(b"<>&'\"/=;#! ")
        kind += "punct"
    elif k == 2:
        b.insert(rng.randrange(len(b) + 1), 0)
        kind += "nul"
    elif k == 3:
        pos = rng.randrange(len(b) + 1)
        b[pos:pos] = rng.choice([b"\xff", b"\xc0\x80", b"\xed\xa0\x80", b"\xe2\x82", b"\xf8\x88\x80\x80\x80", b"\x80"])
        kind += "bad-utf8"
    elif k == 4:
        b = b[:rng.randrange(1, len(b))]
        kind += "truncate"
    elif k == 5:
        m = [x for x in re.finditer(rb"</([a-z:]+)", bytes(b))]
        if m:
            x = rng.choice(m)
            b[x.start(1):x.end(1)] = b"zz"
        kind += "mismatch"
    elif k == 6:
        pos = bytes(b).find(b">") + 1
        pos = rng.choice([pos, max(pos, len(b) // 2)])
        b[pos:pos] = rng.choice([b"&bogus;", b"&#0;", b"&#xD800;", b"&#x110000;", b"&;", b"&#;", b"& ", b"&lt"])
        kind += "bad-entity"
    elif k == 7:
        b += rng.choice([b"<x/>", b"junk", b"<s>", b"</s>", b"&", b"\x00"])
        kind += "junk-after"
    elif k == 8:
        pos = bytes(b).find(b">") + 1
        b[pos:pos] = rng.choice([b"<a b='1' b='2'/>", b"<u:a/>", b"<a u:b='1'/>", b"<a b=1/>", b"<a b='<'/>", b"<1a/>",
                                 b"<a xmlns:p='u' xmlns:q='u' p:b='1' q:b='2'/>", b"<a><b></a></b>", b"<?xml version='1.0'?>",
                                 b"<!DOCTYPE x>", b"<a xml:lang=\"\x01\"/>", b"<a>]]></a>", b"<![CDATA[x]]"])
        kind += "bad-construct"
    elif k == 9:
        b[:0] = rng.choice([b" ", b"\xef\xbb\xbf", b"<!DOCTYPE s [<!ENTITY e 'E&#x26;lt;'><!ATTLIST m d CDATA 'dflt'>]>",
                            b"<?xml version='1.1'?>", b"<?xml version='1.0' encoding='ISO-8859-1'?>", b"x"])
        kind += "prolog"
    elif k == 10:
        pos = rng.randrange(len(b))
        b[pos] ^= 1 << rng.randrange(8)
        kind += "bitflip"
    elif k == 11:
        pos = rng.randrange(len(b) + 1)
        b[pos:pos] = b[max(0, pos - rng.randrange(1, 20)):pos]
        kind += "duplicate-span"
    else:
        pos = rng.randrange(len(b) + 1)
        b[pos:pos] = bytes(rng.randrange(1, 32) for _ in range(rng.randrange(1, 3)))
        kind += "control"
    return bytes(b), kind


def kcuts(n, k):
    return itertools.combinations(range(1, n), k)


def cutstr(c):
    return ",".join(map(str, c)) if c else "-"


def random_partition(rng, n):
    if n < 2:
        return "-"
    style = rng.randrange(4)
    if style == 0:
        k = rng.randint(1, min(n - 1, 6))
    elif style == 1:
        k = rng.randint(1, max(1, min(n - 1, n // 3)))
    elif style == 2:
        # many tiny chunks in one region
        a = rng.randrange(1, n)
        return cutstr(sorted(set(range(a, min(n, a + rng.randint(2, 40))))))
    else:
        k = rng.randint(1, min(n - 1, 40))
    return cutstr(sorted(rng.sample(range(1, n), k)))


# --------------------------------------------------------------------------------------------------
# jobs
# --------------------------------------------------------------------------------------------------
class Job:
    """one document, a list of partitions (or '#k'), resets, reference partition"""

    def __init__(self, doc, kind, parts, resets="-", base="-", wf_expected=None):
        self.doc = doc
        self.hex = hx(doc)
        self.kind = kind
        self.parts = parts            # list of partition strings, or '#k'
        self.resets = resets
        self.base = base
        self.wf_expected = wf_expected

    def partition_list(self):
        if isinstance(self.parts, str):
            k = int(self.parts[1:])
            return ["-"] + [cutstr(c) for c in kcuts(len(self.doc), k)]
        return [self.base] + list(self.parts)

    def field(self):
        if isinstance(self.parts, str):
            return self.parts
        return ";".join([self.base] + list(self.parts))

    def case(self, part):
        return "%s %s %s %s" % (self.hex, part, self.resets, self.base)


def gen_jobs(chk):
    rng = chk.rng
    thorough = chk.tier == "thorough"
    jobs = []
    small = DocGen(rng, small=True)
    big = DocGen(rng, small=False)

    # (1) small documents: every 2-cut partition (<= 160 bytes); tiny ones every 3-cut in thorough
    nsmall = 60 if thorough else 14
    made = 0
    guard = 0
    while made < nsmall and guard < 5000:
        guard += 1
        d = small.stream(collide=(made % 5 == 4)) if made % 3 else big.stream(nstanzas=1, closed=True)
        if len(d) > 160 or len(d) < 12:
            continue
        made += 1
        jobs.append(Job(d, "small-wf-all-2cuts", "#2"))
        if len(d) <= 60 and thorough:
            jobs.append(Job(d, "tiny-wf-all-3cuts", "#3"))
        else:
            n3 = 2000 if thorough else 150
            jobs.append(Job(d, "small-wf-sampled-3cuts",
                            [cutstr(sorted(rng.sample(range(1, len(d)), 3))) for _ in range(n3)] + ["*"]))
        if made % 2 == 0:
            m, mk = mutate(rng, d)
            if 4 <= len(m) <= 160:
                jobs.append(Job(m, "small-" + mk + "-all-2cuts", "#2"))
    # tiny hand-made documents, all 3-cuts in both tiers (<= 40 bytes)
    for d in [b"<s><m a='1'>x&lt;y</m></s>", b"<s:s xmlns:s='S'><m>\xe2\x82\xac</m>", b"<s><m><![CDATA[a]]>b</m></s>",
              b"<s><m>a</n></s>", b"<s><m>&#x41;&bogus;</m>", b"<s><m p:a='1'/></s>", b"<s><m>\xff</m></s>"]:
        jobs.append(Job(d, "tiny-handmade-all-3cuts", "#3"))

    # (2) larger documents: every 1-cut, byte-by-byte, random partitions
    nbig = 400 if thorough else 40
    for i in range(nbig):
        d = big.stream(long_text=(i % 8 == 0), collide=(i % 7 == 3))
        if len(d) > 6000 and not thorough:
            d = big.stream(long_text=True, nstanzas=1)
        nrand = 40 if thorough else 12
        parts = ["*"] + [random_partition(rng, len(d)) for _ in range(nrand)]
        jobs.append(Job(d, "stream-wf-random" + ("-longtext" if i % 8 == 0 else ""), parts))
        if len(d) <= 700:
            jobs.append(Job(d, "stream-wf-all-1cuts", "#1"))
        # malformed variants
        for _ in range(2):
            m, mk = mutate(rng, d)
            if len(m) < 3:
                continue
            parts = ["*"] + [random_partition(rng, len(m)) for _ in range(nrand // 2)]
            jobs.append(Job(m, "stream-" + mk, parts))
            if len(m) <= 400:
                jobs.append(Job(m, "stream-" + mk + "-all-1cuts", "#1"))

    # (3) restarts at every position of a first stream (also inside text, tags, entities, multi-byte characters),
    #     followed by a fresh document
    nrs = 30 if thorough else 6
    for i in range(nrs):
        d1 = (small if i % 2 else big).stream(closed=False, nstanzas=rng.choice([1, 2]))
        if i % 3 == 0:
            d1 = d1 + ("<m><b>%s" % small.text()).encode("utf-8")      # make sure text is pending somewhere near the end
        d2 = (small if i % 2 == 0 else big).stream(closed=True, nstanzas=rng.choice([1, 2]))
        if i % 3 == 1:
            d2 = b"<s><a><b>xy</b>tail<c>0123456789</c></a></s>"
        if len(d1) > 400:
            d1 = d1[:400]
        for r in range(0, len(d1) + 1):
            doc = d1[:r] + d2
            parts = [random_partition(rng, len(doc)) for _ in range(2)] if (r % 4 == 0) else []
            jobs.append(Job(doc, "restart-at-every-position", parts, resets=str(r)))
        # two restarts
        for _ in range(10):
            r1 = rng.randrange(1, len(d1))
            doc = d1[:r1] + d1[:r1] + d2
            jobs.append(Job(doc, "restart-twice", [random_partition(rng, len(doc))], resets="%d,%d" % (r1, 2 * r1)))

    # (4) restart requested by a stanza (what conn.c does after <proceed/>, <success/>, <compressed/>):
    #     the reference partition cuts exactly at the stream boundary
    hdr = b"<?xml version='1.0'?><stream:stream xmlns:stream='http://etherx.jabber.org/streams' xmlns='jabber:client' id='i' version='1.0'>"
    for trig, st in [("proceed", b"<proceed xmlns='urn:ietf:params:xml:ns:xmpp-tls'/>"),
                     ("success", b"<success xmlns='urn:ietf:params:xml:ns:xmpp-sasl'>dj1hYmM=</success>")]:
        d1 = hdr + b"<stream:features><starttls xmlns='urn:ietf:params:xml:ns:xmpp-tls'/></stream:features>" + st
        d2 = hdr + b"<stream:features><bind xmlns='urn:ietf:params:xml:ns:xmpp-bind'/></stream:features>"
        doc = d1 + d2
        b = len(d1)
        parts = []
        for c in range(len(hdr) + 1, b):          # one extra cut anywhere in the stanzas of the first stream
            parts.append("%d,%d" % (c, b))
        nr = 300 if thorough else 60
        for _ in range(nr):                        # two or three extra cuts near the trigger stanza
            lo = b - len(st) - 10
            cs = sorted(set(rng.sample(range(lo, b), rng.choice([2, 3])) + [b]))
            parts.append(cutstr(cs))
        jobs.append(Job(doc, "restart-on-stanza-" + trig, parts, resets="@" + trig.encode().hex(), base=str(b)))

    # (5) documents that declare their encoding (ISO-8859-1 with bytes 0x80..0xFF in text and attribute values; US-ASCII):
    #     a new parser and a restarted one must read them alike, and like libxml2.  Fed fresh, after a restart of a
    #     new parser, as first AND as second stream (same bytes) with the restart at every position of the first one,
    #     and mixed with streams in UTF-8 on either side of a restart.
    jobs += encoding_jobs(chk)
    return jobs


def encoding_jobs(chk):
    rng = chk.rng
    thorough = chk.tier == "thorough"
    jobs = []
    prologs = ["<?xml version='1.0' encoding='ISO-8859-1'?>", '<?xml version="1.0" encoding="iso-8859-1"?>\n',
               "<?xml version='1.0' encoding='ISO-8859-1' standalone='yes'?>"]
    hand = [b"<?xml version='1.0' encoding='ISO-8859-1'?><stream xmlns='urn:d'><message to='ren\xe9@x'><body>caf\xe9 \xfc\xdf</body></message></stream>",
            b"<?xml version='1.0' encoding='ISO-8859-1'?><s><m a='\xa0\xff'>\xe9<![CDATA[\xfe<]]>&#xe9;&lt;\x80</m> <\xe9l\xe8ve \xfc='1'/></s>",
            b"<?xml version='1.0' encoding='US-ASCII'?><s><m a='b&#xe9;'>abc&#x20AC;</m></s>"]
    docs = [(d, "latin1" if b"8859" in d else "ascii") for d in hand]
    n = 24 if thorough else 6
    for i in range(n):
        g = DocGen(rng, small=(i % 2 == 0), hi=LATIN1, prolog=prologs[i % len(prologs)], codec="latin-1")
        try:
            d = g.stream(closed=(i % 3 != 2), nstanzas=rng.choice([1, 2, 3]))
        except UnicodeEncodeError:
            continue
        if not any(c >= 0x80 for c in d):          # make sure a byte >= 0x80 is there: an attribute of the root element
            at = d.index(b">", d.index(b"?>") + 2)
            d = d[:at] + b" l='\xe9'" + d[at:]
        docs.append((d, "latin1"))
    for i in range(6 if thorough else 2):
        g = DocGen(rng, small=(i % 2 == 0), hi=["&#xe9;", "~"], prolog="<?xml version='1.0' encoding='US-ASCII'?>", codec="ascii")
        try:
            docs.append((g.stream(closed=True), "ascii"))
        except UnicodeEncodeError:
            continue
    utf = DocGen(rng, small=True)
    u_open = utf.stream(closed=False, nstanzas=1)
    u_closed = b"<s><m a='\xc3\xa9'>\xe2\x82\xac</m></s>"
    for k, (d, enc) in enumerate(docs):
        kind = "declared-" + enc
        nrand = 16 if thorough else 6
        jobs.append(Job(d, kind + "-fresh", ["*"] + [random_partition(rng, len(d)) for _ in range(nrand)]))
        if len(d) <= 500:
            jobs.append(Job(d, kind + "-fresh-all-1cuts", "#1"))
        if len(d) <= 120 and (thorough or k < 3):
            jobs.append(Job(d, kind + "-fresh-all-2cuts", "#2"))
        # the same bytes on a parser that has been restarted before the first byte
        jobs.append(Job(d, kind + "-after-restart-of-new-parser", ["*", random_partition(rng, len(d))], resets="0"))
        # same bytes as first and as second stream, the restart at every position of the first
        step = 1 if (thorough or k < 4) else 5
        for r in range(1, len(d) + 1, step):
            doc = d[:r] + d
            jobs.append(Job(doc, kind + "-twice-restart-at-every-position",
                            [random_partition(rng, len(doc))] if r % 6 == 0 else [], resets=str(r)))
        # a stream in UTF-8 before / after it, and twice with a complete first stream
        jobs.append(Job(u_open + d, kind + "-after-utf8-stream", [random_partition(rng, len(u_open + d))], resets=str(len(u_open))))
        jobs.append(Job(d + u_closed, kind + "-before-utf8-stream", [random_partition(rng, len(d + u_closed))], resets=str(len(d))))
        jobs.append(Job(u_closed + d + u_closed + d, kind + "-alternating",
                        [random_partition(rng, 2 * len(u_closed + d))],
                        resets="%d,%d,%d" % (len(u_closed), len(u_closed + d), len(u_closed + d + u_closed))))
    # a declared encoding whose bytes do not fit it: rejected by a new and by a restarted parser alike
    bad = b"<?xml version='1.0' encoding='US-ASCII'?><s><m a='b'>ab\xe9c</m></s>"
    jobs.append(Job(bad, "declared-ascii-high-byte", "#1"))
    jobs.append(Job(bad, "declared-ascii-high-byte", ["*"], resets="0"))
    jobs.append(Job(bad[:30] + bad, "declared-ascii-high-byte", ["*"], resets="30"))
    # restart requested by a stanza, both streams in ISO-8859-1
    hdr = b"<?xml version='1.0' encoding='ISO-8859-1'?><stream:stream xmlns:stream='http://etherx.jabber.org/streams' xmlns='jabber:client' id='\xe9' version='1.0'>"
    d1 = hdr + b"<proceed xmlns='urn:ietf:params:xml:ns:xmpp-tls'/>"
    d2 = hdr + b"<message><body>caf\xe9</body></message>"
    b = len(d1)
    jobs.append(Job(d1 + d2, "declared-latin1-restart-on-stanza", ["%d,%d" % (c, b) for c in range(len(hdr) + 1, b, 3)],
                    resets="@" + b"proceed".hex(), base=str(b)))
    return jobs


# --------------------------------------------------------------------------------------------------
# evaluation
# --------------------------------------------------------------------------------------------------
def load_corpus():
    p = os.path.join(vlib.ROOT, "corpus", "C10.txt")
    if not os.path.exists(p):
        return []
    out = []
    for l in open(p):
        l = l.strip()
        if not l or l.startswith("#"):
            continue
        f = l.split()
        while len(f) < 4:
            f.append("-")
        out.append(Job(bytes.fromhex(f[0]) if f[0] != "-" else b"", "corpus", [f[1]], resets=f[2], base=f[3]))
    return out


def segments(doc, resets):
    """pieces of the document between positional restarts"""
    if resets == "-" or resets.startswith("@"):
        return None
    ps = sorted(set(int(x) for x in resets.split(",")))
    out, prev = [], 0
    for p in ps:
        out.append(doc[prev:p])
        prev = p
    out.append(doc[prev:])
    return out


def join_segments(logs):
    """log of a run with restarts, from the logs of the pieces on new parsers (a failed piece ends the run)"""
    toks = []
    for i, lg in enumerate(logs):
        if lg != "-":
            toks.append(lg)
        if E_RE.search(lg):
            break
        if i + 1 < len(logs):
            toks.append("R")
    return " ".join(toks) if toks else "-"


class Evaluator:
    def __init__(self, chk, exe, mexe):
        self.chk = chk
        self.exe = exe
        self.mexe = mexe
        self.seg_cache = {}

    def run_c(self, lines, nshards=None):
        if not lines:
            return []
        return vlib.run_parallel(self.exe, lines, nshards=nshards or min(vlib.NCPU, max(1, len(lines) // 4)),
                                 timeout=600, batch=32, per_case_timeout=120)

    def run_m(self, lines):
        if not lines or self.mexe is None:
            return [None] * len(lines)
        return vlib.run_parallel(self.mexe, lines, nshards=min(vlib.NCPU, max(1, len(lines) // 50)))

    def evaluate(self, jobs, full=True):
        chk = self.chk
        rng = chk.rng
        lines = []
        for j in jobs:
            f = j.field()
            lines.append("L %s %s %s" % (j.hex, f, j.resets))
            lines.append("Sm %s %s %s" % (j.hex, f, j.resets))
            lines.append("Dm %s %s %s" % (j.hex, f, j.resets))
            lines.append("Xm %s" % j.hex)
        res = self.run_c(lines)
        # correspondence sample: raw pieces for a few partitions of every job
        mlines, mref = [], []
        seglines, segkeys = [], []
        for ji, j in enumerate(jobs):
            L = res[4 * ji]
            if L is None or L.startswith("CRASH"):
                continue
            plist = j.partition_list()
            idx = [0] + ([plist.index("*")] if "*" in plist else [])
            more = [i for i in range(1, len(plist))]
            rng.shuffle(more)
            idx += more[:6 if full else 2]
            idx = sorted(set(idx))
            for i in idx:
                mlines.append("S %s %s %s" % (j.hex, plist[i], j.resets))
                mref.append((ji, i))
            segs = segments(j.doc, j.resets)
            if segs:
                for s in segs:
                    k = hx(s)
                    if k not in self.seg_cache and k not in segkeys:
                        segkeys.append(k)
                        seglines.append("L %s - -" % k)
        sraw = self.run_c(mlines + seglines)
        for k, v in zip(segkeys, sraw[len(mlines):]):
            self.seg_cache[k] = v
        sraw = sraw[:len(mlines)]
        # ... and the model on libxml2's events of the documents libxml2 accepts
        for ji, j in enumerate(jobs):
            X = res[4 * ji + 3]
            if j.resets == "-" and j.base == "-" and X and not X.startswith("CRASH") and not E_RE.search(X):
                sraw.append(X)
                mref.append((ji, 0))
        model = self.run_m([s if s and not s.startswith("CRASH") else "-" for s in sraw])
        model_by = {}
        for (ji, i), s, m in zip(mref, sraw, model):
            model_by.setdefault(ji, []).append((i, s, m))

        for ji, j in enumerate(jobs):
            self.judge(j, res[4 * ji], res[4 * ji + 1], res[4 * ji + 2], res[4 * ji + 3], model_by.get(ji, []))

    def judge(self, j, Lline, Sline, Dline, X, msample):
        chk = self.chk
        plist = j.partition_list()
        chk.count(j.kind, len(plist))
        chk.evaluations += len(plist)
        crashed = [x for x in (Lline, Sline, Dline, X) if x is None or x.startswith("CRASH")]
        if crashed:
            if Lline is None or Lline.startswith("CRASH"):
                self.crash_fallback(j, plist, Lline)
            else:
                chk.broken.append({"kind": "harness", "name": "c10_driver", "detail": "twin expat / libxml2 run died: %s" % crashed[0][:200]})
            return
        Ls, Ss = split_results(Lline), split_results(Sline)
        # a libexpat without XML_SetReparseDeferralEnabled has no reparse deferral to switch off
        Ds = Ss if Dline.endswith(" NOAPI") else split_results(Dline)
        if not (len(Ls) == len(Ss) == len(Ds) == len(plist)):
            chk.broken.append({"kind": "harness", "name": "c10_driver", "detail": "result count %d/%d/%d for %d partitions" % (len(Ls), len(Ss), len(Ds), len(plist))})
            return
        W, SW, DW = Ls[0], Ss[0], Ds[0]
        nW = norm(W)
        chk.nontrivial.add((j.hex, j.resets))
        if "Z(" in W:
            chk.extra["docs_with_stanzas"] = chk.extra.get("docs_with_stanzas", 0) + 1
        # (b) the reference log against libxml2 + the independent tree builder
        if j.resets == "-" and j.base == "-":
            x_ok = not E_RE.search(X)
            w_ok = not E_RE.search(W)
            chk.count("libxml2-accepts" if x_ok else "libxml2-rejects")
            if x_ok:
                exp = pybuild(X)
                if W != exp:
                    chk.fail(j.case("-"), "fed in one piece, libstrophe reports %s ; libxml2 + tree builder: %s" % (W[:300], exp[:300]),
                             extra={"cls": "differs-from-libxml2" if w_ok else "rejects-what-libxml2-accepts"})
                if norm_ev(DW) != norm_ev(X):
                    chk.fail(j.case("-"), "ASSUMPTION: plain expat (deferral off) reports %s ; libxml2 %s" % (DW[:300], X[:300]),
                             extra={"cls": "assumption-expat-vs-libxml2"})
        # (d) clean slate: run with restarts = runs of the pieces on new parsers
        segs = segments(j.doc, j.resets)
        if segs is not None:
            exp = join_segments([self.seg_cache.get(hx(s), "?") for s in segs])
            if nW != norm(exp):
                chk.fail(j.case(j.base), "with restarts: %s ; the pieces on new parsers: %s" % (W[:300], exp[:300]),
                         extra={"cls": "restart-not-clean"})
        # (a), (c) and the assumption, for every partition
        reported = 0
        for i, part in enumerate(plist):
            Li, Si, Di = Ls[i], Ss[i], Ds[i]
            built = None
            if i == 0 or Si is not SW or Li is not W:
                built = pybuild(Si)
                if norm(built) != norm(Li):      # (the driver abbreviates a log equal to the reference up to the feed number of E)
                    chk.fail(j.case(part), "libstrophe delivered %s ; expat delivered %s, i.e. %s" % (Li[:300], Si[:200], built[:300]),
                             extra={"cls": "layer-differs-from-events"})
            if Di is not DW and norm_ev(Di) != norm_ev(DW):
                chk.fail(j.case(part), "ASSUMPTION: plain expat (deferral off) reports %s for this partition, %s for the reference" % (Di[:300], DW[:300]),
                         extra={"cls": "assumption-expat-partition"})
            if Li is W:
                continue
            if norm(Li) != nW:
                deferral = (built == Li) and norm(Di) == norm(DW) and norm(Si) != norm(SW)
                tail = is_token_prefix(Li, W) and not E_RE.search(Li)
                cls = "expat-reparse-deferral" if deferral else "partition-dependent"
                chk.count("deferral-tail-undelivered" if (deferral and tail) else ("deferral-other" if deferral else "partition-dependent"))
                if reported < 3 or not deferral:
                    reported += 1
                    chk.fail(j.case(part), "event log depends on the partition: %s ; reference partition %s: %s" % (Li[:300], j.base, W[:300]),
                             extra={"cls": cls, "tail_only": tail, "deferral_off_ok": norm(Di) == norm(DW)})
        # correspondence with the extracted model on the raw pieces
        for i, s, m in msample:
            if m is None:
                continue
            chk.traces_validated += 1
            if s is None or s.startswith("CRASH"):
                continue
            if norm(m) != norm(Ls[i]):
                chk.disagree("parser-layer", j.case(plist[i]), Ls[i][:400], m[:400])
        if len(chk.samples) < 8 and chk.evaluations % 7 == 0:
            chk.sample({"case": j.case(plist[-1])[:200], "kind": j.kind, "impl": Ls[-1][:200]})

    def crash_fallback(self, j, plist, Lline):
        """the library died somewhere in this job: find a partition on which it does (bounded search)"""
        chk = self.chk
        self.fallbacks = getattr(self, "fallbacks", 0) + 1
        chk.count("library-died")
        if self.fallbacks > 12:
            chk.fail(j.case(j.base), "the library dies on some partition of this job: %s" % Lline, extra={"cls": "crash"})
            return
        sub = plist if len(plist) <= 40 else plist[:1] + chk.rng.sample(plist[1:], 39)
        n = 0
        for lo in range(0, len(sub), 8):
            chunk = sub[lo:lo + 8]
            out = vlib.run_lines(self.exe, ["L %s %s %s" % (j.hex, p, j.resets) for p in chunk], per_case_timeout=60)
            for p, o in zip(chunk, out):
                if o is None or o.startswith("CRASH"):
                    n += 1
                    s = vlib.run_lines(self.exe, ["S %s %s %s" % (j.hex, p, j.resets)])[0]
                    m = self.run_m([s])[0] if s and not s.startswith("CRASH") else None
                    chk.fail(j.case(p), "the library dies: %s" % (o or "no output"), extra={"cls": "crash"})
                    if m is not None and "MODEL-" not in m:
                        chk.disagree("parser-layer", j.case(p), o, m[:300])
            if n:
                break
        if n == 0:
            chk.fail(j.case(j.base), "the library dies on some partition of this job: %s" % Lline, extra={"cls": "crash"})


def register_known(chk):
    # classification predicate of the known finding: the failing run is one in which (i) libstrophe delivered
    # exactly the tree builder's reading of what expat delivered to it, (ii) the same chunks through an expat
    # with reparse deferral switched off give the reference event sequence, (iii) with deferral on they do not
    chk.known_preds[KNOWN_DEFERRAL] = lambda rec: rec.get("cls") == "expat-reparse-deferral" and rec.get("deferral_off_ok") is True
    if not any(k.get("id") == KNOWN_DEFERRAL for k in chk.known):
        # known_findings.json is the coordinator's file; until the entry below is committed there the check carries it
        chk.known.append(dict(KNOWN_DEFERRAL_ENTRY))


def run(chk):
    chk.rule = ("documents: generated well-formed XMPP-like streams (attributes, nested children, predefined entities and "
                "character references, CDATA, multi-byte UTF-8, prefixes, default-namespace changes, namespaced attributes "
                "incl. collisions with unqualified ones, whitespace between stanzas, text > 1 KiB / > 4 KiB) and one-edit "
                "malformed variants (deleted/flipped bytes, NUL, invalid UTF-8, truncation, mismatched tags, bad entities, "
                "junk after the root, illegal constructs, DOCTYPE/prolog), documents declaring encoding ISO-8859-1 (bytes 0x80..0xFF "
                "in text, attribute values and names) or US-ASCII, fed to a new parser, to a parser restarted before the first "
                "byte, as first and as second stream around a restart at every position, and next to UTF-8 streams; partitions: every 2-cut of documents <= 160 bytes, "
                "every 3-cut of tiny ones (all <= 60 bytes in thorough), every 1-cut <= 700 bytes, byte-by-byte, random; "
                "restarts at every position of a first stream followed by a fresh document, and restarts requested by a "
                "stanza; an evaluation = one (document, partition, restarts) fed to the real parser; distinct non-trivial = "
                "distinct (document, restarts)")
    chk.assumptions = [
        "C10 is PARTIAL: the theorems are about libstrophe's layer over SAX events; that expat's tokenizer reports the same "
        "events for every partition of the bytes is an assumption, tested here (expat with reparse deferral off vs. every "
        "partition, and vs. libxml2 2.9.14 SAX2)",
        "expat never delivers a NUL or an empty piece of character data, and reports an end tag only for an open element",
        "allocation failure and failure of XML_ParserReset are not modelled",
        "oracle: libxml2 SAX2 events + a Python tree builder (checks/C10.py pybuild), independent of the Coq model",
    ]
    register_known(chk)
    chk.prove()
    exe = build_driver()
    mexe = None
    try:
        mexe = vlib.build_ocaml_model("C10")
    except vlib.BuildError as e:
        chk.broken.append({"kind": "extract", "name": "Extract_C10", "detail": str(e)[:500]})
    ev = Evaluator(chk, exe, mexe)
    ev.evaluate(load_corpus())
    jobs = gen_jobs(chk)
    # a thin slice first: if the library already dies all over it, the failing inputs are there and the bulk
    # (where every death costs a sanitizer report and a bisection) is skipped
    step = max(1, len(jobs) // 60)
    smoke = jobs[::step]
    rest = [j for i, j in enumerate(jobs) if i % step]
    ev.evaluate(smoke)
    died = sum(1 for f in chk.failures if f.get("cls") == "crash")
    if died >= 10:
        chk.extra["skipped_after_smoke_run"] = "%d jobs not run: the library died on %d inputs of the first %d jobs" % (len(rest), died, len(smoke))
    else:
        ev.evaluate(rest)
    # one representative per failure class is enough for the report; keep the list short
    seen = {}
    keep = []
    for f in chk.failures:
        c = f.get("cls")
        seen[c] = seen.get(c, 0) + 1
        if seen[c] <= 5:
            keep.append(f)
    chk.extra["failure_classes"] = seen
    chk.failures = keep


def replay(path):
    rec = json.load(open(path))
    f = rec.get("failure") or (rec.get("disagreements") or [{}])[0]
    case = f.get("case")
    if not case:
        print("replay file names no concrete input: %s" % json.dumps(rec.get("broken_obligations"))[:800])
        return 1
    dochex, part, resets, base = (case.split() + ["-", "-", "-"])[:4]
    exe = build_driver()
    lines = ["L %s %s %s" % (dochex, part, resets), "L %s %s %s" % (dochex, base, resets),
             "St %s %s %s" % (dochex, part, resets), "S %s %s %s" % (dochex, part, resets),
             "Dm %s %s %s" % (dochex, part, resets), "Dm %s %s %s" % (dochex, base, resets), "X %s" % dochex]
    out = vlib.run_lines(exe, lines)
    try:
        m = vlib.run_lines(vlib.build_ocaml_model("C10"), [out[3] if out[3] and not out[3].startswith("CRASH") else "-"])[0]
    except vlib.BuildError:
        m = "(model unavailable)"
    doc = bytes.fromhex(dochex) if dochex != "-" else b""
    print("document           : %r" % doc)
    print("partition / resets : %s / %s   (reference partition %s)" % (part, resets, base))
    print("libstrophe         : %s" % out[0])
    print("libstrophe, ref.   : %s" % out[1])
    print("expat events+feeds : %s" % out[2])
    print("model on events    : %s" % m)
    print("tree builder       : %s" % (pybuild(out[3]) if out[3] and not out[3].startswith("CRASH") else "?"))
    print("expat deferral off : %s" % out[4])
    print("  ... reference    : %s" % out[5])
    print("libxml2            : %s" % out[6])
    ok = out[0] is not None and out[1] is not None and norm(out[0]) == norm(out[1]) and not out[0].startswith("CRASH")
    segs = segments(doc, resets)
    if ok and segs is not None:
        lg = vlib.run_lines(exe, ["L %s - -" % hx(s) for s in segs])
        exp = join_segments(lg)
        print("pieces, new parsers: %s" % exp)
        ok = norm(out[1]) == norm(exp)
    if ok and resets == "-" and base == "-" and not E_RE.search(out[6]):
        ok = out[1] == pybuild(out[6])
    print("property           : %s" % ("holds" if ok else "FAILS"))
    return 0 if ok else 1
