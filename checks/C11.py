"""C11 - handlers fire exactly when their filter matches, in order, and stay deleted.

Layers: (1) Properties_C11.v; (2) correspondence: harness/c/c11_driver.c (the real src/handler.c lists under
scripted callbacks with per-handler identities, virtual clock, real parser / real xmpp_run_once for part of the
streams) against the extracted HandlerModel on the same scenario lines; (3) the property oracle below, an
independent statement of C11 over the registration history (no heap, no `enabled` flag, no next pointers).
"""
import itertools
import json
import os
import re

import vlib

LDWRAP = ["-Wl,--wrap=gettimeofday,--wrap=select,--wrap=send"]
T0 = 1000000


# --------------------------------------------------------------------------------------
# property oracle
# --------------------------------------------------------------------------------------
class Reg:
    __slots__ = ("kind", "key", "cb", "ud", "user", "flt", "period", "t0", "alive")


class Unspecified(Exception):
    """the scenario left the property's quantifier (a handler deleted itself)"""


class Oracle:
    """Expected trace according to the property text.  A registration is live from the call that added
    it until it returns false or is deleted; the handlers a stanza is offered to are those live when its
    dispatch starts (id handlers for its id first, then stanza handlers, each in registration order), minus
    those deleted earlier in the same dispatch, restricted to matching filters (ns of the stanza, or - user
    handlers - of a direct child; name; type) and (user handlers) to a completed negotiation.  Timed handlers: due when now - (registered | re-armed | last fired) >= period,
    offered most recently registered first (the list order of the implementation; the property fixes only
    which ones fire), only on a connected connection; context-wide ones always and ungated."""

    def __init__(self):
        self.regs = []
        self.neg = True
        self.conn = True
        self.has_socket = True      # xmpp_run_once returns before select() when no connection has a socket
        self.clock = T0
        self.sendq = []
        self.defs = {}
        self.behs = {}
        self.calls = {}
        self.out = []
        self.current = None
        self.invocations = 0

    def live(self, kind, key=None):
        return [r for r in self.regs if r.alive and r.kind == kind and (kind != "i" or r.key == key)]

    def register(self, k):
        d = self.defs.get(k)
        if d is None:
            return
        kind = d[0]
        key = d[1] if kind == "i" else None
        cb, ud, user = d[-3], d[-2], d[-1]
        if any(r.cb == cb and r.ud == ud for r in self.live(kind, key)):
            return                      # registered twice with the same callback and user data: kept once
        r = Reg()
        r.kind, r.key, r.cb, r.ud, r.user, r.alive = kind, key, cb, ud, user, True
        r.flt = d[1:4] if kind == "s" else None
        r.period = d[1] if kind in "tg" else None
        r.t0 = self.clock
        self.regs.append(r)

    def delete(self, kind, cb, key=None):
        for r in self.live(kind, key):
            if r.cb == cb:
                r.alive = False
                if r is self.current:
                    raise Unspecified()

    def action(self, a):
        if a.startswith("add:"):
            self.register(int(a[4:]))
        elif a.startswith("dels:"):
            self.delete("s", int(a[5:]))
        elif a.startswith("deli:"):
            cb, key = a[5:].split(":", 1)
            self.delete("i", int(cb), key)
        elif a.startswith("delt:"):
            self.delete("t", int(a[5:]))
        elif a.startswith("delg:"):
            self.delete("g", int(a[5:]))
        elif a.startswith("send:"):
            if self.conn:
                self.sendq.append(a[5:])
        elif a.startswith("clk:"):
            self.clock += int(a[4:])        # the callback takes time: later handlers of the pass really run later

    def invoke(self, r, what):
        self.invocations += 1
        self.out.append("H%d.%d@%d:%s" % (r.cb, r.ud, self.clock, what))
        ent = self.behs.get((r.cb, r.ud))
        n = self.calls.get((r.cb, r.ud), 0)
        self.calls[(r.cb, r.ud)] = n + 1
        ret, acts = (True, []) if not ent else ent[min(n, len(ent) - 1)]
        self.current = r
        for a in acts:
            self.action(a)
        self.current = None
        if not ret:
            r.alive = False

    @staticmethod
    def matches(r, sz):
        name, ns, typ, sid, children = sz
        if r.kind == "i":
            return sid is not None and r.key == sid
        fns, fname, ftype = r.flt
        # the namespace of a direct child counts for handlers registered through the public API only
        ok_ns = fns is None or fns == ns or (r.user and fns in [c for c in children if c is not None])
        return ok_ns and (fname is None or fname == name) and (ftype is None or ftype == typ)

    def stanza(self, sz):
        name, ns, typ, sid, children = sz
        offered = (self.live("i", sid) if sid is not None else []) + self.live("s")
        what = name + ("#" + sid if sid is not None else "")
        for r in offered:
            if not r.alive:                 # deleted earlier in this dispatch
                continue
            if r.user and not self.neg:
                continue
            if self.matches(r, sz):
                self.invoke(r, what)
        self.out.append("|")

    def timed_pass(self):
        if self.conn:
            for r in reversed(self.live("t")):
                if r.alive and not (r.user and not self.neg) and self.clock - r.t0 >= r.period:
                    r.t0 = self.clock
                    self.invoke(r, "t")
        for r in reversed(self.live("g")):
            if r.alive and self.clock - r.t0 >= r.period:
                r.t0 = self.clock
                self.invoke(r, "g")

    def command(self, cmd):
        a = cmd.split(" ")
        c = a[0]
        if c == "beh":
            ents = []
            for e in a[3].split("/")[:8]:
                ents.append((e[:1] == "1", e[2:].split(",") if len(e) > 2 and e[1] == ":" else []))
            self.behs[(int(a[1]), int(a[2]))] = ents
        elif c == "def":
            k, kind = int(a[1]), a[2]
            opt = lambda s: None if s == "-" else s
            if kind == "s":
                self.defs[k] = ("s", opt(a[3]), opt(a[4]), opt(a[5]), int(a[6]), int(a[7]), a[8] == "u")
            elif kind == "i":
                self.defs[k] = ("i", a[3], int(a[4]), int(a[5]), a[6] == "u")
            elif kind == "t":
                self.defs[k] = ("t", int(a[3]), int(a[4]), int(a[5]), a[6] == "u")
            elif kind == "g":
                self.defs[k] = ("g", int(a[3]), int(a[4]), int(a[5]), True)
        elif c == "add":
            self.register(int(a[1]))
        elif c in ("dels", "delt", "delg"):
            self.delete(c[3], int(a[1]))
        elif c == "deli":
            self.delete("i", int(a[1]), a[2])
        elif c == "neg":
            self.neg = a[1] != "0"
        elif c == "state":
            self.conn = a[1] == "c"
            self.has_socket = a[1] != "d"
        elif c == "clock":
            self.clock += int(a[1])
        elif c == "reset":
            for r in self.live("t"):
                if a[1] == "0" or r.user:
                    r.t0 = self.clock
        elif c == "sysdel":
            for r in self.regs:
                if r.kind != "g" and not r.user:
                    r.alive = False
        elif c == "open":
            for r in self.live("t"):
                r.t0 = self.clock
            self.neg = True
            self.out.append("E:connect")
        elif c in ("st", "fst"):
            opt = lambda s: None if s == "-" else s
            ch = [] if a[5] == "-" else [None if x in ("~", "T") else x for x in a[5].split(",")]
            self.stanza((a[1], opt(a[2]), opt(a[3]), opt(a[4]), ch))
        elif c == "fire":
            self.timed_pass()
        elif c in ("run", "run2"):
            if self.conn:
                self.out += ["W:" + s for s in self.sendq]
                self.sendq = []
            self.timed_pass()
            if c == "run2" and self.has_socket:
                self.timed_pass()
            self.out.append("|")


def oracle(line):
    """-> (expected trace without the final dump, unspecified?)"""
    o = Oracle()
    try:
        for cmd in line.split(";"):
            if cmd:
                o.command(cmd)
    except Unspecified:
        return " ".join(o.out), True, o.invocations
    return " ".join(o.out), False, o.invocations


def strip_dump(trace):
    i = trace.find("D S[")
    return (trace if i < 0 else trace[:i]).strip()


# --------------------------------------------------------------------------------------
# generators
# --------------------------------------------------------------------------------------
NS = [None, "n1", "n2"]
NAMES = [None, "iq", "message"]
TYPES = [None, "get", "chat"]
IDS = ["q1", "q2"]
S_NAMES = ["iq", "message", "presence"]
S_NS = [None, "n1", "n2", "n3"]
S_TYPES = [None, "get", "chat", "set"]
S_IDS = [None, "q1", "q2", "q3"]
S_CHILDREN = ["-", "n1", "n2", "~", "T", "n3,n1", "~,n2,T", "n1,n2"]


def o2s(x):
    return "-" if x is None else x


def stanza_cmd(rng, via=None, sid="rand"):
    if sid == "rand":
        sid = rng.choice(S_IDS)
    return "%s %s %s %s %s %s" % (via or rng.choice(["st", "st", "fst"]), rng.choice(S_NAMES), o2s(rng.choice(S_NS)),
                                  o2s(rng.choice(S_TYPES)), o2s(sid), rng.choice(S_CHILDREN))


def gen_match(chk):
    """every filter of the vocabulary against every stanza of the vocabulary (one handler, returns true)"""
    stanzas = ["%s %s %s %s %s" % (n, o2s(ns), o2s(t), "-", ch)
               for n in S_NAMES for ns in S_NS for t in S_TYPES for ch in S_CHILDREN]
    thorough = chk.tier == "thorough"
    cases = []
    for (ns, name, typ) in itertools.product(NS, NAMES, TYPES):
        chunk = 48
        pool = stanzas if thorough else chk.rng.sample(stanzas, 96)
        for i in range(0, len(pool), chunk):
            via = "fst" if (i // chunk) % 2 else "st"
            head = "def 0 s %s %s %s 0 0 u;add 0;open" % (o2s(ns), o2s(name), o2s(typ))
            cases.append((head + ";" + ";".join(via + " " + s for s in pool[i:i + chunk]), "match"))
    # id filter
    for hid in IDS:
        for via in ("st", "fst"):
            body = ";".join("%s iq %s %s %s %s" % (via, o2s(ns), o2s(t), o2s(i), "-")
                            for ns in S_NS[:2] for t in S_TYPES[:2] for i in S_IDS)
            cases.append(("def 0 i %s 0 0 u;add 0;open;%s" % (hid, body), "match-id"))
    return cases


def small_universe(n):
    """handlers 0..n-1 (cb i, ud 0), each a stanza handler (no filter) or an id handler for q1; the single
    actions a handler may take, relative to its position"""
    def acts(i, kinds):
        others = [j for j in range(n) if j != i]
        a = ["add:10", "add:11", "add:12", "send:x", "add:%d" % ((i + 1) % n)]
        for j in others:
            a.append("dels:%d" % j if kinds[j] == "s" else "deli:%d:q1" % j)
        return a
    return acts


def script_case(n, kinds, behs, nstanzas, stanza_id="q1"):
    parts = ["def 10 s - - - 10 0 u", "def 11 i q1 11 0 u", "def 12 t 0 112 0 u"]
    for i in range(n):
        parts.append("def %d s - - - %d 0 u" % (i, i) if kinds[i] == "s" else "def %d i q1 %d 0 u" % (i, i))
    for i, (ret, acts) in enumerate(behs):
        parts.append("beh %d 0 %d%s" % (i, ret, (":" + ",".join(acts)) if acts else ""))
    parts += ["add %d" % i for i in range(n)]
    parts += ["st iq - - %s -" % stanza_id] * nstanzas
    parts.append("run")
    return ";".join(parts)


def gen_scripts(chk):
    """all scripts over <=3 handlers x <=2 actions x <=3 stanzas (thorough: 2 handlers x <=2 actions x 2 stanzas and
    3 handlers x <=1 action x 3 stanzas exhaustively, 3 x 2 x 3 sampled; quick: samples of each)"""
    rng = chk.rng
    thorough = chk.tier == "thorough"
    cases = []

    def enum(n, maxacts, nst):
        acts_of = small_universe(n)
        for kinds in itertools.product("si", repeat=n):
            per = []
            for i in range(n):
                al = acts_of(i, kinds)
                lists = [()] + [(a,) for a in al]
                if maxacts >= 2:
                    lists += list(itertools.product(al, repeat=2))
                per.append([(r, l) for r in (1, 0) for l in lists])
            for combo in itertools.product(*per):
                yield script_case(n, kinds, combo, nst)

    def some(gen, total, want):
        if want >= total:
            for c in gen:
                yield c
            return
        keep = set(rng.sample(range(total), want))
        for i, c in enumerate(gen):
            if i in keep:
                yield c

    n2 = 4 * (2 * (1 + 6 + 36)) ** 2
    n3 = 8 * (2 * (1 + 7)) ** 3
    for c in some(enum(2, 2, 2), n2, n2 if thorough else 3000):
        cases.append((c, "script-2x2x2"))
    for c in some(enum(3, 1, 3), n3, n3 if thorough else 3000):
        cases.append((c, "script-3x1x3"))
    # 3 handlers x <=2 actions x 3 stanzas: sampled
    acts_of = small_universe(3)
    for _ in range(400000 if thorough else 3000):
        kinds = [rng.choice("si") for _ in range(3)]
        behs = []
        for i in range(3):
            al = acts_of(i, kinds)
            behs.append((rng.choice((1, 1, 0)), tuple(rng.choice(al) for _ in range(rng.choice((0, 1, 2, 2))))))
        cases.append((script_case(3, kinds, behs, 3, rng.choice(["q1", "q1", "q2"])), "script-3x2x3"))
    return cases


def rand_filter(rng):
    return "%s %s %s" % (o2s(rng.choice(NS)), o2s(rng.choice(NAMES)), o2s(rng.choice(TYPES)))


def gen_random(chk, count):
    """larger random programs: <=6 definitions of every kind, duplicates, same callback with different userdata,
    system and user handlers, per-call behaviours, negotiation / connection toggles, deletions between stanzas"""
    rng = chk.rng
    cases = []
    for _ in range(count):
        nd = rng.randint(2, 6)
        parts = []
        cbs = [rng.randint(0, 3) for _ in range(nd)]
        kinds = []
        for k in range(nd):
            kind = rng.choice("ssssiitg")
            kinds.append(kind)
            ud = rng.randint(0, 1)
            u = rng.choice("uuuy")
            if kind == "s":
                parts.append("def %d s %s %d %d %s" % (k, rand_filter(rng), cbs[k], ud, u))
            elif kind == "i":
                parts.append("def %d i %s %d %d %s" % (k, rng.choice(IDS), cbs[k], ud, u))
            elif kind == "t":
                parts.append("def %d t %d %d %d %s" % (k, rng.choice([0, 1, 50, 100]), 100 + cbs[k], ud, u))
            else:
                parts.append("def %d g %d %d %d" % (k, rng.choice([0, 50, 100]), 200 + cbs[k], ud))

        def rand_action(own_cb, own_kind):
            r = rng.random()
            if r < 0.35:
                return "add:%d" % rng.randrange(nd)
            if r < 0.45:
                return "send:s%d" % rng.randint(0, 9)
            other = [c for c in range(4) if not (c == own_cb)]
            c = rng.choice(other)
            dk = rng.choice("ssiitg")
            # never name the own callback in the own list kind (that is self-deletion)
            if dk == "s":
                return "dels:%d" % c if own_kind in "si" else "dels:%d" % rng.randrange(4)
            if dk == "i":
                return "deli:%d:%s" % (c if own_kind in "si" else rng.randrange(4), rng.choice(IDS))
            if dk == "t":
                return "delt:%d" % (100 + (c if own_kind == "t" else rng.randrange(4)))
            return "delg:%d" % (200 + (c if own_kind == "g" else rng.randrange(4)))

        for fam, base in (("s", 0), ("t", 100), ("g", 200)):
            for cb in range(4):
                for ud in range(2):
                    if rng.random() < 0.6:
                        ents = []
                        for _ in range(rng.randint(1, 3)):
                            acts = [rand_action(cb, fam) for _ in range(rng.choice((0, 0, 1, 1, 2)))]
                            ents.append("%d%s" % (rng.choice((1, 1, 0)), (":" + ",".join(acts)) if acts else ""))
                        parts.append("beh %d %d %s" % (base + cb, ud, "/".join(ents)))
        opened = False
        for _ in range(rng.randint(3, 14)):
            r = rng.random()
            if r < 0.22:
                parts.append("add %d" % rng.randrange(nd))
            elif r < 0.57:
                via = rng.choice(["st", "st", "fst"])
                if via == "fst" and not opened:
                    parts.append("open")
                    opened = True
                parts.append(stanza_cmd(rng, via))
            elif r < 0.62:
                parts.append(rng.choice(["dels %d" % rng.randrange(4), "deli %d %s" % (rng.randrange(4), rng.choice(IDS)),
                                         "delt %d" % (100 + rng.randrange(4)), "delg %d" % (200 + rng.randrange(4))]))
            elif r < 0.68:
                parts.append("neg %d" % rng.randint(0, 1))
            elif r < 0.72:
                parts.append("state %s" % rng.choice("cdg"))
            elif r < 0.82:
                parts.append("clock %d" % rng.choice([0, 1, 49, 50, 51, 99, 100, 101]))
            elif r < 0.94:
                parts.append(rng.choice(["fire", "run", "run2"]))
            elif r < 0.96:
                parts.append("sysdel")
            elif r < 0.98:
                parts.append("reset %d" % rng.randint(0, 1))
            else:
                parts.append("open")
                opened = True
        cases.append((";".join(parts), "random"))
    return cases


def gen_timed(chk):
    """periods with clock steps at period-1 / period / period+1, re-arm at stream start / handler_reset_timed,
    connected vs disconnected vs connecting, context-wide handlers, negotiation gate, timed scripts"""
    rng = chk.rng
    cases = []
    for P in (0, 1, 2, 100, 15000):
        for step in sorted({max(P - 1, 0), P, P + 1}):
            for kind, cb in (("t", 100), ("g", 200)):
                d = "def 0 %s %d %d 0%s" % (kind, P, cb, " u" if kind == "t" else "")
                for runop in ("fire", "run", "run2"):
                    cases.append(("%s;add 0;clock %d;%s;clock %d;%s;clock 1;%s" % (d, step, runop, step, runop, runop), "timed-boundary"))
                    cases.append(("%s;add 0;clock %d;state d;%s;state c;%s" % (d, step, runop, runop), "timed-disconnected"))
                    cases.append(("%s;add 0;clock %d;state g;%s;clock %d;%s" % (d, step, runop, P, runop), "timed-connecting"))
                    cases.append(("%s;add 0;clock %d;neg 0;%s;neg 1;%s" % (d, step, runop, runop), "timed-gated"))
                    cases.append(("def 0 %s %d %d 0 y;add 0;clock %d;neg 0;%s" % (kind if kind == "t" else "t", P, 100, step, runop), "timed-system-ungated"))
                    # re-arm: stream start, reset(all), reset(user only) on a system handler
                    for rearm in ("open", "reset 0", "reset 1"):
                        cases.append(("%s;add 0;clock %d;%s;clock %d;%s;clock 1;%s" % (d, max(P - 1, 0), rearm, max(P - 1, 0), runop, runop), "timed-rearm"))
                    cases.append(("def 0 t %d 100 0 y;add 0;clock %d;reset 1;clock 1;%s" % (P, max(P - 1, 0), runop), "timed-rearm"))
    # timed scripts
    acts = ["add:1", "add:2", "add:0", "delt:101", "delt:102", "send:x", "add:3", "delg:200", "add:4"]
    for _ in range(6000 if chk.tier == "thorough" else 1500):
        parts = ["def 0 t %d 100 0 u" % rng.choice([0, 10]), "def 1 t %d 101 0 %s" % (rng.choice([0, 10]), rng.choice("uy")),
                 "def 2 t %d 102 0 u" % rng.choice([0, 10, 20]), "def 3 g %d 200 0" % rng.choice([0, 10]),
                 "def 4 s - - - 0 0 u"]
        for cb in (100, 101, 102, 200):
            own = "del%s:%d" % ("g" if cb == 200 else "t", cb)
            ents = []
            for _ in range(rng.randint(1, 2)):
                al = [a for a in (rng.choice(acts) for _ in range(rng.choice((0, 1, 2)))) if a != own]
                ents.append("%d%s" % (rng.choice((1, 1, 0)), (":" + ",".join(al)) if al else ""))
            parts.append("beh %d 0 %s" % (cb, "/".join(ents)))
        for k in rng.sample(range(4), rng.randint(1, 4)):
            parts.append("add %d" % k)
        for _ in range(rng.randint(2, 6)):
            parts.append("clock %d" % rng.choice([0, 9, 10, 11, 20]))
            parts.append(rng.choice(["fire", "run", "run2", "run"]))
            if rng.random() < 0.15:
                parts.append(rng.choice(["state d", "state c", "neg 0", "neg 1", "st iq - - - -"]))
        cases.append((";".join(parts), "timed-script"))
    # slow callbacks: the virtual clock advances inside a callback (clk:<ms>), so the handlers served later in the
    # same pass really run later; each must be stamped with the time at which it ran and tested against that time
    cases.append(("def 0 t 1000 100 0 u;def 1 t 2000 101 0 u;beh 101 0 1:clk:600;add 0;add 1;clock 1000;fire;clock 1000;fire;"
                  "clock 400;fire;clock 600;fire;clock 400;fire", "timed-slow"))
    cases.append(("def 0 g 1000 200 0;def 1 t 2000 101 0 u;beh 101 0 1:clk:600;add 0;add 1;clock 2000;run;clock 400;run;clock 600;run", "timed-slow"))
    cases.append(("def 0 t 10 100 0 u;def 1 t 10 101 0 u;beh 101 0 1:clk:10;add 0;add 1;clock 5;run;clock 5;run;clock 5;run;clock 5;run", "timed-slow"))
    for _ in range(8000 if chk.tier == "thorough" else 1500):
        n = rng.randint(2, 4)
        base = rng.choice([10, 20, 1000])
        parts = []
        for k in range(n):
            kind = rng.choice("tttg")
            P = rng.choice([base, base, 2 * base, base // 2, 0])
            if kind == "t":
                parts.append("def %d t %d %d 0 %s" % (k, P, 100 + k, rng.choice("uuy")))
            else:
                parts.append("def %d g %d %d 0" % (k, P, 200 + k))
            cbid = (100 if kind == "t" else 200) + k
            ents = []
            for _ in range(rng.randint(1, 2)):
                al = []
                if rng.random() < 0.7:
                    al.append("clk:%d" % rng.choice([1, base // 2, base * 6 // 10, base, base + 1]))
                if rng.random() < 0.15:
                    al.append("add:%d" % rng.randrange(n))
                ents.append("%d%s" % (rng.choice((1, 1, 1, 0)), (":" + ",".join(al)) if al else ""))
            parts.append("beh %d 0 %s" % (cbid, "/".join(ents)))
        order = list(range(n))
        rng.shuffle(order)
        parts += ["add %d" % k for k in order]
        for _ in range(rng.randint(3, 8)):
            parts.append("clock %d" % rng.choice([0, 1, base // 2, base * 4 // 10, base - 1, base, base + 1, 2 * base]))
            parts.append(rng.choice(["fire", "run", "run2"]))
            if rng.random() < 0.08:
                parts.append(rng.choice(["open", "reset 0", "state d", "state c"]))
        cases.append((";".join(parts), "timed-slow"))
    # slow stanza / id callbacks between timed passes
    for _ in range(1000 if chk.tier == "thorough" else 150):
        P = rng.choice([10, 20])
        parts = ["def 0 t %d 100 0 u" % P, "def 1 s - - - 0 0 u", "def 2 i q1 1 0 u", "def 3 t %d 101 0 u" % P,
                 "beh 0 0 1:clk:%d" % rng.choice([1, 5, 10]), "beh 1 0 1:clk:%d,add:3" % rng.choice([1, 5, 10]),
                 "beh 101 0 1:clk:%d" % rng.choice([0, 3, 6]), "add 0", "add 1", "add 2"]
        for _ in range(rng.randint(3, 7)):
            parts.append(rng.choice(["st iq - - q1 -", "st iq - - - -", "clock %d" % rng.choice([1, 5, 9, 10, 11]), "run", "fire"]))
        cases.append((";".join(parts), "timed-slow"))
    return cases


def gen_special(chk):
    """duplicates, same callback / different userdata, deletion by callback, gating, item 15 shapes"""
    c = []
    # duplicate registration (different filter, same callback + userdata) is ignored; different userdata is kept
    c.append(("def 0 s n1 - - 0 0 u;def 1 s - - - 0 0 u;def 2 s - - - 0 1 u;add 0;add 1;add 2;add 0;st iq - - - -;st iq n1 - - -", "duplicate"))
    c.append(("def 0 i q1 0 0 u;def 1 i q1 0 0 u;def 2 i q2 0 0 u;def 3 i q1 0 1 u;add 0;add 1;add 2;add 3;st iq - - q1 -;st iq - - q2 -", "duplicate"))
    c.append(("def 0 t 10 100 0 u;def 1 t 20 100 0 u;def 2 t 10 100 1 u;add 0;clock 5;add 1;add 2;clock 5;run;clock 5;run", "duplicate"))
    c.append(("def 0 g 10 200 0;def 1 g 20 200 0;add 0;clock 5;add 1;clock 5;run;clock 5;run", "duplicate"))
    # delete by callback removes every userdata; deleted handlers stay deleted; re-registration is a new handler
    c.append(("def 0 s - - - 0 0 u;def 1 s - - - 0 1 u;def 2 s - - - 1 0 u;add 0;add 1;add 2;st a - - - -;dels 0;st a - - - -;add 0;st a - - - -", "delete"))
    c.append(("def 0 s - - - 0 0 u;beh 0 0 0;add 0;st a - - - -;st a - - - -;add 0;st a - - - -;st a - - - -", "one-shot"))
    # delete by callback, every list kind, several userdata, first / middle / last position, also from inside a dispatch
    c.append(("def 0 s - - - 1 0 u;def 1 s - - - 0 0 u;def 2 s - - - 0 1 u;def 3 s - - - 2 0 u;def 4 s - - - 0 2 u;add 0;add 1;add 2;add 3;add 4;dels 0;st a - - - -", "delete"))
    c.append(("def 0 i q1 0 0 u;def 1 i q1 0 1 u;def 2 i q1 1 0 u;def 3 i q2 0 0 u;add 0;add 1;add 2;add 3;deli 0 q1;st a - - q1 -;st a - - q2 -", "delete"))
    c.append(("def 0 i q1 1 0 u;def 1 i q1 0 1 u;def 2 i q1 0 2 u;add 0;add 1;add 2;deli 0 q1;st a - - q1 -", "delete"))
    c.append(("def 0 t 0 100 0 u;def 1 t 0 100 1 u;def 2 t 0 101 0 u;def 3 t 0 100 2 u;add 0;add 1;add 2;add 3;delt 100;run", "delete"))
    c.append(("def 0 g 0 200 0;def 1 g 0 200 1;def 2 g 0 201 0;add 0;add 1;add 2;delg 200;run", "delete"))
    c.append(("beh 2 0 1:dels:0;def 0 s - - - 0 0 u;def 1 s - - - 0 1 u;def 2 s - - - 2 0 u;def 3 s - - - 0 2 u;add 2;add 0;add 1;add 3;st a - - - -;st a - - - -", "delete"))
    c.append(("beh 2 0 1:deli:0:q1;def 0 i q1 0 0 u;def 1 i q1 0 1 u;def 2 i q1 2 0 u;def 3 i q1 0 2 u;add 0;add 2;add 1;add 3;st a - - q1 -;st a - - q1 -", "delete"))
    c.append(("beh 102 0 1:delt:100;def 0 t 0 100 0 u;def 1 t 0 100 1 u;def 2 t 0 102 0 u;add 0;add 1;add 2;run;run", "delete"))
    # gating
    c.append(("def 0 s - - - 0 0 u;def 1 s - - - 1 0 y;def 2 i q1 2 0 u;def 3 i q1 3 0 y;add 0;add 1;add 2;add 3;neg 0;st iq - - q1 -;neg 1;st iq - - q1 -", "gate"))
    # item 15 (a): a stanza handler added from an id handler must not see the stanza being dispatched
    c.append(("beh 0 0 1:add:1;def 0 i q1 0 0 u;def 1 s - - - 1 0 u;add 0;st iq - - q1 -;st iq - - q2 -", "item15-blind"))
    c.append(("beh 0 0 0:add:1;def 0 i q1 0 0 y;def 1 s - iq - 1 0 y;add 0;open;fst iq n1 get q1 -;fst iq n1 get q1 -", "item15-blind"))
    # item 15 (b): an id handler deletes the first handler of its list, a later one is one-shot
    c.append(("def 0 i q1 0 0 u;def 1 i q1 1 0 u;def 2 i q1 2 0 u;beh 1 0 1:deli:0:q1;beh 2 0 0;add 0;add 1;add 2;st iq - - q1 -;st iq - - q1 -", "item15-stale-head"))
    c.append(("def 0 i q1 0 0 u;def 1 i q1 1 0 u;beh 1 0 0:deli:0:q1;add 0;add 1;st iq - - q1 -;st iq - - q1 -", "item15-stale-head"))
    # added during the name pass / same id during the id pass / deletes of next, previous, first
    c.append(("beh 0 0 1:add:1;def 0 s - - - 0 0 u;def 1 s - - - 1 0 u;add 0;st a - - - -;st a - - - -", "blind"))
    c.append(("beh 0 0 1:add:1;def 0 i q1 0 0 u;def 1 i q1 1 0 u;add 0;st a - - q1 -;st a - - q1 -", "blind"))
    c.append(("beh 0 0 1:dels:1;def 0 s - - - 0 0 u;def 1 s - - - 1 0 u;def 2 s - - - 2 0 u;add 0;add 1;add 2;st a - - - -;st a - - - -", "delete-next"))
    c.append(("beh 1 0 1:dels:0;def 0 s - - - 0 0 u;def 1 s - - - 1 0 u;def 2 s - - - 2 0 u;add 0;add 1;add 2;st a - - - -;st a - - - -", "delete-prev"))
    c.append(("beh 2 0 0:dels:0,dels:1;def 0 s - - - 0 0 u;def 1 s - - - 1 0 u;def 2 s - - - 2 0 u;add 0;add 1;add 2;st a - - - -;st a - - - -", "delete-prev"))
    c.append(("beh 0 0 1:dels:1,add:1;def 0 s - - - 0 0 u;def 1 s - - - 1 0 u;add 0;add 1;st a - - - -;st a - - - -", "delete-readd"))
    return c


def gen_uaf(chk):
    """outside the property's quantifier (a handler deletes itself): used only to validate that the model's freed-item
    tracking agrees with ASan"""
    c = []
    for ret in (0, 1):
        c.append(("beh 0 0 %d:dels:0;def 0 s - - - 0 0 u;add 0;st a - - - -" % ret, "uaf"))
        c.append(("beh 0 0 %d:deli:0:q1;def 0 i q1 0 0 u;add 0;st a - - q1 -" % ret, "uaf"))
        c.append(("beh 100 0 %d:delt:100;def 0 t 0 100 0 u;add 0;fire" % ret, "uaf"))
        c.append(("beh 200 0 %d:delg:200;def 0 g 0 200 0;add 0;fire" % ret, "uaf"))
        c.append(("beh 0 0 %d:dels:0;def 0 s - - - 0 0 u;def 1 s - - - 0 1 u;add 1;add 0;st a - - - -" % ret, "uaf"))
    # an id handler deleting the same callback under another id, or a stanza handler deleting an id handler
    # with its own callback, is not self-deletion
    c.append(("beh 0 0 1:deli:0:q2;def 0 i q1 0 0 u;def 1 i q2 0 0 u;add 0;add 1;st a - - q1 -;st a - - q2 -", "not-self"))
    c.append(("beh 0 0 1:deli:0:q1;def 0 s - - - 0 0 u;def 1 i q1 0 0 u;add 0;add 1;st a - - q2 -;st a - - q1 -", "not-self"))
    return c


def load_corpus():
    p = os.path.join(vlib.ROOT, "corpus", "C11.txt")
    if not os.path.exists(p):
        return []
    return [l.strip() for l in open(p) if l.strip() and not l.startswith("#")]


def build_impl_driver():
    return vlib.build_c_driver("c11", [os.path.join(vlib.ROOT, "harness", "c", "c11_driver.c")], extra_ldflags=LDWRAP)


CRASH_UAF = re.compile(r"heap-use-after-free|double-free")


def same(impl, model):
    """correspondence after canonicalisation: an ASan use-after-free / double free == the model's UAF / DoubleFree"""
    if impl.startswith("CRASH"):
        return bool(CRASH_UAF.search(impl)) and (model.endswith("UAF") or model.endswith("DoubleFree"))
    return impl == model


def judge(chk, line, kind, impl, model):
    chk.evaluations += 1
    chk.count(kind)
    exp, unspec, ninv = oracle(line)
    if ninv > 0:
        chk.nontrivial.add(line)
    if unspec:
        chk.count("outside-quantifier(self-delete)")
    elif impl.startswith("CRASH"):
        chk.fail(line, "dispatch of handlers that delete only other handlers crashed: %s" % impl[:200])
    else:
        got = strip_dump(impl)
        if got != exp:
            chk.fail(line, "handler invocations differ from the property: got %r, property demands %r" % (got[:300], exp[:300]))
    if model is not None:
        chk.traces_validated += 1
        if not same(impl, model):
            chk.disagree("handlers", line, impl[:400], model[:400])


def run(chk):
    chk.rule = ("corpus; filter matching: all 27 ns/name/type filters (incl. NULL) x all stanzas of a 3x4x4x8 vocabulary "
                "(child-namespace matches, text children; direct and through the real parser), id filters; scripts: all "
                "behaviours (return 0/1, <=2 actions of {add stanza/id/timed handler, re-add, delete an other handler, send}) "
                "over 2 handlers x 2 stanzas and <=1 action over 3 handlers x 3 stanzas (thorough: exhaustive; quick: 3000 "
                "sampled each) plus sampled 3x2x3; random larger programs (<=6 definitions of all kinds, duplicates, same "
                "callback/different userdata, system handlers, per-call behaviours, neg/state toggles, sysdel, re-arm); timed: "
                "periods 0/1/2/100/15000 with clock steps period-1/period/period+1, re-arm by stream start and "
                "handler_reset_timed, disconnected/connecting/connected, context-wide, gating, timed scripts, slow callbacks "
                "(clock advancing inside a callback, periods around the delays); self-deleting "
                "handlers for UAF tracking. non-trivial = distinct scenario with at least one handler invocation")
    chk.assumptions = [
        "C11 model: one connection per context; callbacks are scripted (return value + add/delete/send actions) and cannot "
        "change conn->state or stream_negotiation_completed inside a dispatch; the clock moves inside a pass only through the "
        "scripted `clk` action of a callback and never runs backwards (time_elapsed is an unsigned subtraction)",
        "C11 driver pokes conn->state / stream_negotiation_completed / sm_state directly (common.h), select/send/gettimeofday "
        "are ld --wrap stand-ins; ASan decides use-after-free",
        "C11 oracle: independent Python statement over the registration history; order of timed handlers inside one pass "
        "(most recently registered first) is taken from the implementation, the property only fixes which ones fire",
    ]
    chk.prove()
    exe = build_impl_driver()
    thorough = chk.tier == "thorough"
    cases = [(c, "corpus") for c in load_corpus()]
    cases += gen_special(chk)
    cases += gen_match(chk)
    cases += gen_scripts(chk)
    cases += gen_timed(chk)
    cases += gen_random(chk, 150000 if thorough else 6000)
    uaf = gen_uaf(chk)
    lines = [c for c, _ in cases]
    impl = vlib.run_parallel(exe, lines, batch=500)
    impl_u = vlib.run_lines(exe, [c for c, _ in uaf], batch=1)
    model = model_u = None
    try:
        mexe = vlib.build_ocaml_model("C11")
        model = vlib.run_parallel(mexe, lines)
        model_u = vlib.run_lines(mexe, [c for c, _ in uaf])
    except vlib.BuildError as e:
        chk.broken.append({"kind": "extract", "name": "Extract_C11", "detail": str(e)[:500]})
    for i, (line, kind) in enumerate(cases):
        judge(chk, line, kind, impl[i], model[i] if model else None)
        if i % 1499 == 0:
            chk.sample({"input": line[:300], "impl": impl[i][:300], "model": (model[i][:300] if model else None)})
    for i, (line, kind) in enumerate(uaf):
        judge(chk, line, kind, impl_u[i], model_u[i] if model_u else None)
    chk.extra["crashes"] = sum(1 for o in impl + impl_u if o.startswith("CRASH"))


def replay(path):
    rec = json.load(open(path))
    f = rec.get("failure") or (rec.get("disagreements") or [{}])[0]
    case = f.get("case")
    if not case:
        print("replay file names no concrete input: %s" % json.dumps(rec.get("broken_obligations"))[:500])
        return 1
    exe = build_impl_driver()
    impl = vlib.run_lines(exe, [case], batch=1)[0]
    try:
        model = vlib.run_lines(vlib.build_ocaml_model("C11"), [case])[0]
    except vlib.BuildError:
        model = "(model unavailable)"
    exp, unspec, _ = oracle(case)
    print("input   : %s\nimpl    : %s\nmodel   : %s\nproperty: %s%s" % (case, impl, model, exp, "  (then unspecified: self-deletion)" if unspec else ""))
    ok = unspec or (not impl.startswith("CRASH") and strip_dump(impl) == exp)
    return 0 if ok else 1
