"""C12 - Every object is freed exactly once; references keep objects alive.

Three layers (DESIGN.md section 3):
  1. theorems of coq/Properties/Properties_C12.v (explicit heap model of the stanza object graph: ref-count
     invariant, no use-after-free / double free / non-termination for every well-owned program, empty heap when
     the last handle is released; abstract ownership model of connection-lifetime objects: single owner of an SM
     state, connection ref-count) - recompiled on every run;
  2. correspondence: the extracted model and the ASan build of /repo's working tree run the same stanza API
     programs (checks/c12stanza.py), and the abstract connection model and the simulated world run the same
     conn / clone / release / get_sm / set_sm / free_sm programs (stream "handover" below);
  3. property oracle on the implementation: a reference interpreter of "live <=> referenced" for the stanza
     programs; the tracking allocator of the simulated world (END live=0 allocerr=0 fds balanced, no CRASH)
     for connection scenarios (checks/c12conn.py) incl. allocation-failure injection.

Case strings:  "PROG <stanza program>"  |  "SIM <simworld line>"  |  "CONN <abstract connection program>".
"""
import json
import os
import re

import vlib
import c12stanza
import c12conn

KNOWN_EXPAT = "C12-expat-single-context-allocator"
KNOWN_EXPAT_ENTRY = {
    "property": "C12", "id": KNOWN_EXPAT, "status": "known", "always_report": False,
    "what": "expat's allocations go through the user-supplied allocator only for the first context created in the "
            "process (src/parser_expat.c keeps one static mem_ctx because expat's memory suite has no userdata); "
            "parsers of every other context use the C library's malloc",
    "class": "a process that creates a second xmpp_ctx_t and parses with it",
    "witness": "the same negotiation scenario twice in one simworld process: the second run performs fewer calls of "
               "the context's allocator (allocfail n that fires in the first run never fires in the second)",
}

# --------------------------------------------------------------------------------------------------
# stream "handover": abstract connection programs, model vs simulated world
# --------------------------------------------------------------------------------------------------
# ops: new | clone c | release c | connect c | disc c | getsm c | setsm c | freesm
# The user-level state kept here mirrors what a caller knows: which connection objects it holds how many
# references to, and whether it holds an SM state (simworld keeps at most one held state: `held_sm`).
H = lambda s: s.encode().hex()
HDR = "<stream:stream xmlns='jabber:client' xmlns:stream='http://etherx.jabber.org/streams' id='s1' from='example.com' version='1.0'>"


def gen_handover(rng, nops):
    ops = []
    refs = []          # refs[c] = user references on connection c
    up = []            # connected?
    has_sm = []        # conn->sm_state set?
    held = None        # model id of the SM state held by the user
    nsm = 0
    smid = []          # model SM id per connection
    for _ in range(nops):
        live = [c for c in range(len(refs)) if refs[c] > 0]
        choices = ["new"] if len(refs) < 4 else []
        if live:
            choices += ["clone", "release", "release", "connect", "connect", "disc", "getsm", "getsm", "setsm", "send"]
        if held is not None:
            choices += ["freesm", "setsm", "setsm"]
        if not choices:
            break
        k = rng.choice(choices)
        if k == "new":
            refs.append(1); up.append(False); has_sm.append(False); smid.append(None)
            ops.append(("new",))
            continue
        if k == "freesm":
            if held is None:
                continue
            ops.append(("freesm", held)); held = None
            continue
        c = rng.choice(live) if live else None
        if c is None:
            continue
        if k == "clone":
            refs[c] += 1; ops.append(("clone", c))
        elif k == "release":
            refs[c] -= 1; ops.append(("release", c))
            if refs[c] == 0:
                up[c] = False; has_sm[c] = False
        elif k == "connect":
            if up[c]:
                continue           # xmpp_connect_client on a live connection: refused by the library, nothing to compare
            up[c] = True
            if not has_sm[c]:
                has_sm[c] = True; smid[c] = nsm; nsm += 1
            ops.append(("connect", c))
        elif k == "disc":
            if not up[c]:
                continue
            up[c] = False; ops.append(("disc", c))
        elif k == "send":
            if not up[c]:
                continue
            ops.append(("send", c))
        elif k == "getsm":
            if held is not None:
                continue           # simworld holds one state at a time
            ops.append(("getsm", c))
            if not up[c] and has_sm[c]:
                held = smid[c]; has_sm[c] = False
        elif k == "setsm":
            if held is None:
                continue
            ops.append(("setsm", c, held))
            if not up[c] and not has_sm[c]:
                has_sm[c] = True; smid[c] = held; held = None
    return ops


def handover_model_line(ops):
    out = []
    for o in ops:
        out.append(" ".join(str(x) for x in o))
    return ";".join(out)


def handover_sim_line(ops):
    cmds = []
    n = 0
    for o in ops:
        k = o[0]
        if k == "new":
            cmds += ["conn", "jid " + H("user@example.com/res"), "pass " + H("secret")]
            n += 1
            continue
        c = o[1] if k != "freesm" else None
        if c is not None:
            cmds.append("use %d" % c)
        if k == "clone":
            cmds.append("clone")
        elif k == "release":
            cmds.append("release")
        elif k == "connect":
            cmds += ["connect client", "run", "rx " + H(HDR), "run"]
        elif k == "disc":
            cmds += ["rxreset", "run"]
        elif k == "send":
            cmds.append("send " + H("<message id='u'/>"))
        elif k == "getsm":
            cmds.append("getsm")
        elif k == "setsm":
            cmds.append("setsm")
        elif k == "freesm":
            cmds.append("freesm")
    return ";".join(cmds)


def handover_canon_impl(trace):
    """REL / GETSM / SETSM verdicts and the final allocator line."""
    toks = re.findall(r"REL=\d|GETSM=\d|SETSM=-?\d+|SETSM=none|END live=\d+ allocerr=\d+", trace)
    out = []
    for t in toks:
        if t.startswith("SETSM="):
            out.append("SETSM=ok" if t == "SETSM=0" else "SETSM=refused")
        elif t.startswith("END"):
            out.append(t)
        else:
            out.append(t)
    return " ".join(out)


def run_handover(chk, exe_sim, mexe):
    n = 300 if chk.tier == "quick" else 4000
    progs = [gen_handover(chk.rng, chk.rng.randrange(4, 30)) for _ in range(n)]
    # hand-made: state taken and never set (freed at the end), set into an object that has one, taken while connected
    progs += [[("new",), ("connect", 0), ("disc", 0), ("getsm", 0), ("new",), ("setsm", 1, 0), ("release", 0), ("connect", 1), ("disc", 1), ("release", 1)],
              [("new",), ("connect", 0), ("getsm", 0), ("disc", 0), ("getsm", 0), ("release", 0)],
              [("new",), ("new",), ("connect", 0), ("connect", 1), ("disc", 0), ("disc", 1), ("getsm", 0), ("setsm", 1, 0), ("freesm", 0), ("release", 1), ("release", 0)],
              [("new",), ("clone", 0), ("release", 0), ("connect", 0), ("send", 0), ("release", 0)]]
    sim_lines = [handover_sim_line(p) for p in progs]
    mod_lines = ["CONN " + handover_model_line(p) for p in progs]
    impl = c12conn.run_each(exe_sim, sim_lines)
    model = vlib.run_parallel(mexe, mod_lines) if mexe else None
    bad = 0
    for i, p in enumerate(progs):
        chk.evaluations += 1
        chk.count("handover")
        if any(o[0] in ("getsm", "setsm") for o in p):
            chk.nontrivial.add(mod_lines[i])
        ci = handover_canon_impl(impl[i]) if not impl[i].startswith("CRASH") else impl[i]
        # oracle: everything returned to the allocator, nothing freed twice
        if impl[i].startswith("CRASH") or not ci.endswith("END live=0 allocerr=0"):
            bad += 1
            if bad <= 5:
                chk.fail("SIM " + sim_lines[i], "connection / SM-state hand-over program: " + (ci[-200:] or "no END line"),
                         stream="handover", extra={"program": mod_lines[i]})
        if model is not None:
            chk.traces_validated += 1
            if model[i] != ci:
                chk.disagree("handover", mod_lines[i] + "   [SIM " + sim_lines[i][:300] + "]", ci, model[i])
        if i % 97 == 0:
            chk.sample({"input": mod_lines[i], "impl": ci, "model": model[i] if model else None})


# --------------------------------------------------------------------------------------------------
# expat and the second context (known limitation of parser_expat.c)
# --------------------------------------------------------------------------------------------------
def run_expat_second_context(chk, exe_sim):
    """The same scenario twice in one process: allocation-failure injection that fires in the first context must
    also fire in the second one if every allocation goes through the context's allocator."""
    sc = c12conn.Sc if hasattr(c12conn, "Sc") else None
    base = ("conn;jid %s;pass %s;connect client;run;rx %s;run;rx %s;run;rxclose;run;release"
            % (H("user@example.com/res"), H("secret"), H(HDR),
               H("<stream:features><mechanisms xmlns='urn:ietf:params:xml:ns:xmpp-sasl'><mechanism>PLAIN</mechanism></mechanisms></stream:features>")))
    plain = vlib.run_lines(exe_sim, [base, base])
    if any(o is None or o.startswith("CRASH") for o in plain):
        return
    # find an n that fires late (inside the parser's work) in a fresh process
    lo = None
    for n in range(400, 40, -20):
        line = base.replace("conn;", "conn;allocfail %d;" % n, 1)
        first = vlib.run_lines(exe_sim, [line])[0]
        if first != plain[0]:
            lo = n
            break
    if lo is None:
        return
    line = base.replace("conn;", "conn;allocfail %d;" % lo, 1)
    two = vlib.run_lines(exe_sim, [base, line])
    chk.evaluations += 1
    chk.count("expat-second-context")
    if two[1] == plain[1]:
        chk.fail("SIM " + line, "allocation #%d fails in the first context of a process but is never requested from the "
                 "allocator of the second context: expat's blocks bypass the user-supplied allocator there" % lo,
                 stream="allocator-bypass", extra={"cls": "expat-second-context"})


KNOWN_OOM = [
    {"property": "C12", "id": "C12-oom-leak", "status": "known", "always_report": False,
     "what": "blocks leaked when an allocation fails (connection set-up / negotiation paths of conn.c, auth.c, handler.c)",
     "class": "a scenario that passes without allocfail and, with allocfail n, ends with live>0, no CRASH, allocerr=0, descriptors balanced",
     "witness": "checks/c12conn.py stream 3 (about 2 % of the injection points of a full negotiation)"},
    {"property": "C12", "id": "C12-oom-crash", "status": "known", "always_report": False,
     "what": "NULL dereference when an allocation fails (results of hash_iter_new / strophe_strdup / xmpp_stanza_new used unchecked in "
             "stanza.c, hash.c, auth.c, conn.c)",
     "class": "a program / scenario that passes without allocfail and, with allocfail n, dies with a NULL-pointer report (UBSan null "
              "member access or SEGV on the zero page); heap-use-after-free and double free are NOT in the class",
     "witness": "allocfail 2;new 0;setname 0 61;setattr 0 6b 76;totext 0  (hash_iter_next(NULL) in _render_stanza_recursive)"},
]


def register_known(chk):
    for e in KNOWN_OOM:
        if not any(k.get("id") == e["id"] for k in chk.known):
            chk.known.append(dict(e))
    c12stanza.register_known(chk)
    c12conn.register_known(chk)
    chk.known_preds[KNOWN_EXPAT] = lambda rec: rec.get("cls") == "expat-second-context"
    if not any(k.get("id") == KNOWN_EXPAT for k in chk.known):
        chk.known.append(dict(KNOWN_EXPAT_ENTRY))


# --------------------------------------------------------------------------------------------------
def run(chk):
    chk.rule = (c12stanza.RULE + " || connection streams: negsim corpus + random negotiation scenarios, every negotiation stage x "
                "every teardown (close, reset, stream error, time-out, xmpp_disconnect, release while up), SCRAM exchanges pending at "
                "teardown, compression on, SM state moved between connection objects (get/set/free, restore of captured blobs), "
                "xmpp_conn_clone/release interleaved with connects, SRV lookups whose DNS answer is partly malformed (good record before / after a record with an undecodable owner or target name, truncation at every offset, lying rdlength / ancount), xmpp_conn_send_queue_drop_element with stream management on and the transport blocked (oldest / youngest, with and without the linked <r/>, partially written head), judged by the tracking allocator (END live=0 allocerr=0 fds "
                "balanced, no CRASH); allocation-failure injection allocfail n for n = 1..N at fixed sessions; "
                "handover: random conn/clone/release/connect/disconnect/get_sm/set_sm/free_sm programs, abstract model vs simulated world")
    chk.assumptions = list(c12stanza.ASSUMPTIONS) + [
        "PARTIAL: allocations owned by auth.c temporaries, expat, zlib, the resolver and the fake TLS layer are exercised by the connection "
        "scenarios under the tracking allocator + ASan, not proved; OpenSSL is not linked into the simulated world",
        "the abstract connection model (queue elements, handler items with library-owned userdata, SM state) is tied to conn.c/handler.c only by "
        "the REL/GETSM/SETSM verdicts of the handover stream and by the allocator's END line, not step by step",
        "well-owned stanza programs: add_child[_ex] only with a child that has no parent and is not an ancestor of the new parent (xmpp_stanza_copy's "
        "documentation: a stanza taken from another tree must be copied first)",
        "leaks and NULL dereferences on allocation-failure paths are recorded as known classes (C12-oom-leak, C12-oom-crash), double frees / "
        "use-after-free on those paths are violations",
    ]
    register_known(chk)
    chk.prove()
    st = c12stanza.run_stanza_stream(chk)
    chk.extra["stanza"] = st
    cs = c12conn.run_conn_streams(chk)
    chk.extra["conn"] = cs
    exe_sim = vlib.build_simworld()
    mexe = None
    try:
        mexe = vlib.build_ocaml_model("C12")
    except vlib.BuildError as e:
        if not any(b.get("kind") == "extract" for b in chk.broken):
            chk.broken.append({"kind": "extract", "name": "Extract_C12", "detail": str(e)[:500]})
    run_handover(chk, exe_sim, mexe)
    run_expat_second_context(chk, exe_sim)
    run_helpers(chk)


def run_helpers(chk):
    """Every public helper that returns an allocated result (base64, SHA-1 text, JID parts, UUID), on empty, short, boundary and
    malformed arguments, under the tracking allocator; the result is given back with xmpp_free().  Implementation only:
    a block that does not come from the context's allocator, a leak or a double free is a violation of C12."""
    exe = c12stanza.build_impl_driver()
    rng = chk.rng
    args = ["-", "00".replace("00", "41"), H("QQ=="), H("QUJD"), H("QUI="), H("Q"), H("!!!!"), H("a@b/c"), H("@b"), H("a@"), H("/r"), H("b"),
            H("a@b/c/d@e"), H("x" * 1023), H("x" * 1024), H("x" * 3000)]
    args += [rng.randbytes(rng.randrange(1, 80)).replace(b"\0", b"a").hex() for _ in range(20 if chk.tier == "quick" else 400)]
    lines = []
    for k in range(11):
        for a in args:
            lines.append("helper %d %s" % (k, a))
    for _ in range(30 if chk.tier == "quick" else 600):
        lines.append(";".join("helper %d %s" % (rng.randrange(11), rng.choice(args)) for _j in range(rng.randrange(2, 12))))
    outs = vlib.run_parallel(exe, lines)
    for line, out in zip(lines, outs):
        chk.evaluations += 1
        chk.count("helpers")
        chk.nontrivial.add(line)
        if out.startswith("CRASH") or "ALLOCERR" in out or not out.endswith("END live=0 blocks=0"):
            chk.fail("PROG " + line, "allocating helper: %s" % out[-200:], stream="helpers")


def replay(path):
    rec = json.load(open(path))
    f = rec.get("failure") or (rec.get("disagreements") or [{}])[0]
    case = f.get("case")
    if not case:
        print("replay file names no concrete input: %s" % json.dumps(rec.get("broken_obligations"))[:800])
        return 1
    if case.startswith("PROG ") and "helper " in case:
        out = vlib.run_lines(c12stanza.build_impl_driver(), [case[5:]])[0]
        bad = out.startswith("CRASH") or "ALLOCERR" in out or not out.endswith("END live=0 blocks=0")
        print("program : %s\nimpl    : %s\nproperty: %s" % (case[5:], out, "FAILS (foreign / double free or leak)" if bad else "holds"))
        return 1 if bad else 0
    if case.startswith("PROG "):
        return c12stanza.replay_stanza(case[5:])
    if case.startswith("SIM "):
        return c12conn.replay_conn(case[4:])
    if case.startswith("CONN "):
        exe_sim = vlib.build_simworld()
        prog = case[5:].split("   [SIM ")[0]
        ops = [tuple(int(x) if x.isdigit() else x for x in o.split()) for o in prog.split(";") if o]
        sim = handover_sim_line(ops)
        impl = c12conn.run_each(exe_sim, [sim])[0]
        try:
            model = vlib.run_lines(vlib.build_ocaml_model("C12"), ["CONN " + prog])[0]
        except vlib.BuildError:
            model = "(model unavailable)"
        ci = handover_canon_impl(impl)
        print("program : %s\nsim line: %s\nimpl    : %s\nmodel   : %s" % (prog, sim, ci, model))
        return 0 if (ci.endswith("END live=0 allocerr=0") and ci == model) else 1
    print("unknown case kind: %s" % case[:80])
    return 1
