"""C13 - Connection lifecycle: one outcome per attempt, consistent state, bounded waits."""
import negsim


def run(chk):
    negsim.run_check(chk, "C13", [("deadlines", negsim.deadline_scenarios), ("flags", negsim.flag_scenarios), ("refused-call", negsim.refused_call_scenarios)], 500)


def replay(path):
    return negsim.replay_common("C13", path)
