"""C14 - Server discovery tries every candidate in SRV order before giving up.

Scenarios for the simulated world (harness/c/simworld.c, see harness/SIMWORLD.md):
  conn;jid <hex>;[pass <hex>;][flags <n>;]srv fail|<hex DNS answer>;gai <host> <n>|fail;...;ep b0,b1,...;
  connect client|raw|component [host|-] [port];run;clock <ms>;run;...;is
The same line is given to the extracted model (harness/ocaml/c14_driver.ml); both traces are brought to
one canonical vocabulary and compared (correspondence).  The property oracle below is independent of
the model: it recomputes the candidate order from the scenario's own records (priority ascending, then
weight descending; the order among records with equal priority and weight is left free) and checks the
property statements on the implementation's trace.
"""
import itertools
import json
import os
import re

import vlib

T0 = 1000000            # virtual clock at the start of a scenario (simworld)
TIMEOUT = 5000          # documented connect time-out in ms
PORT_CLIENT, PORT_LEGACY, PORT_COMPONENT = 5222, 5223, 5347
FLAG_DISABLE_TLS, FLAG_MANDATORY_TLS, FLAG_LEGACY_SSL, FLAG_TRUST_TLS = 1, 2, 4, 8
BEHS = ("refuse", "late", "hang", "accept")


def hx(s):
    if isinstance(s, str):
        s = s.encode()
    return s.hex() if s else "-"


def host_hash(h):
    v = 0
    for c in h.encode():
        v = (v * 31 + c) & 0xffffffff
    return v & 255


# ------------------------------------------------------------------------------------------
# DNS answer encoder (RFC 1035 / RFC 2782)
# ------------------------------------------------------------------------------------------
def dns_name(name):
    out = b""
    for lab in [l for l in name.split(".") if l]:
        out += bytes([len(lab)]) + lab.encode()
    return out + b"\0"


def dns_srv_answer(domain, records, compress_owner=True, compress_target=False, extra_cname=False, ident=0x1234):
    """records: list of (priority, weight, port, target) in answer order."""
    qname = "_xmpp-client._tcp." + domain
    q = dns_name(qname) + (33).to_bytes(2, "big") + (1).to_bytes(2, "big")
    ancount = len(records) + (1 if extra_cname else 0)
    msg = ident.to_bytes(2, "big") + b"\x81\x80" + (1).to_bytes(2, "big") + ancount.to_bytes(2, "big") + b"\0\0\0\0" + q
    dom_off = 12 + len(dns_name(qname)) - len(dns_name(domain))   # offset of <domain> inside the question name
    owner = b"\xc0\x0c" if compress_owner else dns_name(qname)
    if extra_cname:
        # a non-SRV record in front (skipped by the decoder)
        rdata = dns_name("alias." + domain)
        msg += owner + (5).to_bytes(2, "big") + (1).to_bytes(2, "big") + (300).to_bytes(4, "big") + len(rdata).to_bytes(2, "big") + rdata
    for prio, weight, port, target in records:
        if compress_target and target.endswith("." + domain) and dom_off < 0x3fff:
            head = target[:-len(domain) - 1]
            tname = dns_name(head)[:-1] + bytes([0xc0 | (dom_off >> 8), dom_off & 255])
        else:
            tname = dns_name(target)
        rdata = prio.to_bytes(2, "big") + weight.to_bytes(2, "big") + port.to_bytes(2, "big") + tname
        msg += owner + (33).to_bytes(2, "big") + (1).to_bytes(2, "big") + (300).to_bytes(4, "big") + len(rdata).to_bytes(2, "big") + rdata
    return msg


# ------------------------------------------------------------------------------------------
# scenarios
# ------------------------------------------------------------------------------------------
class Scn:
    """One scenario, kept structured so that the oracle works from the data, not from the text."""

    def __init__(self, ctype="client", jid="user@example.org/res", domain="example.org", flags=None, passwd=False,
                 srv=None, srv_opts=None, gai=None, eps=(), host=None, port=0, ops=(), kind="", raw_srv_hex=None):
        self.ctype, self.jid, self.domain, self.flags, self.passwd = ctype, jid, domain, flags, passwd
        self.srv = srv              # None = lookup fails; else list of (prio, weight, port, target)
        self.srv_opts = srv_opts or {}
        self.gai = dict(gai or {})  # host -> n | "fail"; missing = 1 address (simworld default)
        self.eps = list(eps)
        self.host, self.port = host, port
        self.ops = list(ops)        # ("run", n) | ("clock", ms)
        self.kind = kind
        self.raw_srv_hex = raw_srv_hex

    def line(self):
        p = ["conn"]
        if self.jid is not None:
            p.append("jid " + hx(self.jid))
        if self.passwd:
            p.append("pass " + hx("secret"))
        if self.flags is not None:
            p.append("flags %d" % self.flags)
        if self.raw_srv_hex is not None:
            p.append("srv " + self.raw_srv_hex)
        elif self.srv is None:
            p.append("srv fail")
        else:
            p.append("srv " + hx(dns_srv_answer(self.domain, self.srv, **self.srv_opts)))
        for h, n in self.gai.items():
            p.append("gai %s %s" % (hx(h), n))
        if self.eps:
            p.append("ep " + ",".join(self.eps))
        c = "connect " + self.ctype
        if self.host is not None or self.port:
            c += " " + (hx(self.host) if self.host is not None else "-")
        if self.port:
            c += " %d" % self.port
        p.append(c)
        for o, v in self.ops:
            if o == "run":
                p.append("run" if v == 1 else "run %d" % v)
            else:
                p.append("clock %d" % v)
        p.append("is")
        return ";".join(p)

    def to_json(self):
        return {k: getattr(self, k) for k in ("ctype", "jid", "domain", "flags", "passwd", "srv", "srv_opts", "gai", "eps",
                                              "host", "port", "ops", "kind", "raw_srv_hex")}

    @staticmethod
    def from_json(d):
        d = dict(d)
        if d.get("srv") is not None:
            d["srv"] = [tuple(r) for r in d["srv"]]
        d["ops"] = [tuple(o) for o in d.get("ops", [])]
        return Scn(**d)

    # ---- what the property says about this scenario (independent of the model) -------------
    def legacy(self):
        return bool((self.flags or 0) & FLAG_LEGACY_SSL)

    def refused_config(self):
        """The connect call must be refused before any network activity (documented preconditions)."""
        if self.jid is None:
            return True
        if self.ctype == "component":
            if self.host is None or not self.passwd:
                return True
            if (self.flags or 0) & (FLAG_MANDATORY_TLS | FLAG_LEGACY_SSL | FLAG_TRUST_TLS):
                return True   # XEP-0114 has no TLS; the flags cannot be reconciled
        return False

    def default_port(self):
        if self.ctype == "component":
            return PORT_COMPONENT
        return PORT_LEGACY if self.legacy() else PORT_CLIENT

    def bypass_host(self):
        if self.ctype == "component":
            return self.host
        if self.host is not None:
            return self.host
        if self.legacy():
            return self.domain
        return None

    def naddr(self, host):
        n = self.gai.get(host, 1)
        return 0 if n == "fail" else int(n)

    def groups(self):
        """Candidate records as a list of tie groups (lists of (host, port)), in the order the property
        demands: ascending priority, then descending weight; inside a group the order is free."""
        port = self.port or self.default_port()
        bh = self.bypass_host()
        if bh is not None:
            return [[(bh[:255], port)]]
        if not self.srv:
            return [[(self.domain[:255], port)]]
        keyed = {}
        for prio, weight, p, target in self.srv:
            keyed.setdefault((prio, -weight), []).append((target, p))
        return [keyed[k] for k in sorted(keyed)]

    def total_endpoints(self):
        return sum(self.naddr(h) for g in self.groups() for h, _ in g)

    def run_times(self):
        """virtual time of every `run` iteration, in order"""
        t, out = T0, []
        for o, v in self.ops:
            if o == "clock":
                t += v
            else:
                out += [t] * v
        return out

    def stream_to(self):
        return self.jid if self.ctype == "component" else self.domain


# ------------------------------------------------------------------------------------------
# canonical traces
# ------------------------------------------------------------------------------------------
HDR = re.compile(rb'\A<\?xml version="1\.0"\?><stream:stream to="([^"]*)"(.*)>\Z', re.S)


def canon_impl(trace):
    """(canonical string, tail after the final S= token, problems)"""
    if trace.startswith("CRASH"):
        return trace, "", [trace]
    toks = trace.split(" ")
    out, problems = [], []
    i = 0
    while i < len(toks):
        t = toks[i]
        i += 1
        if not t:
            continue
        if t.startswith("F="):
            if not t.startswith("F=0/"):
                problems.append("flags refused: " + t)
            continue
        if t.startswith("G:") and t.endswith("=fail0"):
            t = t[:-5] + "0"
        m = re.match(r"\A([WT])(\d+):([0-9a-f]+)\Z", t)
        if m:
            data = bytes.fromhex(m.group(3))
            h = HDR.match(data)
            if h:
                rest = h.group(2)
                ns = "c" if b'xmlns="jabber:component:accept"' in rest else ("j" if b'xmlns="jabber:client"' in rest else "?")
                t = "H%s:%s:%s:%s" % (m.group(2), m.group(1), hx(h.group(1)), ns)
        out.append(t)
        if t.startswith("S="):
            break
    tail = " ".join(toks[i:])
    for bad in ("CLOSEERR", "ALLOCERR", "SENDERR", "RECVERR", "BADCMD", "NOCONN"):
        if bad in trace:
            problems.append(bad + " in trace")
    m = re.search(r"END live=(\d+) allocerr=(\d+) fds=(\d+)/(\d+)", tail)
    if not m:
        problems.append("no END summary")
    elif m.group(1) != "0" or m.group(2) != "0" or m.group(3) != m.group(4):
        problems.append("resources at end of scenario: " + m.group(0))
    return " ".join(out), tail, problems


# ------------------------------------------------------------------------------------------
# the property oracle (on the implementation's canonical trace)
# ------------------------------------------------------------------------------------------
def oracle(s, canon):
    """List of property violations of scenario s shown by the canonical implementation trace.

    Steps: 0 = the connect call (virtual time T0), i >= 1 = the i-th loop iteration."""
    bad = []
    if canon.startswith("CRASH"):
        return ["implementation crashed: " + canon[:200]]
    times = [T0] + s.run_times()
    step = 0
    rcs, queries, gais, discs, hdrs, est = [], [], [], [], [], []
    attempts = []      # [fd, ip, port, beh, start step]
    closed = {}        # fd -> step of close()
    for t in canon.split(" "):
        if t == "|":
            step += 1
            continue
        if t.startswith("S="):
            break
        if t.startswith("R="):
            rcs.append(int(t[2:]))
            step = 1
            continue
        if t.startswith("Q:"):
            queries.append(t)
        elif t.startswith("G:"):
            gais.append(t)
        elif t == "E0:raw_connect" or t == "TLS:start=ok":
            est.append((t, step))
        m = re.match(r"\AC(\d+):([\d.]+):(\d+)=(\w+)\Z", t)
        if m:
            attempts.append((int(m.group(1)), m.group(2), int(m.group(3)), m.group(4), step))
        m = re.match(r"\AX(\d+)\Z", t)
        if m:
            closed.setdefault(int(m.group(1)), step)
        m = re.match(r"\AE0:disconnect\(err=([^,]+),", t)
        if m:
            discs.append((m.group(1), step))
        m = re.match(r"\AH(\d+):([WT]):([0-9a-f-]+):(\w)\Z", t)
        if m:
            hdrs.append((int(m.group(1)), m.group(2), m.group(3), m.group(4), step))
    nsteps = len(times)          # steps 0 .. nsteps-1 exist
    if len(rcs) != 1:
        return ["expected exactly one return code, trace has %r" % rcs]
    rc = rcs[0]

    # ---- refused configurations: nothing may happen
    if s.refused_config():
        if rc == 0 or queries or gais or attempts:
            bad.append("connect with an unusable configuration was not refused outright (rc=%d)" % rc)
        return bad

    # ---- explicit_host_bypasses_srv / the SRV query
    bh = s.bypass_host()
    if bh is not None and queries:
        bad.append("explicit host / legacy SSL / component must bypass SRV, but a query was made: %s" % queries[0])
    if bh is None:
        want = "Q:_xmpp-client._tcp." + s.domain
        if queries != [want]:
            bad.append("expected exactly one SRV query %s, got %r" % (want, queries))

    # ---- attempts_are_flattened_prefix (order among equal priority+weight left free), default_ports
    groups = [list(g) for g in s.groups()]
    gi = 0
    current = None          # (host, port, next address index) of the record being walked
    pending_group = list(groups[0]) if groups else []
    for k, (fd, ip, port, beh, st) in enumerate(attempts):
        if fd != k:
            bad.append("descriptor of attempt %d is %d" % (k, fd))
        want_beh = s.eps[k] if k < len(s.eps) else "accept"
        if beh != want_beh:
            bad.append("attempt %d met %s, scripted %s" % (k, beh, want_beh))
        parts = ip.split(".")
        hh, idx = int(parts[2]), int(parts[3])
        ok = False
        while True:
            if current and current[2] <= s.naddr(current[0]):
                ok = (host_hash(current[0]) == hh and port == current[1] and idx == current[2])
                if ok:
                    current = (current[0], current[1], current[2] + 1)
                break
            cand = [r for r in pending_group if host_hash(r[0]) == hh and r[1] == port and s.naddr(r[0]) >= 1]
            if cand and idx == 1:
                pending_group.remove(cand[0])
                current = (cand[0][0], cand[0][1], 2)
                ok = True
                break
            if any(s.naddr(r[0]) >= 1 for r in pending_group):
                break     # a candidate of an earlier or equal rank with addresses was passed over
            gi += 1
            if gi >= len(groups):
                break
            pending_group = list(groups[gi])
            current = None
        if not ok:
            bad.append("attempt %d (%s:%d) is not the next candidate in SRV order (priority, then weight, then resolver order)" % (k, ip, port))
            break
    if bh is not None and not s.port:
        for fd, ip, port, beh, st in attempts:
            if port != s.default_port():
                bad.append("default port: attempt to port %d, documented default is %d" % (port, s.default_port()))
                break
    total = s.total_endpoints()
    if len(attempts) > total:
        bad.append("%d attempts but only %d candidates" % (len(attempts), total))

    # ---- per attempt: when it may be given up, when it must be, what follows
    n = len(attempts)
    established = None     # index of the attempt the connection was established on
    for k, (fd, ip, port, beh, st) in enumerate(attempts):
        end = closed.get(fd)
        t0 = times[st] if st < nsteps else times[-1]
        # the first iteration after the start that sees the time-out expired
        expiry = next((j for j in range(st + 1, nsteps) if times[j] - t0 > TIMEOUT), None)
        if end is not None:
            te = times[end] if end < nsteps else times[-1]
            if beh not in ("refuse", "late") and te - t0 <= TIMEOUT:
                bad.append("attempt %d (%s) was given up after %d ms, before the %d ms time-out expired" % (k, beh, te - t0, TIMEOUT))
            if k + 1 < n:
                if attempts[k + 1][4] != end:
                    bad.append("attempt %d was not started when attempt %d was given up" % (k + 1, k))
            elif n < total:
                bad.append("attempt %d was given up and candidate %d of %d was never tried" % (k, n + 1, total))
            else:
                reported = (rc != 0) if end == 0 else any(d[1] == end for d in discs)
                if not reported:
                    bad.append("the last candidate was given up without a failure report")
        else:
            if k + 1 < n:
                bad.append("attempt %d started while attempt %d was still open" % (k + 1, k))
        if beh == "refuse" and end != st:
            bad.append("refused attempt %d was not given up at once" % k)
        if beh == "late" and st + 1 < nsteps and (end is None or end > st + 1):
            bad.append("attempt %d failed late and was not given up by the next iteration" % k)
        if beh == "hang":
            if expiry is not None and end != expiry:
                bad.append("hanging attempt %d was not given up at the first iteration with more than %d ms elapsed" % (k, TIMEOUT))
        if beh == "accept":
            if st + 1 < nsteps and times[st + 1] - t0 > TIMEOUT and st + 1 == expiry and end is None and k == n - 1:
                pass      # (covered below: either timed out or established)
            if end is None:
                established = k
            if expiry is not None and end is not None and end != expiry:
                bad.append("accepting attempt %d was given up at a time other than its time-out" % k)

    # ---- first_acceptor_used / stream header
    if established is not None:
        fd, ip, port, beh, st = attempts[established]
        if established != n - 1:
            bad.append("attempts continued after attempt %d was accepted and kept" % established)
        # connection evidence must show up: header two iterations after the start at the latest
        if s.ctype != "raw" and st + 2 < nsteps and not [h for h in hdrs if h[0] == fd]:
            bad.append("attempt %d was accepted but no stream header was sent on it" % established)
        if s.ctype == "raw" and st + 1 < nsteps and not [e for e in est if e[0] == "E0:raw_connect"]:
            bad.append("attempt %d was accepted but XMPP_CONN_RAW_CONNECT was not delivered" % established)
        if rc != 0 or discs:
            bad.append("connection established and failure reported")
    for fd, kind, to, ns, st in hdrs:
        if established is None or fd != attempts[established][0]:
            bad.append("stream header written to descriptor %d which is not the accepted endpoint" % fd)
        if to != hx(s.stream_to()):
            bad.append("stream header to=%s, expected %s" % (to, hx(s.stream_to())))
        if (ns == "c") != (s.ctype == "component"):
            bad.append("stream header namespace")
        if (kind == "T") != (s.legacy() and s.ctype != "raw"):
            bad.append("stream header %s TLS" % ("inside" if kind == "T" else "outside"))
    if len(hdrs) > 1:
        bad.append("more than one stream header")
    if s.ctype == "raw" and hdrs:
        bad.append("raw connection sent a stream header by itself")
    if est and established is None:
        bad.append("connection-established event without an accepted attempt")

    # ---- failure_only_after_all_tried
    failure = rc != 0 or bool(discs)
    if failure and n < total:
        bad.append("failure reported (%s) after %d of %d candidates were tried"
                   % ("rc=%d" % rc if rc != 0 else "disconnect err=" + discs[0][0], n, total))
    if failure and any(closed.get(a[0]) is None for a in attempts):
        bad.append("failure reported while an attempt was still open")
    if len(discs) > 1:
        bad.append("more than one disconnect notification")
    if rc != 0 and discs:
        bad.append("failure return code and a disconnect notification")
    if rc != 0 and any(a[4] != 0 for a in attempts):
        bad.append("attempts after a failure return code")
    if n == 0 and total > 0 and not failure:
        bad.append("no attempt made")
    if total == 0 and rc == 0:
        bad.append("no candidate at all but connect reported success")
    return bad


# ------------------------------------------------------------------------------------------
# generators
# ------------------------------------------------------------------------------------------
def host_pool(domain):
    """host names with pairwise distinct simworld address hashes (and distinct from the domain's)"""
    used = {host_hash(domain)}
    pool = []
    i = 0
    while len(pool) < 40:
        for h in ("xmpp%d.%s" % (i, domain), "s%d.example.net" % i):
            v = host_hash(h)
            if v not in used:
                used.add(v)
                pool.append(h)
        i += 1
    return pool


def drain(n):
    """iterations first (refusals, late failures and acceptances settle without the clock), then n+1 time-outs"""
    ops = [("run", 3)]
    for _ in range(n + 1):
        ops += [("clock", TIMEOUT + 1), ("run", 3)]
    return ops


def shapes_exhaustive(max_targets, max_addr, domain, pool):
    """all (targets x address counts) shapes and every outcome pattern that matters:
    k non-accepting behaviours followed by accept, or all candidates failing"""
    out = []
    for nt in range(1, max_targets + 1):
        for counts in itertools.product(range(0, max_addr + 1), repeat=nt):
            E = sum(counts)
            recs = [(10 * (i + 1), 5, 5222 + i, pool[i]) for i in range(nt)]
            gai = {pool[i]: (counts[i] if counts[i] else "fail") for i in range(nt)}
            pats = []
            for k in range(0, E + 1):
                for pre in itertools.product(("refuse", "late", "hang"), repeat=k):
                    pats.append(list(pre) + (["accept"] if k < E else []))
            if E == 0:
                pats = [[]]
            for p in pats:
                out.append(Scn(domain=domain, jid="u@" + domain, srv=recs, gai=gai, eps=p, ops=drain(E),
                               kind="exhaustive-%dx%d+drain" % (max_targets, max_addr)))
    return out


def random_ops(rng, n):
    ops = []
    for _ in range(n):
        r = rng.random()
        if r < 0.45:
            ops.append(("run", rng.choice([1, 1, 1, 2, 3])))
        else:
            ops.append(("clock", rng.choice([0, 1, 100, 2500, 2501, 4999, 5000, 5001, 5002, 7000, 10000, rng.randrange(0, 12000)])))
    return ops


def gen_cases(chk):
    rng = chk.rng
    thorough = chk.tier == "thorough"
    domain = "example.org"
    pool = host_pool(domain)
    cases = []

    # 1. small-scope exhaustive
    if thorough:
        cases += shapes_exhaustive(3, 3, domain, pool)
    else:
        cases += shapes_exhaustive(2, 2, domain, pool)
        ex3 = shapes_exhaustive(3, 2, domain, pool)
        cases += rng.sample(ex3, 1200)

    # 2. time-out boundary: one hanging (or slow-polled accepting / late) endpoint, clock split in all ways
    for first in ("hang", "accept", "late"):
        for d in (0, 1, 4999, 5000, 5001, 5002, 9999, 10000, 10001):
            for split in (None, 1, 2500, 4999, 5000):
                for run_between in (False, True):
                    if split is None and run_between:
                        continue
                    if split is not None and split > d:
                        continue
                    ops = []
                    if first == "late":
                        ops.append(("run", 1))     # the late failure is seen, next attempt (hang) starts now
                    if split is None:
                        ops += [("clock", d), ("run", 1)]
                    else:
                        ops += [("clock", split)] + ([("run", 1)] if run_between else []) + [("clock", d - split), ("run", 1)]
                    ops += [("run", 1), ("clock", 1), ("run", 1), ("clock", TIMEOUT), ("run", 2)]
                    eps = {"hang": ["hang", "accept"], "accept": ["accept", "accept"], "late": ["late", "hang", "accept"]}[first]
                    cases.append(Scn(domain=domain, jid="u@" + domain + "/r", srv=None, gai={domain: 3}, eps=eps, ops=ops, kind="timeout-boundary"))
                    cases.append(Scn(domain=domain, jid="u@" + domain + "/r",
                                     srv=[(1, 1, 5269, pool[0]), (2, 1, 5270, pool[1])], gai={pool[0]: 1, pool[1]: 1},
                                     eps=eps, ops=ops, kind="timeout-boundary"))

    # 3. bypasses and default ports
    for ctype in ("client", "raw", "component"):
        for flags in (None, 0, FLAG_LEGACY_SSL, FLAG_TRUST_TLS, FLAG_MANDATORY_TLS, 16, 32, FLAG_DISABLE_TLS):
            for host in (None, pool[3]):
                for port in (0, 5222, 80, 65535):
                    for passwd in ((True, False) if ctype == "component" else (False,)):
                        for srv in (None, [(0, 0, 5290, pool[5])]):
                            jid = "comp." + domain if ctype == "component" else "u@" + domain + "/r"
                            dom = jid if ctype == "component" else domain
                            eps = rng.choice([["accept"], ["refuse", "accept"], ["late", "refuse", "accept"], ["refuse", "refuse"], ["hang"]])
                            cases.append(Scn(ctype=ctype, jid=jid, domain=dom if ctype != "component" else jid, flags=flags,
                                             passwd=passwd, srv=srv, gai={(host or dom): 2}, eps=eps, host=host, port=port,
                                             ops=drain(2), kind="bypass+drain"))
    cases.append(Scn(jid=None, domain="", srv=None, ops=[("run", 1)], kind="invalid"))
    cases.append(Scn(ctype="raw", jid=None, domain="", srv=None, ops=[("run", 1)], kind="invalid"))
    cases.append(Scn(ctype="component", jid=None, domain="", passwd=True, host=pool[0], ops=[("run", 1)], kind="invalid"))
    long_host = ".".join(["a" * 60] * 5)           # 304 characters: cut to the record's 255
    cases.append(Scn(host=long_host, gai={long_host[:255]: 2}, eps=["refuse", "accept"], ops=drain(2), kind="bypass+drain"))

    # 3b. answers larger than a classic 512-octet UDP message (and larger than 4 KiB): many records with long targets
    for nrec, lab in ((12, 40), (20, 50), (40, 60)):
        longs = [".".join(["t%02d" % i + "x" * (lab - 3)] * 2) + "." + domain for i in range(nrec)]
        recs = [(i % 3, 10 + i, 5222 + (i % 2), longs[i]) for i in range(nrec)]
        for eps in (["refuse"] * (nrec - 1) + ["accept"], ["accept"]):
            cases.append(Scn(domain=domain, jid="u@" + domain + "/r", srv=recs, gai={}, eps=eps, ops=drain(nrec),
                             srv_opts={"compress_owner": True, "compress_target": False, "extra_cname": False}, kind="big-answer"))

    # 4. random larger lists
    n_random = 20000 if thorough else 2500
    for _ in range(n_random):
        nt = rng.choice([0, 1, 1, 2, 2, 3, 3, 4, 5, 6])
        fail = rng.random() < 0.08
        recs, gai = [], {}
        prios = [rng.choice([0, 0, 1, 5, 10, 10, 20, 65535]) for _ in range(nt)]
        for i in range(nt):
            t = rng.choice(pool[:8]) if rng.random() < 0.15 else pool[8 + i]
            recs.append((prios[i], rng.choice([0, 0, 1, 10, 10, 50, 65535]), rng.choice([5222, 5223, 443, 0, 65535, rng.randrange(1, 65536)]), t))
            if len(gai) < 14 and t not in gai:
                r = rng.random()
                gai[t] = "fail" if r < 0.15 else (0 if r < 0.2 else rng.choice([1, 1, 2, 2, 3]))
        if rng.random() < 0.3 and domain not in gai:
            gai[domain] = rng.choice(["fail", 1, 2, 3])
        for h in list(gai):
            if gai[h] == 1 and rng.random() < 0.5:
                del gai[h]      # simworld's default is one address
        s = Scn(domain=domain, jid=rng.choice(["u@" + domain, "u@" + domain + "/r", domain]),
                srv=None if (fail or nt == 0) else recs, gai=gai,
                srv_opts={"compress_owner": rng.random() < 0.7, "compress_target": rng.random() < 0.3, "extra_cname": rng.random() < 0.15})
        if nt == 0 and not fail and rng.random() < 0.5:
            s.srv = []          # an answer without records
        E = s.total_endpoints()
        weights = rng.choice([(5, 2, 2, 1), (3, 3, 3, 1), (1, 1, 1, 1), (8, 1, 1, 0)])
        s.eps = [rng.choices(BEHS, weights)[0] for _ in range(E + rng.choice([0, 0, 1]))]
        if rng.random() < 0.6:
            s.ops = drain(E)
            s.kind = "random+drain"
        else:
            s.ops = random_ops(rng, rng.randrange(1, 14))
            s.kind = "random-ops"
        if rng.random() < 0.1:
            s.ctype = "raw"
        if rng.random() < 0.08:
            s.port = rng.choice([5222, 9999])       # altport without altdomain: used only by the fallback record
        cases.append(s)
    return cases


# ------------------------------------------------------------------------------------------
CORPUS = os.path.join(vlib.ROOT, "corpus", "C14.txt")


def load_corpus():
    if not os.path.exists(CORPUS):
        return []
    out = []
    for l in open(CORPUS):
        l = l.strip()
        if l and not l.startswith("#"):
            out.append(Scn.from_json(json.loads(l)))
    return out


def classify(s, canon):
    k = []
    if "E0:disconnect" in canon:
        k.append("disconnect")
    m = re.search(r"R=(-?\d+)", canon)
    if m and m.group(1) != "0":
        k.append("rc" + m.group(1))
    if re.search(r" H\d+:", canon) or "E0:raw_connect" in canon or "TLS:start=ok" in canon:
        k.append("connected")
    elif "S=100" in canon:
        k.append("pending")
    return "+".join(k) or "other"


def build():
    return vlib.build_simworld()


def run(chk):
    chk.rule = ("simulated-world scenarios: every shape of <=2 targets x <=2 addresses (quick; <=3x3 thorough) with every outcome "
                "pattern (k refusing/late/hanging endpoints then an acceptor, or none), drained by 5001 ms steps; time-out "
                "boundary (hang / slowly polled acceptor / late-then-hang with clock 0..10001 ms split around 4999/5000/5001, "
                "with and without an iteration in between); all bypass configurations (client/raw/component x flags x host x "
                "port x SRV answer present); random lists of 0..6 records with tied priorities/weights, repeated targets, "
                "unresolvable targets, name compression, lookup failure, random iteration/clock schedules. non-trivial = "
                "distinct scenario with at least one connection attempt or a refused configuration")
    chk.assumptions = ["simulated world (harness/c/simworld.c): scripted res_query/getaddrinfo/connect/select/getpeername/clock",
                       "SRV answers are decoded and sorted by ResolverModel.lookup on the model side (C15) and by resolver.c on the implementation side",
                       "oracle: Python re-computation of the candidate order from the scenario's records; order among equal (priority, weight) left free"]
    chk.prove()
    exe = build()
    cases = load_corpus()
    ncorpus = len(cases)
    cases += gen_cases(chk)
    lines = [s.line() for s in cases]
    impl = vlib.run_parallel(exe, lines)
    model = None
    try:
        mexe = vlib.build_ocaml_model("C14")
        model = vlib.run_parallel(mexe, lines)
    except vlib.BuildError as e:
        chk.broken.append({"kind": "extract", "name": "Extract_C14", "detail": str(e)[:500]})
    seen = set()
    outcome = {}
    for i, s in enumerate(cases):
        chk.evaluations += 1
        chk.count("corpus" if i < ncorpus else s.kind)
        canon, tail, problems = canon_impl(impl[i])
        oc = classify(s, canon)
        outcome[oc] = outcome.get(oc, 0) + 1
        if lines[i] not in seen:
            seen.add(lines[i])
            if " C0:" in canon or s.refused_config():
                chk.nontrivial.add(lines[i])
        bad = problems + oracle(s, canon)
        if bad:
            chk.fail(lines[i], "; ".join(bad[:3]), extra={"scenario": s.to_json(), "impl": impl[i]})
        if model is not None:
            chk.traces_validated += 1
            if model[i] != canon:
                chk.disagree("srv", lines[i], canon, model[i])
        if i % 499 == 0:
            chk.sample({"input": lines[i], "impl": canon, "model": model[i] if model else None})
    chk.extra["outcomes"] = outcome


def replay(path):
    rec = json.load(open(path))
    f = rec.get("failure") or (rec.get("disagreements") or [{}])[0]
    case = f.get("case")
    if not case:
        print("replay file names no concrete input: %s" % json.dumps(rec.get("broken_obligations"))[:500])
        return 1
    impl = vlib.run_lines(build(), [case])[0]
    canon, tail, problems = canon_impl(impl)
    try:
        model = vlib.run_lines(vlib.build_ocaml_model("C14"), [case])[0]
    except vlib.BuildError:
        model = "(model unavailable)"
    verdict = problems[:]
    if f.get("scenario"):
        verdict += oracle(Scn.from_json(f["scenario"]), canon)
    else:
        verdict.append("(no structured scenario in the replay file: oracle not evaluated)") if canon != model else None
    print("input   : %s\nimpl    : %s\ncanon   : %s\nmodel   : %s\nproperty: %s" % (case, impl, canon, model, "; ".join(verdict) if verdict else "holds"))
    return 0 if not verdict and canon == model else 1
