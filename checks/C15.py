"""C15 - DNS SRV answers are decoded safely and correctly.

Case = one DNS message (hex).  The C driver runs resolver_srv_lookup_buf on an exact-size heap
copy under ASan/UBSan, the OCaml driver runs the extracted `lookup` of ResolverModel.v.

Property oracle (independent of the model): `decode_message` below is a strict RFC 1035 decoder.
  * every input: no CRASH line (sanitizer report / hang), status FOUND iff a non-empty list, no list
    with NOT_FOUND, every target NUL-terminated inside the 256-byte field (so shorter than 256),
    nothing leaked after resolver_srv_free, list ordered by priority ascending then weight descending;
  * well-formed successful responses (QR=1, RCODE=0, every section parses, nothing left over, names
    within the RFC limits or - "loose" - only longer than 255 octets): the records are exactly the
    IN/SRV answers with priority, weight, port and the dotted expansion of the target (cut to 255
    characters when longer), FOUND iff there is at least one.
"""
import json
import os
import re

import vlib

T_A, T_CNAME, T_TXT, T_AAAA, T_SRV, T_OPT = 1, 5, 16, 28, 33, 41
C_IN = 1
MAXT = 256  # size of the target field (the Coq side takes it from common.h through Gen_resolver)


def hx(b):
    return bytes(b).hex() if len(b) else "-"


# ----------------------------------------------------------------------------------------------
# independent RFC 1035 decoder (the oracle)
# ----------------------------------------------------------------------------------------------
class Malformed(Exception):
    pass


def decode_name(buf, off):
    """(labels, offset after the name as it appears at `off`, wire length of the expanded name).
    A pointer has to point strictly before the start of the label sequence being expanded
    ("a prior occurrence"), which also bounds the expansion."""
    labels = []
    pos = off
    lim = off
    end = None
    wire = 1
    while True:
        if pos >= len(buf):
            raise Malformed("name runs off the message")
        b = buf[pos]
        if b == 0:
            if end is None:
                end = pos + 1
            break
        if b & 0xC0 == 0:
            if pos + 1 + b > len(buf):
                raise Malformed("label runs off the message")
            labels.append(bytes(buf[pos + 1:pos + 1 + b]))
            wire += 1 + b
            pos += 1 + b
        elif b & 0xC0 == 0xC0:
            if pos + 1 >= len(buf):
                raise Malformed("pointer runs off the message")
            p = ((b & 0x3F) << 8) | buf[pos + 1]
            if end is None:
                end = pos + 2
            if p >= lim:
                raise Malformed("pointer does not point to a prior name")
            pos = p
            lim = p
        else:
            raise Malformed("reserved label type")
    return labels, end, wire


def u16(buf, off):
    if off + 2 > len(buf):
        raise Malformed("short")
    return (buf[off] << 8) | buf[off + 1]


def decode_message(buf):
    """Returns dict(qr, rcode, srv=[(prio, weight, port, labels, wire)], too_long=bool).
    Raises Malformed unless the whole message parses section by section with nothing left over."""
    if len(buf) < 12:
        raise Malformed("short header")
    qr = buf[2] >> 7
    rcode = buf[3] & 15
    qd, an, ns, ar = u16(buf, 4), u16(buf, 6), u16(buf, 8), u16(buf, 10)
    off = 12
    too_long = False
    for _ in range(qd):
        _, off, wire = decode_name(buf, off)
        too_long |= wire > 255
        if off + 4 > len(buf):
            raise Malformed("question runs off")
        off += 4
    srv = []
    for sec, cnt in (("an", an), ("ns", ns), ("ar", ar)):
        for _ in range(cnt):
            _, off, wire = decode_name(buf, off)
            too_long |= wire > 255
            if off + 10 > len(buf):
                raise Malformed("RR header runs off")
            typ, cls, rdl = u16(buf, off), u16(buf, off + 2), u16(buf, off + 8)
            off += 10
            if off + rdl > len(buf):
                raise Malformed("rdata runs off")
            if sec == "an" and typ == T_SRV and cls == C_IN:
                if rdl < 7:
                    raise Malformed("short SRV rdata")
                labels, e, wire = decode_name(buf, off + 6)
                if e != off + rdl:
                    raise Malformed("SRV target does not fill rdata")
                too_long |= wire > 255
                srv.append((u16(buf, off), u16(buf, off + 2), u16(buf, off + 4), labels, wire))
            off += rdl
    if off != len(buf):
        raise Malformed("trailing bytes")
    return {"qr": qr, "rcode": rcode, "srv": srv, "too_long": too_long}


def parse_out(line):
    """canonical driver line -> (status, [(prio, weight, port, targethex)], anomalies)"""
    if line is None or line.startswith("CRASH"):
        return None, [], ["crash: %s" % line]
    an = []
    m = re.search(r" leak=(-?\d+)$", line)
    if m:
        an.append("leak of %s blocks" % m.group(1))
        line = line[:m.start()]
    parts = line.split(" ")
    st = parts[0]
    recs = []
    if st == "N":
        if len(parts) > 1:
            an.append("NOT_FOUND with a list")
    elif st == "F":
        if len(parts) < 3 or parts[1] == "0":
            an.append("FOUND with an empty list")
    else:
        an.append("unexpected status %r" % line[:40])
    if len(parts) >= 3 and parts[-1]:
        for r in parts[-1].split(";"):
            f = r.split(",")
            if len(f) != 4:
                an.append("unparsable record %r" % r)
                continue
            recs.append((int(f[0]), int(f[1]), int(f[2]), f[3]))
            if f[3] == "UNTERMINATED":
                an.append("target without terminator")
            elif f[3] != "-" and (len(f[3]) // 2 >= MAXT or "00" in [f[3][i:i + 2] for i in range(0, len(f[3]), 2)]):
                an.append("target too long or containing NUL")
        if st == "F" and parts[1].isdigit() and int(parts[1]) != len(recs):
            an.append("count mismatch")
    keys = [(r[0], -r[1]) for r in recs]
    if keys != sorted(keys):
        an.append("list not ordered by priority, then descending weight")
    return st, recs, an


def dotted(labels):
    return b".".join(labels)


def oracle(case, out):
    """list of reasons why `out` violates the property on input `case` (empty = holds)"""
    buf = b"" if case == "-" else bytes.fromhex(case)
    st, recs, bad = parse_out(out)
    if st is None:
        return bad
    try:
        msg = decode_message(buf)
    except Malformed:
        return bad
    if msg["qr"] != 1 or msg["rcode"] != 0:
        return bad
    if any(0 in lab for (_, _, _, labels, _) in msg["srv"] for lab in labels):
        return bad  # a NUL inside a label has no C-string rendering; only the general conditions apply
    # names within the RFC limit (255 octets on the wire, text <= 253) must come out exactly; a longer
    # one ("loose") is cut by the truncating append: a prefix of the text, 254 or 255 characters long
    def key(p, w, port, text):
        return (p, w, port, text[:MAXT - 2])
    exp = sorted(((p, w, port, dotted(labels)) for (p, w, port, labels, _) in msg["srv"]), key=lambda r: key(*r))
    got = sorted(((p, w, port, b"" if t == "-" else bytes.fromhex(t)) for (p, w, port, t) in recs if t != "UNTERMINATED"),
                 key=lambda r: key(*r))
    same = len(exp) == len(got)
    if same:
        for e, g in zip(exp, got):
            if e[:3] != g[:3]:
                same = False
            elif len(e[3]) < MAXT - 2:
                same = same and g[3] == e[3]
            else:
                same = same and e[3].startswith(g[3]) and MAXT - 2 <= len(g[3]) < MAXT
    if not same:
        bad.append("well-formed response: expected records %s, got %s"
                   % ([(a, b, c, hx(t)) for a, b, c, t in exp], [(a, b, c, hx(t)) for a, b, c, t in got]))
    if (st == "F") != bool(exp):
        bad.append("well-formed response with %d IN/SRV answers: status %s" % (len(exp), st))
    return bad


# ----------------------------------------------------------------------------------------------
# generators
# ----------------------------------------------------------------------------------------------
HOSTCH = b"abcdefghijklmnopqrstuvwxyz0123456789-_"


class Builder:
    """Writes a DNS message with RFC 1035 name compression and remembers the offsets of the
    fields worth corrupting."""

    def __init__(self, rng):
        self.rng = rng
        self.b = bytearray(12)
        self.suffix = {}      # tuple(labels) -> offset where that label sequence starts (maybe ending in a pointer)
        self.roots = []       # offsets of root octets
        self.marks = [(4, "count"), (5, "count"), (6, "count"), (7, "count"), (2, "flags"), (3, "flags")]
        self.intent = []

    def name(self, labels, style):
        """styles: plain | best (longest known suffix) | any (some known suffix) | rootptr (pointer to a root octet)"""
        start = len(self.b)
        labels = list(labels)
        target = None
        cut = len(labels)
        if style in ("best", "any"):
            cands = [k for k in range(len(labels)) if tuple(labels[k:]) in self.suffix]
            if cands:
                cut = cands[0] if style == "best" else self.rng.choice(cands)
                target = self.suffix[tuple(labels[cut:])]
        elif style == "rootptr" and self.roots:
            target = self.rng.choice(self.roots)
        new = []
        for k in range(cut):
            off = len(self.b)
            if off < 0x4000:
                new.append((tuple(labels[k:]), off))
            self.marks.append((off, "len"))
            self.b.append(len(labels[k]))
            self.b += labels[k]
        if target is not None and target < 0x4000:
            self.marks.append((len(self.b), "ptr"))
            self.marks.append((len(self.b) + 1, "ptr"))
            self.b += bytes([0xC0 | (target >> 8), target & 255])
        elif target is not None:
            # cannot be expressed; finish plainly
            for k in range(cut, len(labels)):
                self.b.append(len(labels[k]))
                self.b += labels[k]
            self.b.append(0)
        else:
            if len(self.b) < 0x4000:
                self.roots.append(len(self.b))
            self.marks.append((len(self.b), "len"))
            self.b.append(0)
        for key, off in new:
            self.suffix.setdefault(key, off)
        return start

    def rr(self, owner, ostyle, typ, cls, rdata_fn):
        self.name(owner, ostyle)
        self.marks.append((len(self.b) + 1, "type"))
        self.marks.append((len(self.b) + 3, "class"))
        self.b += typ.to_bytes(2, "big") + cls.to_bytes(2, "big") + self.rng.randrange(1 << 32).to_bytes(4, "big")
        lenpos = len(self.b)
        self.marks.append((lenpos, "rdlen"))
        self.marks.append((lenpos + 1, "rdlen"))
        self.b += b"\0\0"
        rdata_fn()
        n = len(self.b) - lenpos - 2
        self.b[lenpos:lenpos + 2] = n.to_bytes(2, "big")

    def counts(self, qd, an, ns, ar, flags=(0x81, 0x80), ident=None):
        ident = self.rng.randrange(65536) if ident is None else ident
        self.b[0:2] = ident.to_bytes(2, "big")
        self.b[2], self.b[3] = flags
        self.b[4:12] = b"".join(x.to_bytes(2, "big") for x in (qd, an, ns, ar))


def rand_label(rng, n=None, wild=False):
    n = n or rng.choice([1, 1, 2, 3, 4, 5, 6, 7, 8, 10, 16, 31, 62, 63])
    if wild:
        return bytes(rng.randrange(1, 256) for _ in range(n))
    return bytes(rng.choice(HOSTCH) for _ in range(n))


def rand_name(rng, pool, maxwire=255, wild=False):
    """labels of a name; reuses suffixes from `pool` to make compression possible"""
    labels = []
    if pool and rng.random() < 0.7:
        base = rng.choice(pool)
        labels = list(base[rng.randrange(len(base) + 1):])
    k = rng.choice([0, 1, 1, 2, 2, 3, 5])
    for _ in range(k):
        labels.insert(0, rand_label(rng, wild=wild and rng.random() < 0.5))
    while sum(len(x) + 1 for x in labels) + 1 > maxwire and labels:
        labels.pop(0)
    return labels


def long_name(rng, wire):
    """labels whose expanded wire length is exactly `wire` (>= 3)"""
    labels = []
    rest = wire - 1
    while rest > 0:
        n = min(63, rest - 1)
        if rest - 1 - n == 1:
            n -= 1
        labels.append(rand_label(rng, n))
        rest -= n + 1
    return labels


def structured(rng, flavour="mixed"):
    """one mostly-valid response; returns (bytes, marks)"""
    bld = Builder(rng)
    pool = []
    wild = flavour == "wild"
    qname = [b"_xmpp-client", b"_tcp"] + rand_name(rng, [], 120)
    pool.append(qname)
    qd = rng.choice([1, 1, 1, 1, 0, 2])
    for q in range(qd):
        bld.name(qname if q == 0 else rand_name(rng, pool), "plain" if q == 0 else "best")
        bld.b += T_SRV.to_bytes(2, "big") + C_IN.to_bytes(2, "big")
    styles = ["plain", "best", "best", "any", "rootptr"]
    prios = rng.choice([[0, 1, 5, 10, 65535], [10], [1, 2], list(range(20))])
    weights = rng.choice([[0, 1, 5, 10, 65535], [0], [5, 50], list(range(20))])

    def section(count, answer):
        for _ in range(count):
            kinds = [T_SRV] * 6 + [T_A, T_AAAA, T_CNAME, T_TXT, T_OPT] if answer else [T_A, T_AAAA, T_OPT, T_CNAME, T_SRV]
            typ = rng.choice(kinds)
            if flavour == "short-last":
                typ = T_SRV
            cls = C_IN if rng.random() < 0.93 else rng.choice([3, 4, 255, 0])
            owner = qname if rng.random() < 0.7 else rand_name(rng, pool)
            ostyle = rng.choice(styles)
            if typ == T_SRV:
                if flavour == "long":
                    tl = long_name(rng, rng.choice([200, 250, 253, 254, 255, 256, 257, 258, 270, 300]))
                else:
                    tl = rand_name(rng, pool, wild=wild) if rng.random() < 0.95 else []
                pool.append(tl) if tl else None
                tstyle = rng.choice(styles)

                def rd(tl=tl, tstyle=tstyle):
                    bld.marks.append((len(bld.b) + 1, "prio"))
                    bld.b += rng.choice(prios).to_bytes(2, "big") + rng.choice(weights).to_bytes(2, "big")
                    bld.b += rng.choice([5222, 5269, 443, 0, 65535]).to_bytes(2, "big")
                    bld.name(tl, tstyle)
                bld.rr(owner, ostyle, typ, cls, rd)
            elif typ == T_A:
                bld.rr(owner, ostyle, typ, cls, lambda: bld.b.extend(rng.randbytes(4)))
            elif typ == T_AAAA:
                bld.rr(owner, ostyle, typ, cls, lambda: bld.b.extend(rng.randbytes(16)))
            elif typ == T_CNAME:
                cn = rand_name(rng, pool)
                pool.append(cn) if cn else None
                bld.rr(owner, ostyle, typ, cls, lambda cn=cn: bld.name(cn, rng.choice(styles)))
            elif typ == T_TXT:
                def txt():
                    for _ in range(rng.choice([0, 1, 1, 2])):
                        s = rng.randbytes(rng.choice([0, 1, 5, 40, 255]))
                        bld.b.append(len(s))
                        bld.b.extend(s)
                bld.rr(owner, ostyle, typ, cls, txt)
            else:
                bld.rr([], "plain", T_OPT, rng.choice([512, 1232, 4096]), lambda: bld.b.extend(rng.randbytes(rng.choice([0, 0, 4, 12]))))

    an = rng.randrange(1, 13)
    section(an, True)
    ns = ar = 0
    if flavour == "short-last":
        # last answer is a short non-SRV record and nothing follows (DESIGN section 8, #17)
        typ = rng.choice([T_A, T_CNAME, T_TXT, T_OPT])
        if typ == T_A:
            bld.rr(qname, "best", typ, C_IN, lambda: bld.b.extend(rng.randbytes(4)))
        elif typ == T_CNAME:
            bld.rr(qname, "best", typ, C_IN, lambda: bld.name(qname, "best"))
        elif typ == T_TXT:
            bld.rr(qname, "best", typ, C_IN, lambda: bld.b.extend(b"\x03abc"[:rng.choice([0, 1, 4])] or b""))
        else:
            bld.rr([], "plain", T_OPT, 1232, lambda: None)
        an += 1
    else:
        ns = rng.choice([0, 0, 1, 2])
        ar = rng.choice([0, 0, 1, 3])
        section(ns, False)
        section(ar, False)
    flags = (0x80 | rng.choice([0, 1, 4, 5, 0x78 & rng.randrange(256)]), rng.choice([0x80, 0x00, 0xA0, 0x10]))
    bld.counts(qd, an, ns, ar, flags)
    return bytes(bld.b), bld.marks


def captured_packets():
    src = open(os.path.join(vlib.REPO, "tests", "test_resolver.c"), errors="replace").read()
    pk = []
    for m in re.finditer(r"data(\d+)\[\]\s*=\s*\{(.*?)\};", src, re.S):
        body = re.sub(r"//[^\n]*", "", m.group(2))
        pk.append(bytes(int(x, 16) for x in re.findall(r"0x([0-9a-fA-F]{1,2})", body)))
    return pk


def pointer_chain(rng, depth, terminator="root"):
    """answer whose SRV target is a chain of `depth` pointers stored in the rdata of an earlier TXT-like record"""
    bld = Builder(rng)
    bld.name([b"q"], "plain")
    bld.b += T_SRV.to_bytes(2, "big") + C_IN.to_bytes(2, "big")
    first = [None]

    def blob():
        start = len(bld.b)
        if terminator == "root":
            bld.b.append(0)
        else:
            bld.b += b"\x03end\x00"
        prev = start
        for _ in range(depth):
            here = len(bld.b)
            bld.b += bytes([0xC0 | (prev >> 8), prev & 255])
            prev = here
        first[0] = prev
    bld.rr([b"q"], "best", 99, C_IN, blob)
    p = first[0]

    def rd():
        bld.b += (1).to_bytes(2, "big") + (2).to_bytes(2, "big") + (5222).to_bytes(2, "big")
        bld.b += b"\x01x" + bytes([0xC0 | (p >> 8), p & 255])
    bld.rr([b"q"], "best", T_SRV, C_IN, rd)
    bld.counts(1, 2, 0, 0)
    return bytes(bld.b)


def split_labels(rng, total, style):
    """label lengths l_1..l_k (1..63) with sum(l_i + 1) == total"""
    out = []
    rest = total
    while rest > 0:
        hi = min(63, rest - 1)
        if style == "max":
            n = hi
        elif style == "half" and rest == total:
            n = min(63, max(1, (total // 2 - 1) % 64 or 31))
            n = min(n, hi)
        else:
            n = rng.randrange(1, hi + 1)
        if rest - 1 - n == 1:           # a remainder of 1 cannot hold a label
            n = n - 1 if n > 1 else n + 1
            if n > hi:
                n = hi - 1
        out.append(n)
        rest -= n + 1
    return out


def exact_fill(rng, plen, position, pointee, first_len, pool, style):
    """A name whose labels written before its final compression pointer expand to exactly `plen`
    characters (labels and dots; 256 fills the target field exactly), followed by a pointer to
      pointee 0: a root octet, 1: a plain name, 2..4: a chain  label(s)+pointer -> ... of depth 1..3
    (the label of the outermost chain element is `first_len` long, the others 1..20).
    position: "target" (SRV RDATA), "owner" (owner name of an SRV answer), "question" (last question).
    pool: where the pointee lives: "questions" (earlier questions) or "answers" (targets of earlier SRV answers)."""
    b = bytearray(12)
    b[2], b[3] = 0x81, 0x80          # id 0: octet 0 is a root octet a pointer can use
    qd = an = 0

    def lab(n):
        return bytes([n]) + bytes(rng.choice(HOSTCH) for _ in range(n))

    def ptr(off):
        return bytes([0xC0 | (off >> 8), off & 255])

    def question(name):
        nonlocal qd
        off = len(b)
        b.extend(name + T_SRV.to_bytes(2, "big") + C_IN.to_bytes(2, "big"))
        qd += 1
        return off

    def srv(owner, target, prio=None):
        nonlocal an
        b.extend(owner + T_SRV.to_bytes(2, "big") + C_IN.to_bytes(2, "big") + b"\0\0\0\x3c")
        rd = (rng.randrange(3) if prio is None else prio).to_bytes(2, "big") + rng.randrange(3).to_bytes(2, "big") + (5222).to_bytes(2, "big")
        b.extend((len(rd) + len(target)).to_bytes(2, "big") + rd)
        off = len(b)
        b.extend(target)
        an += 1
        return off

    if position == "question":
        pool = "questions"                                    # sections cannot be interleaved
    qoff = question(lab(3) + lab(7) + lab(3) + b"\0")      # q: xxx.example.org-like plain name at offset 12
    root_off = qoff + 4 + 8 + 4                               # its root octet
    place = (lambda name: question(name)) if pool == "questions" else (lambda name: srv(ptr(qoff), name))
    # pointee
    if pointee == 0:
        dest = rng.choice([0, root_off])
    elif pointee == 1:
        dest = place(lab(first_len) + lab(rng.randrange(1, 21)) + b"\0") if rng.random() < 0.5 else qoff
    else:
        dest = rng.choice([0, root_off, qoff, qoff + 4])
        for d in range(pointee - 1):
            n = first_len if d == pointee - 2 else rng.randrange(1, 21)
            extra = lab(rng.randrange(1, 21)) if rng.random() < 0.3 else b""
            dest = place(lab(n) + extra + ptr(dest))
    name = b"".join(lab(n) for n in split_labels(rng, plen, style)) + ptr(dest)
    if position == "question":
        question(name)
        srv(ptr(qoff), lab(2) + ptr(qoff + 4))
    elif position == "owner":
        srv(name, lab(2) + ptr(qoff + 4))
    else:
        srv(ptr(qoff), name)
    if rng.random() < 0.5:
        srv(ptr(qoff), lab(4) + ptr(qoff + 4))              # a following record keeps the list linked
    b[4:8] = qd.to_bytes(2, "big") + an.to_bytes(2, "big")
    return bytes(b)


def many_records(rng, n):
    bld = Builder(rng)
    bld.name([b"_xmpp-client", b"_tcp", b"example", b"org"], "plain")
    bld.b += T_SRV.to_bytes(2, "big") + C_IN.to_bytes(2, "big")
    for k in range(n):
        def rd():
            bld.b += rng.randrange(4).to_bytes(2, "big") + rng.randrange(4).to_bytes(2, "big") + (5222).to_bytes(2, "big")
            bld.name([b"h%d" % k, b"example", b"org"], "best")
        bld.rr([b"_xmpp-client", b"_tcp", b"example", b"org"], "best", T_SRV, C_IN, rd)
    bld.counts(1, n, 0, 0)
    return bytes(bld.b)


def gen_cases(chk):
    rng = chk.rng
    thorough = chk.tier == "thorough"
    cases = []

    def add(b, kind):
        if len(b) <= 65536:
            cases.append((hx(b), kind))

    def mutate_marks(msg, marks, kind, per_mark):
        for off, mk in marks:
            if off >= len(msg):
                continue
            vals = {0, 1, msg[off] ^ 1, (msg[off] + 1) & 255, (msg[off] - 1) & 255, 0xFF, 0xC0, 0x3F, 0x40, 0x80,
                    off & 255, (off - 1) & 255, (off + 1) & 255}
            vals.discard(msg[off])
            vals = sorted(vals)
            if per_mark and len(vals) > per_mark:
                vals = rng.sample(vals, per_mark)
            for v in vals:
                m = bytearray(msg)
                m[off] = v
                add(m, kind + "-" + mk)

    pk = captured_packets()
    for p in pk:
        add(p, "captured")
    # every truncation and the field-directed single-byte edits of the captured packets
    for p in pk:
        for cut in range(len(p)):
            add(p[:cut], "captured-truncate")
        for off in range(len(p)):
            for v in {0, 0xC0, 0xFF, (p[off] + 1) & 255, off & 255} - {p[off]}:
                m = bytearray(p)
                m[off] = v
                add(m, "captured-edit")
        add(p + b"\0", "captured-extend")
    # structured responses
    nstruct = 4200 if thorough else 700
    keep = []
    for k in range(nstruct):
        fl = ("mixed", "mixed", "mixed", "wild", "long", "short-last")[k % 6]
        msg, marks = structured(rng, fl)
        add(msg, "structured-" + fl)
        if k % 12 < (2 if thorough else 1):
            keep.append((msg, marks))
    # corruptions of structured responses
    for idx, (msg, marks) in enumerate(keep):
        mutate_marks(msg, marks, "corrupt", 0 if (thorough or idx < 12) else 3)
        if idx < (60 if thorough else 10):
            for cut in range(len(msg)):
                add(msg[:cut], "corrupt-truncate")
        else:
            for _ in range(8):
                add(msg[:rng.randrange(len(msg))], "corrupt-truncate")
        # pointer games: self, forward, into the header; rdlength lies
        ptrs = [o for o, mk in marks if mk == "ptr"][0::2]
        for o in ptrs[:6]:
            for tgt in (o, o + 2, o - 1, 0, 2, 11, 12, len(msg) - 1, len(msg), 0x3FFF):
                m = bytearray(msg)
                m[o] = 0xC0 | ((tgt >> 8) & 0x3F)
                m[o + 1] = tgt & 255
                add(m, "corrupt-pointer")
        for o in [o for o, mk in marks if mk == "rdlen"][0::2][:6]:
            cur = (msg[o] << 8) | msg[o + 1]
            for v in (0, 1, 5, 6, 7, cur - 1, cur + 1, cur + 2, len(msg), 0xFFFF):
                if 0 <= v <= 0xFFFF and v != cur:
                    m = bytearray(msg)
                    m[o:o + 2] = v.to_bytes(2, "big")
                    add(m, "corrupt-rdlength")
        for _ in range(10):
            m = bytearray(msg)
            for _ in range(rng.choice([1, 2, 3, 8])):
                m[rng.randrange(len(m))] = rng.randrange(256)
            add(m, "corrupt-random-bytes")
    # expansion exactly fills the target field: the labels before the final pointer are 250..260 characters long
    for plen in range(250, 261):
        for position in ("target", "owner", "question"):
            for pool in ("questions", "answers"):
                for pointee in (0, 1):
                    for style in ("max", "random"):
                        add(exact_fill(rng, plen, position, pointee, rng.randrange(1, 21), pool, style), "exact-fill-plain")
                for pointee in (2, 3, 4):
                    lens = range(1, 21) if (thorough or (position == "target" and 253 <= plen <= 258)) else (rng.randrange(1, 10), rng.randrange(10, 21))
                    for first_len in lens:
                        add(exact_fill(rng, plen, position, pointee, first_len, pool, rng.choice(["max", "random", "half"])),
                            "exact-fill-chain%d" % (pointee - 1))
    # hand-made boundary cases
    hdr = bytes([0, 0, 0x81, 0x80])
    for qd in (0, 1, 2, 65535):
        for an in (0, 1, 2, 65535):
            add(hdr + qd.to_bytes(2, "big") + an.to_bytes(2, "big") + b"\0\0\0\0", "header-only")
            add(hdr + qd.to_bytes(2, "big") + an.to_bytes(2, "big") + b"\0\0\0\0" + b"\0" * 40, "header-zeros")
            add(hdr + qd.to_bytes(2, "big") + an.to_bytes(2, "big") + b"\0\0\0\0" + b"\xc0\x0c" * 20, "header-selfptr")
    for label_len in (1, 62, 63, 64, 127, 128, 191, 192, 255):
        body = bytes([label_len]) + b"a" * 70 + b"\0" + b"\0\x21\0\x01"
        ans = b"\xc0\x0c\0\x21\0\x01\0\0\0\0\0\x09\0\x01\0\x02\x14\x66\xc0\x0c\0"
        add(hdr + b"\0\x01\0\x01\0\0\0\0" + body + ans, "label-length-boundary")
    for depth in ([1, 2, 3, 50, 500, 2000] + ([8000] if thorough else [])):
        for term in ("root", "label"):
            add(pointer_chain(rng, depth, term), "pointer-chain")
    for n in ([13, 100, 400] + ([3000] if thorough else [])):
        add(many_records(rng, n), "many-records")
    for _ in range(24):
        msg, _ = structured(rng, "long")
        add(msg, "structured-long")
    # random bytes
    for _ in range(20000 if thorough else 1500):
        add(rng.randbytes(rng.choice([0, 1, 11, 12, 13, 17, 20, 29, 30, 40, 64, 100])), "random")
    for _ in range(20000 if thorough else 1500):
        n = rng.choice([1, 5, 17, 30, 60, 120])
        qd = rng.choice([0, 1, 1, 2])
        an = rng.choice([1, 1, 2, 3])
        body = bytearray(rng.randbytes(n))
        for _ in range(n // 6):   # make label/pointer-looking bytes frequent
            body[rng.randrange(n)] = rng.choice([0, 0, 1, 2, 3, 0xC0, 0xC0, 0x0C, 33, 0x21])
        add(hdr + qd.to_bytes(2, "big") + an.to_bytes(2, "big") + b"\0\0\0\0" + bytes(body), "random-after-header")
    add(b"", "empty")
    return cases


def load_corpus():
    p = os.path.join(vlib.ROOT, "corpus", "C15.txt")
    if not os.path.exists(p):
        return []
    return [l.strip() for l in open(p) if l.strip() and not l.startswith("#")]


def nontrivial(case):
    b = b"" if case == "-" else bytes.fromhex(case)
    return len(b) > 12 and b[2] >> 7 == 1 and b[3] & 15 == 0 and (b[4] | b[5] | b[6] | b[7]) != 0


def drivers():
    exe = vlib.build_c_driver("c15", [os.path.join(vlib.ROOT, "harness", "c", "c15_driver.c")])
    return exe


CONST_ORDER = ["MESSAGE_HEADER_LEN", "MESSAGE_RESPONSE", "MESSAGE_T_SRV", "MESSAGE_C_IN", "MAX_DOMAIN_LEN",
               "XMPP_DOMAIN_NOT_FOUND", "XMPP_DOMAIN_FOUND", "hdr_octet2_off", "hdr_octet3_off", "hdr_qdcount_off",
               "hdr_ancount_off", "qr_shift", "qr_mask", "rcode_mask", "q_tail", "rr_type_off", "rr_class_off",
               "rr_rdlength_off", "rr_fixed_len", "srv_prio_off", "srv_weight_off", "srv_port_off", "srv_target_off",
               "label_mask", "label_tag", "pointer_tag", "pointer_mask", "pointer_shift"]


def gen_text():
    import importlib.util
    spec = importlib.util.spec_from_file_location("gens_resolver_c15", os.path.join(vlib.ROOT, "tools", "gens", "gen_resolver.py"))
    mod = importlib.util.module_from_spec(spec)
    spec.loader.exec_module(mod)
    return mod.generate()


def expected_fingerprint(text):
    """what the model driver must answer to "?" when it was extracted with this Gen_resolver.v"""
    consts = dict(re.findall(r"Definition (\w+) : Z := (\d+)\.", text))
    ovf = re.search(r"ovf_check_offsets : list Z := \[([^\]]*)\]", text).group(1).replace(" ", "").replace(";", ",")

    def fn(name, args):
        body = re.search(r"Definition %s \([^)]*\) : bool :=\s*(.*?)\.\n" % name, text, re.S).group(1)
        py = body.replace(">=?", ">=").replace("<=?", "<=").replace(">?", ">").replace("<?", "<").replace("=?", "==")
        py = py.replace("negb", "not").replace("||", " or ").replace("&&", " and ")
        return eval("lambda %s: (%s)" % (args, py))
    def zfn(name, args):
        body = re.search(r"Definition %s \([^)]*\) : Z :=\s*if (.*?) then (.*?) else (.*?)\.\n" % name, text, re.S)
        c = body.group(1).replace(">=?", ">=").replace("<=?", "<=").replace(">?", ">").replace("<?", "<").replace("=?", "==")
        return eval("lambda %s: ((%s) if (%s) else (%s))" % (args, body.group(2), c, body.group(3)))
    bit = lambda b: "1" if b else "0"
    ovfcmp = fn("ovf_check", "ptr, len")
    ptr = fn("pointer_guard", "pointer, buf_offset")
    swap = fn("srv_swap", "cp, cw, np, nw")
    idx = fn("idx_guard", "i, buf_len")
    lend = fn("label_end_guard", "last, buf_len")
    full = fn("name_full", "name_len, name_max")
    room = zfn("room_left", "name_max, name_len")
    copy, term, fix = fn("copy_guard", "copy_len"), fn("term_guard", "name_max"), fn("fixup_guard", "name_len")
    adj = re.search(r"Definition label_end_adjust : Z := (\d+)\.", text).group(1)
    tri = lambda f: "".join(bit(f(a, 5)) for a in (4, 5, 6))
    one = lambda f: "".join(bit(f(a)) for a in (-1, 0, 1))
    return "consts %s ovf=%s ovfcmp=%s ptr=%s swap=%s idx=%s lend=%s,%s full=%s room=%s copy=%s term=%s fix=%s" % (
        ",".join(consts[k] for k in CONST_ORDER), ovf, tri(ovfcmp), tri(ptr),
        "".join(bit(swap(cp, cw, np_, nw)) for cp in (1, 2) for cw in (1, 2) for np_ in (1, 2) for nw in (1, 2)),
        tri(idx), tri(lend), adj, "".join(bit(full(a, m)) for a in (4, 5, 6) for m in (0, 4, 5, 6)),
        ",".join(str(room(5, a)) for a in (4, 5, 6)), one(copy), one(term), one(fix))


def model_for_this_tree(chk):
    """The extracted model must have been built with the Gen_resolver.v of the tree under test.  coq/Gen is
    shared between trees (VERIF_REPO) and rewritten by every translator run, so the snapshot taken by
    vlib.coq_property can belong to another tree when something rewrote Gen_resolver.v between the proof
    build and the extraction.  Re-extract under the Coq lock if needed and verify with the fingerprint the
    driver prints for "?" (local work-around; vlib is not edited)."""
    try:
        want = gen_text()
    except Exception as e:  # translator failure is already reported by chk.prove()
        return vlib.build_ocaml_model("C15")
    exp = expected_fingerprint(want)
    last = None
    for attempt in range(3):
        try:
            mexe = vlib.build_ocaml_model("C15")
            last = vlib.run_lines(mexe, ["?"])[0]
            if last == exp:
                return mexe
        except vlib.BuildError as e:
            last = str(e)[:200]
        with vlib.Lock("coq"):
            vlib.translate.run(["resolver"])
            vlib.coq_make(["Extract/Extract_C15.vo"], keep_going=True)
            snap = os.path.join(vlib.BUILD, "extracted", "C15", vlib.repo_hash())
            os.makedirs(snap, exist_ok=True)
            for ext in ("ml", "mli"):
                f = os.path.join(vlib.COQ, "c15_model.%s" % ext)
                if os.path.exists(f):
                    import shutil
                    shutil.copy(f, snap)
    raise vlib.BuildError("extracted model does not belong to the tree under test: wanted %r, model says %r" % (exp, last))


def run(chk):
    chk.rule = ("structured responses from a compressing DNS message writer (1-12 answers of types SRV/A/AAAA/CNAME/TXT/OPT, "
                "pointers to earlier names, into the middle of names, chains, to root octets; labels 1..63; targets up to "
                "300 octets; priority/weight ties; short non-SRV last answers), the captured packets of tests/test_resolver.c, "
                "all their truncations and per-offset edits, field-directed single-byte edits of counts/lengths/pointers/"
                "rdlength/type/class, self/forward/header pointers, rdlength lies, names whose labels before the final "
                "pointer expand to 250..260 characters (256 = the target field exactly) at target/owner/question position "
                "with pointees root / plain name / label+pointer chains of depth 1-3 and label lengths 1..20, "
                "pointer chains up to depth 2000 (8000 "
                "thorough), up to 400 (3000) records, random bytes with and without a valid header; non-trivial = distinct "
                "message with QR=1, RCODE=0 and a non-zero question or answer count (the decoder enters the sections)")
    chk.assumptions = [
        "C15: strophe_alloc succeeds (the model has no allocation-failure branch; the driver's allocator never fails)",
        "C15: singly linked result list modelled as a Coq list (node relinking in resolver_srv_list_sort = list swap); tied by the correspondence run",
        "C15: size_t arithmetic in message_name_get is not reduced modulo 2^64 in the model (values stay below twice the message length)",
        "C15: memory safety of the C text itself is observed (ASan/UBSan on exact-size heap buffers), proved only for the model",
        "C15 oracle: hand-written strict RFC 1035 decoder in checks/C15.py (pointer must point before the start of the label run being expanded)",
    ]
    chk.prove()
    exe = drivers()
    cases = gen_cases(chk)
    corpus = load_corpus()
    lines = corpus + [c for c, _ in cases]
    kinds = ["corpus"] * len(corpus) + [k for _, k in cases]
    impl = vlib.run_parallel(exe, lines, per_case_timeout=30)
    model = None
    try:
        mexe = model_for_this_tree(chk)
        model = vlib.run_parallel(mexe, lines, per_case_timeout=120, timeout=600)
    except vlib.BuildError as e:
        chk.broken.append({"kind": "extract", "name": "Extract_C15", "detail": str(e)[:500]})
    seen = set()
    stats = {"found": 0, "not_found": 0, "crash": 0, "wellformed": 0, "wellformed_with_srv": 0}
    for i, line in enumerate(lines):
        chk.evaluations += 1
        chk.count(kinds[i])
        if line not in seen:
            seen.add(line)
            if nontrivial(line):
                chk.nontrivial.add(line)
        out = impl[i]
        if out.startswith("F"):
            stats["found"] += 1
        elif out.startswith("N"):
            stats["not_found"] += 1
        else:
            stats["crash"] += 1
        try:
            msg = decode_message(b"" if line == "-" else bytes.fromhex(line))
            if msg["qr"] == 1 and msg["rcode"] == 0:
                stats["wellformed"] += 1
                stats["wellformed_with_srv"] += 1 if msg["srv"] else 0
        except Malformed:
            pass
        bad = oracle(line, out)
        if bad:
            chk.fail(line, "; ".join(bad)[:600] + " (implementation output: %s)" % out[:200])
        if model is not None:
            chk.traces_validated += 1
            if model[i] != out:
                chk.disagree("dns", line, out, model[i])
        if i % 1499 == 0:
            chk.sample({"input": line[:400], "impl": out[:300], "model": (model[i][:300] if model else None)})
    chk.extra["result_kinds"] = stats


def replay(path):
    rec = json.load(open(path))
    f = rec.get("failure") or (rec.get("disagreements") or [{}])[0]
    case = f.get("case")
    if not case:
        print("replay file names no concrete input: %s" % json.dumps(rec.get("broken_obligations"))[:800])
        return 1
    impl = vlib.run_lines(drivers(), [case])[0]
    try:
        model = vlib.run_lines(model_for_this_tree(None), [case])[0]
    except vlib.BuildError:
        model = "(model unavailable)"
    bad = oracle(case, impl)
    print("input   : %s\nimpl    : %s\nmodel   : %s\nproperty: %s" % (case, impl, model, "holds" if not bad else "FAILS: " + "; ".join(bad)))
    return 1 if bad else 0
