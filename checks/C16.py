"""C16 - persisted stream-management state restores faithfully or is refused cleanly.

Layers: (1) theorems of coq/Properties/Properties_C16.v over SmBlobModel (whose constants and code shape are
re-extracted from src/conn.c by tools/gens/gen_smblob.py on every run); (2) correspondence: the extracted
model against the ASan/UBSan build of the working tree on the same scenarios; (3) the property oracle below,
independent of the model: its own encoder / strict parser of the blob format, and relational checks inside
one driver line (restored connection against the source connection and against a natively built twin; a
connection after a refused restore against one on which restore was refused before touching anything).
"""
import json
import os
import struct
import time

import vlib

MASK = 0xFFFFFFFF
R_ACK = b"<r xmlns='urn:xmpp:sm:3'/>"
CLEAN = "st=0;neg=0;sm=0;ql=0;qu=0;sq=-;lk=0:E"


def hx(b):
    return bytes(b).hex() if b else "-"


# ---------------------------------------------------------------------------------------------------
# the format from the property's point of view (independent of the model)

def u32(v):
    return struct.pack(">I", v & MASK)


def encode_state(sent, handled, sid, unsent, unacked, fields=None):
    """Returns the blob; `fields` (optional list) receives (kind, offset) of every tag / length / value."""
    out = bytearray()

    def tag(t, kind, val):
        if fields is not None:
            fields.append((kind, len(out), val))
        out.append(t)
        out.extend(u32(val))

    out += b"\x1a\x00\x00\x00\x00"
    tag(0x1a, "val", sent)
    tag(0x1a, "val", handled)
    tag(0x7a, "len", len(sid))
    out += sid
    tag(0x9a, "cnt", len(unsent))
    for t in unsent:
        tag(0x7a, "len", len(t))
        out += t
    tag(0xba, "cnt", len(unacked))
    for h, t in unacked:
        tag(0x1a, "val", h)
        tag(0x7a, "len", len(t))
        out += t
    return bytes(out)


def parse_blob(b):
    """Strict parser: the state if and only if b is exactly the serialisation of a state, else None."""
    pos = 0

    def word(t):
        nonlocal pos
        if len(b) - pos < 5 or b[pos] != t:
            raise ValueError
        v = struct.unpack(">I", b[pos + 1:pos + 5])[0]
        pos += 5
        return v

    def string():
        nonlocal pos
        n = word(0x7a)
        if len(b) - pos < n:
            raise ValueError
        s = b[pos:pos + n]
        pos += n
        return s

    try:
        if b[:5] != b"\x1a\x00\x00\x00\x00":
            return None
        pos = 5
        sent = word(0x1a)
        handled = word(0x1a)
        sid = string()
        if 0 in sid:
            return None
        n = word(0x9a)
        unsent = []
        for _ in range(n):
            if len(b) - pos < 5:
                raise ValueError
            unsent.append(string())
        m = word(0xba)
        unacked = []
        for _ in range(m):
            if len(b) - pos < 10:
                raise ValueError
            h = word(0x1a)
            unacked.append((h, string()))
        if pos != len(b):
            return None
        return (sent, handled, sid, unsent, unacked)
    except ValueError:
        return None


# ---------------------------------------------------------------------------------------------------
# driver output

def untext(t):
    if t == "N":
        return None
    if t in ("z", "-"):
        return b""
    return bytes.fromhex(t)


def parse_dump(d):
    f = dict(kv.split("=", 1) for kv in d.split(";"))
    r = {"raw": d, "st": int(f["st"]), "sm": f["sm"], "ql": int(f["ql"]), "qu": int(f["qu"]), "lk": f["lk"]}
    r["sq"] = []
    if f["sq"] != "-":
        for e in f["sq"].split(","):
            t, owner, wip, written, ud = e.split(".")
            r["sq"].append((untext(t), int(owner), int(wip), int(written), int(ud)))
    if f["sm"] == "1":
        r["s"], r["h"], r["id"], r["fl"] = int(f["s"]), int(f["h"]), untext(f["id"]), f["fl"]
        r["mq"] = []
        if f["mq"] != "-":
            for e in f["mq"].split(","):
                h, t, owner = e.split(".")
                r["mq"].append((int(h), untext(t), int(owner)))
    return r


def abstract(d):
    return (d["s"], d["h"], d["id"], [e[0] for e in d["sq"]], [(h, t) for h, t, _ in d["mq"]])


def parse_line(o):
    if not o or o.startswith("CRASH") or o.startswith("ABNORMAL"):
        return None
    toks = o.split(" ")
    r = {"kind": toks[0]}
    for t in toks[1:]:
        k, _, v = t.partition("=")
        r[k] = v
    return r


def strip_x(o):
    """The line without the per-op last-blob / live-state fields (the model driver does not print them)."""
    if not o or "x=" not in o:
        return o
    return " ".join(t for t in o.split(" ") if t.split("=", 1)[0] not in ("sopsx", "opsx", "topsx"))


def parse_live(l):
    """live_state() of the C driver -> (serialisable, abstract state) or None without a usable sm_state."""
    if l == "n":
        return None
    fl, sent, handled, sid, sq, mq = l.split("_")
    unsent = [] if sq == "-" else [untext(t) for t in sq.split(".")]
    unacked = [] if mq == "-" else [(int(e.split(":")[0]), untext(e.split(":")[1])) for e in mq.split(".")]
    return (fl == "111", (int(sent), int(handled), untext(sid), unsent, unacked))


def describe(st):
    return "sent=%d handled=%d id=%s unsent=[%s] unacked=[%s]" % (
        st[0], st[1], (st[2] or b"").hex() or "-", ",".join((t or b"").hex() or "z" for t in st[3]),
        ",".join("%d:%s" % (h, (t or b"").hex() or "z") for h, t in st[4]))


def stale_blobs(opnames, xfield, last):
    """The application persists every blob the SM callback hands it.  After every operation the last one must
    still describe the live connection (id, counters, both queues): whenever that content changes a fresh blob
    has to be handed over.  `last` = the blob the application holds before the first operation (None: none yet).
    Returns a list of reasons."""
    if xfield in (None, "-"):
        return []
    live = None
    for k, entry in enumerate(xfield.split(",")):
        b, _, l = entry.partition("|")
        if b == "null":
            last = "null"
        elif b != "=":
            last = b"" if b == "z" else bytes.fromhex(b)
        if l != "=":
            live = parse_live(l)
        if live is None or last is None:
            continue
        ser, st = live
        op = opnames[k] if k < len(opnames) else "?"
        if last == "null":
            if ser:
                return ["last blob is stale: the callback last handed NULL, the connection is resumable with %s after op #%d %s"
                        % (describe(st), k + 1, op[:40])]
            continue
        if not ser:
            continue
        got = parse_blob(last)
        if got is None:
            return ["the blob handed to the callback during/before op #%d %s is not a well-formed serialisation" % (k + 1, op[:40])]
        if got != st:
            return ["last blob is stale: still holds %s after op #%d %s, the live connection holds %s"
                    % (describe(got), k + 1, op[:40], describe(st))]
    return []


def abnormal(o):
    return o is None or o.startswith("CRASH") or o.startswith("ABNORMAL") or o == ""


def oracle(case, out, baseline):
    """Returns a list of reasons why the property fails on this case (empty = holds)."""
    try:
        return oracle_(case, out, baseline)
    except (KeyError, ValueError, IndexError) as e:
        return ["driver output cannot be interpreted (%s: %s): %s" % (type(e).__name__, e, (out or "")[:200])]


def oracle_(case, out, baseline):
    if abnormal(out):
        return ["memory error / abort in the library: %s" % (out or "")[:200]]
    r = parse_line(out)
    bad = []
    if r.get("rel") != "ok" or r.get("leak") != "0":
        bad.append("release: rel=%s leak=%s" % (r.get("rel"), r.get("leak")))
    rc = int(r["rc"])
    toks = case.split(" ")
    slash = toks.index("/")
    ops = " ".join(toks[slash + 1:])
    rops = toks[slash + 1:]
    if r["kind"] == "S":
        bad += stale_blobs(toks[4:slash], r.get("sopsx"), None)
    if rc == 0:
        # the restored connection's application holds the blob it restored from
        held = None
        if r["kind"] == "S" and r.get("blob") not in (None, "null"):
            held = bytes.fromhex(r["blob"]) if r["blob"] != "-" else b""
        elif r["kind"] == "B":
            held = bytes.fromhex(toks[1]) if toks[1] != "-" else b""
        bad += ["restored connection: " + w for w in stale_blobs(rops, r.get("opsx"), held)]
        bad += ["native twin: " + w for w in stale_blobs(rops, r.get("topsx"), None)]
    else:
        bad += ["after the refusal: " + w for w in stale_blobs(rops, r.get("opsx"), None)]
    if r["kind"] == "S":
        src = parse_dump(r["src"])
        want = abstract(src)
        if r["blob"] == "null":
            return bad + ["no blob was handed to the callback"]
        blob = bytes.fromhex(r["blob"]) if r["blob"] != "-" else b""
        st = parse_blob(blob)
        if st is None:
            bad.append("the blob from the callback is not a well-formed serialisation")
        elif st != want:
            bad.append("the blob does not describe the connection it was taken from: %r vs %r" % (st, want))
        valid = True
    else:
        blob = bytes.fromhex(toks[1]) if toks[1] != "-" else b""
        st = parse_blob(blob)
        valid = st is not None
        want = st
    if valid:
        if rc != 0:
            return bad + ["a valid blob was refused (rc=%d)" % rc]
        rst = parse_dump(r["rst"])
        if rst["sm"] != "1" or abstract(rst) != want:
            bad.append("restored state differs: %r, expected %r" % (abstract(rst) if rst["sm"] == "1" else None, want))
        n, m = len(want[3]), len(want[4])
        lk = ("%d:HTB" % n if n else "0:E") + "/" + ("%d:HTB" % m if m else "0:E")
        if rst["lk"] != lk:
            bad.append("restored queues are not well-formed doubly linked lists: %s, expected %s" % (rst["lk"], lk))
        if rst["ql"] != n or rst["qu"] != n:
            bad.append("queue counters %d/%d for %d elements" % (rst["ql"], rst["qu"], n))
        if rst.get("fl") != "11110" or rst["st"] != 0:
            bad.append("restored flags/state %s/%d" % (rst.get("fl"), rst["st"]))
        if any(e[1:] != (2, 0, 0, 0) for e in rst["sq"]) or any(e[2] != 2 for e in rst["mq"]):
            bad.append("restored elements are not plain user elements")
        if r.get("twin") == "nul":
            pass
        elif "twin" not in r:
            bad.append("no twin")
        else:
            if r["twin"] != r["rst"]:
                bad.append("restored connection differs from a natively built one: %s vs %s" % (r["rst"], r["twin"]))
            if r.get("ops") != r.get("tops"):
                bad.append("restored queues do not behave like native ones: ops %s vs %s" % (r.get("ops"), r.get("tops")))
            if r.get("fin") != r.get("tfin"):
                bad.append("after the operations the restored connection differs from the native one: %s vs %s"
                           % (r.get("fin"), r.get("tfin")))
    else:
        if rc == 0:
            return bad + ["a byte string that is not a serialised state was accepted"]
        if r["rst"] != CLEAN:
            bad.append("after the refusal the connection is not clean: %s" % r["rst"])
        b = baseline.get(ops)
        if b is not None and not abnormal(b):
            br = parse_line(b)
            if r.get("ops") != br.get("ops") or r.get("fin") != br.get("fin"):
                bad.append("after the refusal the connection does not behave like an untouched one: ops=%s fin=%s, expected ops=%s fin=%s"
                           % (r.get("ops"), r.get("fin"), br.get("ops"), br.get("fin")))
    return bad


# ---------------------------------------------------------------------------------------------------
# generators

ALPHA = b"abcdefghijklmnopqrstuvwxyzABCXYZ0123456789<>/='\" :-_."


def rand_text(rng, big=False):
    k = rng.random()
    if k < 0.08:
        n = 0
    elif k < 0.5:
        n = rng.randrange(1, 8)
    elif k < 0.85:
        n = rng.randrange(8, 80)
    elif k < 0.97 or not big:
        n = rng.choice([255, 256, 257, 1022, 1023, 1024, 1025, 1500])
    else:
        n = rng.choice([4096, 20000, 70000])
    if rng.random() < 0.15:
        return bytes(rng.randrange(1, 256) for _ in range(n))
    return bytes(rng.choice(ALPHA) for _ in range(n))


def rand_sched(rng):
    return ",".join(str(rng.choice([0, 1, 2, 3, 5, 25, 26, 27, 100, 1024, 100000, -1])) for _ in range(rng.randrange(0, 7)))


def rand_counter(rng):
    return rng.choice([0, 1, 2, 7, 255, 256, 65535, 65536, 0x7FFFFFFF, 0x80000000, MASK - 1, MASK, rng.randrange(0, 1 << 32)])


def rand_op(rng, sent_hint, connected, big=False):
    k = rng.random()
    if k < 0.34:
        return "s:" + hx(rand_text(rng, big))
    if k < 0.42:
        return "t:" + hx(rand_text(rng, big))
    if k < 0.66:
        return "r:" + rand_sched(rng)
    if k < 0.74:
        return "a:%d" % rng.choice([0, 1, (sent_hint + rng.randrange(0, 6)) & MASK, (sent_hint - 1) & MASK, MASK, 1 << 40])
    if k < 0.79:
        return "i"
    if k < 0.85:
        return "o"
    if k < 0.91:
        return "y"
    if k < 0.94:
        return "d"
    if k < 0.97:
        return "c"
    return "q"


def rand_rst_ops(rng, sent_hint, n=None):
    ops = []
    for _ in range(rng.randrange(0, 4)):          # while still disconnected
        ops.append(rng.choice(["q", "o", "y", "q", "o", "y", "s:4141", "r:5", "d"]))
    if rng.random() < 0.85:
        ops.append("c")
        for _ in range(rng.randrange(0, 10) if n is None else n):
            ops.append(rand_op(rng, sent_hint, True))
    return ops


def gen_sessions(chk):
    rng = chk.rng
    thorough = chk.tier == "thorough"
    cases = []

    def add(sent, handled, sid, sops, rops, kind):
        cases.append((" ".join(["S", str(sent), str(handled), hx(sid)] + list(sops) + ["/"] + list(rops)), kind))

    ids = [b"", b"x", b"SMID", b"stream-id-0123456789abcdef", bytes(range(1, 256)), b"i" * 300, b"i" * 1024]
    # empty state, every boundary counter
    for c in [0, 1, 255, 256, 0x7FFFFFFF, 0x80000000, MASK]:
        add(c, MASK - c, rng.choice(ids), [], ["q", "o", "y", "c", "s:41", "q", "r:9", "q"], "session-empty")
    for sid in ids:
        add(3, 4, sid, ["s:666f6f"], ["q", "c", "r:100,100"], "session-id")
    # queue shapes: n unsent, m unacked
    for n in list(range(0, 7)) + [20, 64]:
        for m in list(range(0, 5)) + [33]:
            if n > 6 and m > 4:
                continue
            sent = rand_counter(rng)
            sops = []
            for _ in range(m):
                sops.append("s:" + hx(rand_text(rng)))
            # write the first m user elements (and the <r/> after the first) completely
            sops.append("r:" + ",".join(["100000"] * (m + (1 if m else 0))))
            for _ in range(n):
                sops.append("s:" + hx(rand_text(rng)))
            for variant in range(3 if not thorough else 8):
                add(sent, rand_counter(rng), rng.choice(ids[:5]), sops, rand_rst_ops(rng, sent), "session-shape")
    # random sessions
    for _ in range(12000 if thorough else 1500):
        sent = rand_counter(rng)
        sops = [rand_op(rng, sent, True, big=thorough) for _ in range(rng.randrange(0, 14))]
        add(sent, rand_counter(rng), rng.choice(ids[:5]), sops, rand_rst_ops(rng, sent), "session-random")
    # big queues / big texts
    # (the extracted model serialises in time quadratic in the queue length and does so at every callback)
    nbig = 120 if thorough else 60
    for _ in range(6 if thorough else 3):
        sops = ["s:" + hx(rand_text(rng)) for _ in range(nbig)]
        sops.insert(nbig // 2, "r:" + ",".join(["100000"] * (nbig // 3)))
        add(rand_counter(rng), 5, b"big", sops, ["q", "y", "o", "c", "r:" + ",".join(["100000"] * 20), "q", "y", "o", "q"], "session-large")
    big = bytes(rng.choice(ALPHA) for _ in range(100000))
    add(1, 2, b"big", ["s:" + hx(big), "r:65536", "s:" + hx(big[:70000])], ["q", "c", "r:1,70000,100000", "q"], "session-large")
    # small-scope exhaustive: every operation sequence up to length L over a small alphabet on three restored states
    alpha = ["q", "o", "y", "c", "s:41", "r:1", "r:99,99,99"]
    bases = [(["s:6161", "s:6262", "s:6363"], "3 unsent"),
             (["s:6161", "s:6262", "r:99,99,1", "s:6363"], "1 unacked, partial head"),
             (["s:6161", "r:99,99"], "1 unacked, nothing unsent")]
    L = 4 if thorough else 3
    import itertools
    for sops, _ in bases:
        for k in range(0, L + 1):
            for seq in itertools.product(alpha, repeat=k):
                add(10, 20, b"ex", sops, list(seq), "session-exhaustive")
    return cases


def mutations(rng, blob, fields, thorough):
    """(bytes, kind) for every truncation, extensions, every single edit of a tag or length field, ..."""
    out = []
    n = len(blob)
    if n <= 260 or thorough:
        cuts = range(0, n)
    else:
        offs = set([0, 1, 4, 5, 29, 30, 31, n - 1, n - 2, n - 5])
        for _, off, _ in fields:
            offs.update([off - 1, off, off + 1, off + 4, off + 5, off + 6])
        cuts = sorted(o for o in offs if 0 <= o < n)
    for k in cuts:
        out.append((blob[:k], "truncate"))
    for ext in (b"\x00", b"\x1a", b"\x7a", b"\xff", blob[-5:], b"\x7a\x00\x00\x00\x00", b"\x1a\x00\x00\x00\x00\x7a\x00\x00\x00\x00",
                bytes(rng.randrange(256) for _ in range(rng.randrange(1, 12)))):
        out.append((blob + ext, "extend"))
    for i in range(5):
        for v in (blob[i] ^ 1, 0xff, 0x1b if i == 0 else 1):
            m = bytearray(blob)
            m[i] = v & 255
            out.append((bytes(m), "edit-version"))
    for kind, off, val in fields:
        for t in (0x1a, 0x7a, 0x9a, 0xba, 0x00, 0xff, blob[off] ^ 1, blob[off] ^ 0x80):
            if t != blob[off]:
                m = bytearray(blob)
                m[off] = t
                out.append((bytes(m), "edit-tag"))
        if kind == "val":
            for v in (val ^ 1, (val + 1) & MASK, 0, MASK, 0x80000000):
                m = bytearray(blob)
                m[off + 1:off + 5] = u32(v)
                out.append((bytes(m), "edit-value"))
        else:
            for v in (val - 1, val + 1, 0, MASK, 0x7FFFFFFF, 0x80000000, val + 256, val + 5, val ^ 0x01000000, n, n - off - 5, n - off - 4):
                if v != val and v >= 0:
                    m = bytearray(blob)
                    m[off + 1:off + 5] = u32(v)
                    out.append((bytes(m), "edit-length" if kind == "len" else "edit-count"))
    return out


def gen_blobs(chk, real_blobs):
    rng = chk.rng
    thorough = chk.tier == "thorough"
    cases = []
    opsets = [["q", "o", "y", "s:41", "q"], ["c", "s:41", "s:42", "q", "o", "r:9,9,9", "q"], ["q", "c", "i", "a:3", "t:4343", "y", "q"],
              ["o"], ["y", "c", "r:1", "o", "y"], []]

    def add(b, kind, ops=None):
        ops = rng.choice(opsets) if ops is None else ops
        cases.append((" ".join(["B", hx(b), "/"] + list(ops)), kind))

    states = [
        (0, 0, b"", [], []),
        (0, 0, b"SMID5", [], []),                     # 30 bytes up to the unacked-count tag: defect candidate #4
        (1, 2, b"SMID", [b"foo", R_ACK], []),
        (1, 0, b"SMID", [R_ACK], [(0, b"foo")]),
        (7, 9, b"id", [b"", b"a", b""], [(5, b""), (6, b"bb")]),
        (MASK, MASK, bytes(range(1, 64)), [b"x" * 300], [(MASK, b"y" * 257), (0, b"z")]),
        (5, 6, b"s", [b"a\x00b", b"\x00"], [(4, b"\x00\x00")]),   # NUL inside queue texts: valid
    ]
    for _ in range(40 if thorough else 8):
        states.append((rand_counter(rng), rand_counter(rng), bytes(rng.choice(ALPHA) for _ in range(rng.randrange(0, 12))),
                       [rand_text(rng) for _ in range(rng.randrange(0, 5))],
                       [(rand_counter(rng), rand_text(rng)) for _ in range(rng.randrange(0, 4))]))
    own = []
    for st in states:
        fields = []
        b = encode_state(*st, fields=fields)
        own.append((b, fields))
        add(b, "blob-valid")
        add(b, "blob-valid", ["q", "d", "o", "y", "c", "s:41", "r:2", "q", "y", "o", "r:999,999,999,999", "a:99", "q"])
    # blobs taken from real sessions: recover the field map with the strict parser
    chosen = []
    seen = set()
    for b in real_blobs:
        if b in seen or len(b) > 600:
            continue
        seen.add(b)
        st = parse_blob(b)
        if st is None:
            continue
        fields = []
        if encode_state(*st, fields=fields) == b:
            chosen.append((b, fields))
    rng.shuffle(chosen)
    for b, fields in own + chosen[:(120 if thorough else 14)]:
        for m, kind in mutations(rng, b, fields, thorough):
            add(m, kind)
    # NUL inside the id
    for sid in (b"\x00", b"ab\x00cd", b"abc\x00", b"\x00abc"):
        add(encode_state(1, 2, sid, [b"foo"], [(0, b"bar")]), "id-nul")
    # random bytes
    for _ in range(4000 if thorough else 500):
        n = rng.choice([0, 1, 4, 5, 6, 29, 30, 31, 35, 40, 64, 100])
        add(bytes(rng.randrange(256) for _ in range(n)), "random")
    for _ in range(4000 if thorough else 500):
        # valid prefix, random tail over the tag alphabet
        n = rng.randrange(25, 80)
        tail = bytes(rng.choice([0, 0, 0, 0, 1, 2, 0x1a, 0x7a, 0x9a, 0xba, 0xff, rng.randrange(256)]) for _ in range(n))
        add(b"\x1a\x00\x00\x00\x00" + tail, "random-structured")
    return cases


# ---------------------------------------------------------------------------------------------------

def load_corpus():
    p = os.path.join(vlib.ROOT, "corpus", "C16.txt")
    if not os.path.exists(p):
        return []
    return [l.rstrip("\n") for l in open(p) if l.strip() and not l.startswith("#")]


def build_impl_driver():
    last = None
    for _ in range(4):      # another check run on a different tree may clear build/ while we link
        try:
            return vlib.build_c_driver("c16", [os.path.join(vlib.ROOT, "harness", "c", "c16_driver.c")])
        except vlib.BuildError as e:
            last = e
            if "does not compile" in str(e):
                raise
            time.sleep(1.0)
    raise last


def build_model_driver(chk):
    try:
        return vlib.build_ocaml_model("C16")
    except vlib.BuildError as e:
        chk.broken.append({"kind": "extract", "name": "Extract_C16", "detail": str(e)[:500]})
        return None


def nontrivial(case, out):
    """A case counts as non-trivial when the restore got past the length / version pre-checks."""
    toks = case.split(" ")
    if toks[0] == "S":
        return True
    b = toks[1]
    return len(b) >= 60 and b.startswith("1a00000000")


def evaluate(chk, stream, cases, kinds, impl, model, baseline):
    for i, case in enumerate(cases):
        chk.evaluations += 1
        chk.count(kinds[i])
        if nontrivial(case, impl[i]):
            chk.nontrivial.add(case)
        for why in oracle(case, impl[i], baseline)[:1]:
            chk.fail(case, why, stream=stream, extra={"impl": (impl[i] or "")[:2000]})
        if model is not None:
            chk.traces_validated += 1
            a, b = strip_x(impl[i]), model[i]
            if not (a == b or (abnormal(a) and abnormal(b))):
                chk.disagree(stream, case, (a or "")[:1500], (b or "")[:1500])
        if i % 1499 == 0 and len(case) < 600:
            chk.sample({"input": case, "impl": (impl[i] or "")[:600], "model_agrees": None if model is None else model[i] == strip_x(impl[i])})


def ops_of(case):
    toks = case.split(" ")
    return " ".join(toks[toks.index("/") + 1:])


def baselines_for(cases):
    ops = sorted({ops_of(c) for c in cases if c.startswith("B ")})
    return ops, [("B - / " + o).rstrip() for o in ops]


def run(chk):
    chk.rule = ("round-trip scenarios: a source connection is built with the real library (SM state injected; user sends of "
                "lengths 0..100000; scripted partial writes; inbound <a/> and stanzas through the parser; drops), the blob handed "
                "to the SM callback is restored into a fresh connection (exact-size heap copy), the restored object is dumped "
                "(counters, id, queues, linkage walk) and driven by an operation sequence in parallel with a natively built twin; "
                "queue shapes 0..6/20/64 unsent x 0..4/33 unacked, boundary counters, 60/120-element queues, 100 kB texts, every "
                "operation sequence up to length 3 (quick) / 4 (thorough) over {qlen, drop oldest/youngest, connect, send, run "
                "1 byte, run all} on three restored states.  Arbitrary input: for hand-made and real-session blobs every "
                "truncation, extensions, every single edit of each tag / length / count / value field (0, +-1, 0x7fffffff, "
                "0x80000000, 0xffffffff, remaining length), version edits, NUL in the id, random bytes, random bytes over the "
                "tag alphabet behind a valid version.  Non-trivial = scenario that reaches past restore's length and version "
                "pre-checks.  Every operation of every connection (source, restored, native twin) is additionally followed by "
                "the blob the SM callback received during it and the live content of the connection; the last blob held must "
                "decode (strict Python parser) to that content.")
    chk.assumptions = [
        "allocation never fails (XMPP_EMEM paths are not modelled or exercised)",
        "fresh heap memory reads as zero in the model (sm_h of an element created by _send_raw is uninitialised in C and overwritten by the send loop before any read); the C driver's allocator fills with 0xAA",
        "64-bit pointers: `sm->state + l` does not wrap; input shorter than 4 GiB",
        "the send loop is reached through xmpp_run_once with conn->sock = 0 (no select); transport = scripted conn->intf.write",
        "queue texts are NUL-free when submitted through xmpp_send_raw (strophe_strndup truncates at NUL while the length is kept)",
        "the shape of the restore code (order of bounds test and tag read, prev link, err_reload clean-up, trailing/NUL tests) is recognised syntactically by tools/gens/gen_smblob.py",
        "oracle: independent Python encoder / strict parser of the blob format; behaviour compared inside the driver against a natively built twin and against a connection whose restore was refused before touching anything",
    ]
    chk.prove()
    exe = build_impl_driver()
    mexe = build_model_driver(chk)

    def both(lines):
        impl = vlib.run_parallel(exe, lines, timeout=600)
        model = vlib.run_parallel(mexe, lines, timeout=600) if mexe else None
        return impl, model

    # corpus first
    corpus = load_corpus()
    bops, blines = baselines_for(corpus)
    bimpl, _ = both(blines) if blines else ([], None)
    baseline = dict(zip(bops, bimpl))
    impl, model = both(corpus) if corpus else ([], None)
    evaluate(chk, "corpus", corpus, ["corpus"] * len(corpus), impl, model, baseline)
    corpus_failed = len(chk.failures) > 0

    # pass 1: sessions
    sess = gen_sessions(chk)
    if corpus_failed:
        chk.rng.shuffle(sess)
        sess = sess[:150]            # a defect is already pinned down; keep the run short (sanitizer reports are slow)
    chk.rng.shuffle(sess)            # spread the expensive scenarios over the shards
    lines = [c for c, _ in sess]
    impl, model = both(lines)
    evaluate(chk, "session", lines, [k for _, k in sess], impl, model, baseline)
    real = []
    for o in impl:
        r = parse_line(o)
        if r and r.get("blob") not in (None, "null", "-"):
            real.append(bytes.fromhex(r["blob"]))
    chk.extra["real_session_blobs"] = len(set(real))

    # pass 2: arbitrary input
    blobs = gen_blobs(chk, real)
    if corpus_failed:
        chk.rng.shuffle(blobs)
        blobs = blobs[:400]
    chk.rng.shuffle(blobs)
    lines = [c for c, _ in blobs]
    bops, blines = baselines_for(lines)
    bimpl, _ = both(blines)
    baseline.update(dict(zip(bops, bimpl)))
    impl, model = both(lines)
    evaluate(chk, "blob", lines, [k for _, k in blobs], impl, model, baseline)
    chk.extra["result_kinds"] = {
        "accepted": sum(1 for o in impl if o and " rc=0 " in o),
        "refused": sum(1 for o in impl if o and " rc=-2 " in o),
        "crash": sum(1 for o in impl if abnormal(o))}


def replay(path):
    rec = json.load(open(path))
    f = rec.get("failure") or (rec.get("disagreements") or [{}])[0]
    case = f.get("case")
    if not case:
        print("replay file names no concrete input: %s" % json.dumps(rec.get("broken_obligations"))[:800])
        return 1
    exe = build_impl_driver()
    ops = ops_of(case)
    impl, base = vlib.run_lines(exe, [case, ("B - / " + ops).rstrip()])
    try:
        model = vlib.run_lines(vlib.build_ocaml_model("C16"), [case])[0]
    except vlib.BuildError:
        model = "(model unavailable)"
    why = oracle(case, impl, {ops: base})
    print("input   : %s\nimpl    : %s\nmodel   : %s\nproperty: %s" % (case[:3000], impl[:3000], model[:3000],
                                                                      "holds" if not why else "FAILS - " + "; ".join(why)))
    return 1 if why else 0
