"""C17 - built-in digests equal the standards for every message and every split."""
import hashlib
import hmac
import json
import os
from concurrent.futures import ThreadPoolExecutor

import vlib

ALGS = ("sha1", "sha256", "sha512", "md5")
HMAC_ALGS = ("sha1", "sha256", "sha512")
BLOCK = {"sha1": 64, "sha256": 64, "sha512": 128, "md5": 64}
BOUNDARY = [0, 1, 55, 56, 57, 63, 64, 65, 111, 112, 113, 119, 120, 121, 127, 128, 129, 183, 184, 191, 192, 193,
            239, 240, 247, 248, 255, 256, 257]


def hx(b):
    return b.hex() if b else "-"


def unhx(s):
    return b"" if s == "-" else bytes.fromhex(s)


def lens_str(lens):
    return ",".join(str(x) for x in lens) if lens else "-"


def long_block(b, seed):
    """1 MiB block b of the L pattern: byte k = (k*131 + b*7 + seed) & 255 (period 256 in k)."""
    return bytes(((k * 131 + b * 7 + seed) & 255) for k in range(256)) * 4096


def oracle(line):
    """What the standards say the output line must be (Python hashlib / hmac; independent of the model)."""
    t = line.split(" ")
    op = t[0]
    if op == "U":
        return "U %s %s" % (t[1], hashlib.new(t[1], unhx(t[2])).hexdigest())
    if op == "O":
        return "O %s %s" % (t[1], hashlib.new(t[1], unhx(t[2])).hexdigest())
    if op == "M":
        return "M %s %s" % (t[1], hmac.new(unhx(t[2]), unhx(t[3]), t[1]).hexdigest())
    if op == "A":
        return "A %s" % (hashlib.sha1(unhx(t[2])).hexdigest() if int(t[1]) >= 41 else "null")
    if op == "X":
        d = hashlib.sha1(unhx(t[1])).hexdigest()
        return "X %s %s" % (d, d)
    if op == "L":
        h = hashlib.new(t[1])
        for b in range(int(t[2])):
            h.update(long_block(b, int(t[3])))
        return "L %s %s" % (t[1], h.hexdigest())
    if op == "G":
        n, seed = int(t[2]), int(t[3])
        pat = bytes(((k * 131 + seed) & 255) for k in range(256))
        h = hashlib.new(t[1])
        h.update(pat * (n // 256))
        h.update(pat[:n % 256])
        return "G %s %s" % (t[1], h.hexdigest())
    return "?"


def rand_split(rng, n, k, empties=True):
    """k pieces (some possibly empty) summing to n."""
    if k <= 1:
        return [n]
    cuts = sorted(rng.randrange(n + 1) for _ in range(k - 1)) if empties else sorted(rng.sample(range(1, n), min(k - 1, max(0, n - 1))))
    out, prev = [], 0
    for c in cuts:
        out.append(c - prev)
        prev = c
    out.append(n - prev)
    return out


def gen_cases(chk):
    rng = chk.rng
    thorough = chk.tier == "thorough"
    cases = []

    def add(line, kind):
        cases.append((line, kind))

    def U(alg, msg, lens, kind):
        add("U %s %s %s" % (alg, hx(msg), lens_str(lens)), kind)

    for alg in ALGS:
        B = BLOCK[alg]
        # every length 0..300: one-shot function, single update, byte-by-byte, random split with empty pieces
        for n in range(0, 301):
            msg = rng.randbytes(n)
            add("O %s %s" % (alg, hx(msg)), "oneshot")
            U(alg, msg, [n], "single-update")
            U(alg, msg, [1] * n, "byte-by-byte")
            U(alg, msg, rand_split(rng, n, rng.randrange(2, 8)), "random-split")
        # no update call at all; only empty updates
        U(alg, b"", [], "no-update")
        U(alg, b"", [0], "empty-updates")
        U(alg, b"", [0, 0, 0], "empty-updates")
        # all 2-splits
        top = 200 if thorough else 130
        for n in range(0, top + 1):
            msg = rng.randbytes(n)
            for c in range(0, n + 1):
                U(alg, msg, [c, n - c], "all-2-splits")
        # all 3-splits of short messages; around one / two blocks every pair of cuts taken from the boundary marks
        for n in range(0, 13 if not thorough else 40):
            msg = rng.randbytes(n)
            for a in range(0, n + 1):
                for b in range(a, n + 1):
                    U(alg, msg, [a, b - a, n - b], "all-3-splits")
        for n in ([B - 1, B, B + 1, 2 * B, 2 * B + 1] if not thorough else list(range(B - 9, B + 10)) + list(range(2 * B - 9, 2 * B + 10))):
            msg = rng.randbytes(n)
            marks = sorted({m for m in (0, 1, B - 9, B - 8, B - 1, B, B + 1, 2 * B - 9, 2 * B - 8, 2 * B - 1, 2 * B, n - 1, n) if 0 <= m <= n})
            for ia, a in enumerate(marks):
                for b in marks[ia:]:
                    U(alg, msg, [a, b - a, n - b], "boundary-3-splits")
        if thorough:
            for n in (B - 1, B, B + 1):
                msg = rng.randbytes(n)
                for a in range(0, n + 1):
                    for b in range(a, n + 1):
                        U(alg, msg, [a, b - a, n - b], "all-3-splits")
        # boundary lengths: cuts at and around every block / padding boundary, random k-splits with empties
        for n in BOUNDARY + [2 * B + B // 2, 3 * B, 3 * B + 1, 5 * B - 9, 5 * B - 8]:
            msg = rng.randbytes(n)
            for _ in range(12 if not thorough else 60):
                U(alg, msg, rand_split(rng, n, rng.randrange(2, 12)), "boundary-random-split")
            marks = sorted({m for m in (B - 9, B - 8, B - 1, B, B + 1, 2 * B - 1, 2 * B, 2 * B + 1, 55, 56, 111, 112) if 0 < m < n})
            if marks:
                cuts = [0] + marks + [n]
                U(alg, msg, [cuts[i + 1] - cuts[i] for i in range(len(cuts) - 1)], "boundary-marks")
                U(alg, msg, [x for i in range(len(cuts) - 1) for x in (cuts[i + 1] - cuts[i], 0)], "boundary-marks")
        # longer messages, block-aligned and not, with big and tiny pieces mixed
        for n in ([1000, 1024, 4096, 4097] if not thorough else [1000, 1023, 1024, 1025, 4095, 4096, 4097, 10000, 65536, 65537]):
            msg = rng.randbytes(n)
            add("O %s %s" % (alg, hx(msg)), "long")
            for _ in range(3 if not thorough else 10):
                U(alg, msg, rand_split(rng, n, rng.randrange(2, 30)), "long")
        # edge content
        for n in (B - 9, B - 8, B, 2 * B):
            for byte in (0x00, 0xff, 0x80):
                msg = bytes([byte]) * n
                U(alg, msg, rand_split(rng, n, 3), "edge-content")
    # HMAC: key lengths 0, 1, digest-ish, block-1, block, block+1, 200
    for alg in HMAC_ALGS:
        B = BLOCK[alg]
        for kl in (0, 1, 20, 32, 63, 64, 65, B - 1, B, B + 1, 200, 300):
            for ml in ([0, 1, 3, B - 9, B - 8, B - 1, B, B + 1, 2 * B, 300] + [rng.randrange(0, 301) for _ in range(4 if not thorough else 40)]):
                add("M %s %s %s" % (alg, hx(rng.randbytes(kl)), hx(rng.randbytes(ml))), "hmac-key%s" % ("<=block" if kl <= B else ">block"))
    # public xmpp_sha1_* API
    for n in list(range(0, 131)) + [191, 192, 193, 300]:
        msg = rng.randbytes(n)
        add("X %s" % hx(msg), "api-oneshot")
        add("A 41 %s %s" % (hx(msg), lens_str(rand_split(rng, n, rng.randrange(1, 6)))), "api-incremental")
    for slen in (0, 1, 20, 39, 40, 41, 42, 64, 100):
        msg = rng.randbytes(rng.randrange(0, 100))
        add("A %d %s %s" % (slen, hx(msg), lens_str([len(msg)])), "api-to_string-buffer")
    return cases


DRIVER = os.path.join(vlib.ROOT, "harness", "c", "c17_driver.c")


def build_exe():
    """Build the driver and run from a private copy: another check running concurrently on a different
    tree replaces build/drv (vlib.build_impl drops older builds)."""
    import shutil
    import time
    d = os.path.join(vlib.BUILD, "c17-run")
    os.makedirs(d, exist_ok=True)
    for old in os.listdir(d):       # copies left behind by interrupted runs
        try:
            if time.time() - os.path.getmtime(os.path.join(d, old)) > 3600:
                os.remove(os.path.join(d, old))
        except OSError:
            pass
    last = None
    for _ in range(5):
        try:
            exe = vlib.build_c_driver("c17", [DRIVER])
            dst = os.path.join(d, "%s-%d" % (os.path.basename(exe), os.getpid()))
            shutil.copy2(exe, dst)
            return dst
        except (FileNotFoundError, OSError) as e:
            last = e
            time.sleep(1)
    raise vlib.BuildError("driver c17 vanished while building: %s" % last)


def nontrivial_key(line):
    t = line.split(" ")
    if t[0] == "U":
        n = len(unhx(t[2]))
        return "U %s %d %s" % (t[1], n, t[3])
    return line


def run(chk):
    thorough = chk.tier == "thorough"
    chk.rule = ("per algorithm (sha1, sha256, sha512, md5): every length 0..300 with random content fed one-shot, as one update, "
                "byte-by-byte and in a random split with empty pieces; all 2-splits of every length <= 130 (thorough 200); all 3-splits "
                "of short and block-sized messages; boundary lengths 55/56/63/64/65/111/112/119/120/127/128/129... with cuts on the "
                "block and padding boundaries and random k-splits; longer messages; HMAC with key lengths 0,1,block-1,block,block+1,"
                "200,300 x boundary message lengths; public xmpp_sha1 API incl. to_string buffer sizes; 513 MiB streamed in 1 MiB updates "
                "(crossing 2^32 bits; C vs hashlib only) for sha1/md5 in both tiers and for sha256/sha512 in the thorough tier. distinct non-trivial = distinct (algorithm, length, split) / input line")
    chk.assumptions = ["oracle: Python hashlib / hmac (OpenSSL) as the reference implementation of FIPS 180-4, RFC 1321, RFC 2104",
                       "the equality of each C compression routine (unrolled macros, in-place schedules) with the model's round-list "
                       "interpreter is tied by this correspondence run, not proved",
                       "poison-twice: every context is pre-filled with 0xAA / 0x55; a digest depending on unwritten context memory shows as 'unstable'"]
    chk.prove()
    exe = build_exe()
    cases = gen_cases(chk)
    corpus = load_corpus()
    lines = corpus + [c for c, _ in cases]
    kinds = ["corpus"] * len(corpus) + [k for _, k in cases]
    # the cost per case differs a lot between algorithms: run in a shuffled order so that the shards are balanced
    order = list(range(len(lines)))
    chk.rng.shuffle(order)
    shuffled = [lines[i] for i in order]

    def run_balanced(prog, **kw):
        out = vlib.run_parallel(prog, shuffled, nshards=vlib.NCPU, **kw)
        res = [None] * len(lines)
        for k, i in enumerate(order):
            res[i] = out[k]
        return res

    impl = run_balanced(exe)
    # long streams: the split bit counters of SHA-1 / MD5 carry into count[1] / bits[1] at 2^32 bits = 512 MiB
    # (implementation vs hashlib only; the model covers this by theorem). Cheap enough for the quick tier for
    # the two algorithms that have a split counter; started now, collected after the model run.
    mib = {alg: (513 if (thorough or alg in ("sha1", "md5")) else 3) for alg in ALGS}
    longs = ["L %s %d %d" % (alg, mib[alg], chk.rng.randrange(256)) for alg in ALGS]
    # one single update of 2^29 + 57 bytes: the bit count overflows 32 bits inside ONE call (the 1 MiB stream above
    # never does that); sha1 and md5 (split counters) in the quick tier, all four in the thorough tier
    longs += ["G %s %d %d" % (alg, (1 << 29) + 57, chk.rng.randrange(256)) for alg in ALGS if (thorough or alg in ("sha1", "md5"))]
    pool = ThreadPoolExecutor(max_workers=8)
    long_out = [pool.submit(lambda l=l: vlib.run_lines(exe, [l], timeout=1500, per_case_timeout=1500)[0]) for l in longs]
    long_exp = [pool.submit(oracle, l) for l in longs]
    model = None
    try:
        mexe = vlib.build_ocaml_model("C17")
        model = run_balanced(mexe, timeout=900)
    except vlib.BuildError as e:
        chk.broken.append({"kind": "extract", "name": "Extract_C17", "detail": str(e)[:500]})
    for i, line in enumerate(lines):
        chk.evaluations += 1
        chk.count(kinds[i])
        chk.count("alg:" + (line.split(" ")[1] if line[0] in "UOM" else "sha1-api"))
        chk.nontrivial.add(nontrivial_key(line))
        exp = oracle(line)
        if impl[i] != exp:
            chk.fail(line, "implementation returned %r, the standard demands %r" % (impl[i], exp))
        if model is not None:
            chk.traces_validated += 1
            if model[i] != impl[i]:
                chk.disagree("digest", line, impl[i], model[i])
        if i % 4999 == 0:
            chk.sample({"input": line[:200], "impl": impl[i], "model": model[i] if model else None})
    for l, fo, fe in zip(longs, long_out, long_exp):
        o, e = fo.result(), fe.result()
        chk.evaluations += 1
        chk.count("long-stream-%dMiB" % int(l.split(" ")[2]))
        chk.nontrivial.add(l)
        if o != e:
            chk.fail(l, "implementation returned %r, the standard demands %r" % (o, e))
    pool.shutdown()
    chk.extra["long_stream_MiB"] = mib
    # report the smallest failing input first (it becomes the replay case)
    chk.failures.sort(key=lambda r: (len(r["case"]), r["case"]))
    chk.disagreements.sort(key=lambda r: (len(r["case"]), r["case"]))
    try:
        os.remove(exe)
    except OSError:
        pass


def load_corpus():
    p = os.path.join(vlib.ROOT, "corpus", "C17.txt")
    if not os.path.exists(p):
        return []
    return [l.strip() for l in open(p) if l.strip() and not l.startswith("#")]


def replay(path):
    rec = json.load(open(path))
    f = rec.get("failure") or (rec.get("disagreements") or [{}])[0]
    case = f.get("case")
    if not case:
        print("replay file names no concrete input: %s" % json.dumps(rec.get("broken_obligations"))[:500])
        return 1
    exe = build_exe()
    impl = vlib.run_lines(exe, [case], timeout=1500, per_case_timeout=1500)[0]
    if case.startswith("L") or case.startswith("G"):
        model = "(not run: covered by theorem)"
    else:
        try:
            model = vlib.run_lines(vlib.build_ocaml_model("C17"), [case])[0]
        except vlib.BuildError:
            model = "(model unavailable)"
    exp = oracle(case)
    print("input   : %s\nimpl    : %s\nmodel   : %s\nstandard: %s" % (case[:300], impl, model, exp))
    return 0 if impl == exp else 1
