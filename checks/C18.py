"""C18 - Base64 codec is exact and strict."""
import base64
import itertools
import json
import os
import re

import vlib

VALID = re.compile(rb"\A[A-Za-z0-9+/]*={0,2}\Z")
ALPHA = b"ABCDEFGHIJKLMNOPQRSTUVWXYZabcdefghijklmnopqrstuvwxyz0123456789+/"


def hx(b):
    return b.hex() if b else "-"


def ref_decode(b):
    """RFC 4648 value of a correctly padded string: all complete octets of the sextet stream."""
    body = b.rstrip(b"=")
    acc = 0
    for c in body:
        acc = (acc << 6) | ALPHA.index(c)
    nbits = 6 * len(body)
    acc >>= nbits % 8
    return acc.to_bytes(nbits // 8, "big")


def oracle(line):
    """Expected output line according to the property (independent of the model)."""
    op, arg = line[0], line[2:]
    b = b"" if arg == "-" else bytes.fromhex(arg)
    if op == "E":
        return "E " + hx(base64.b64encode(b))
    valid = len(b) > 0 and len(b) % 4 == 0 and VALID.match(b) is not None
    val = ref_decode(b) if valid else None
    if op == "D":
        return "D %d %s" % (len(val), hx(val)) if valid else "D null"
    if op == "S":
        if len(b) == 0:
            return "S -"
        return "S " + hx(val) if (valid and 0 not in val) else "S null"


def gen_cases(chk):
    rng = chk.rng
    thorough = chk.tier == "thorough"
    cases = []

    def add(op, b, kind):
        cases.append((op + " " + hx(bytes(b)), kind))

    # encoder: every length 0..300
    for n in range(0, 301):
        add("E", rng.randbytes(n), "enc-len")
    for n in (1023, 1024, 1025, 4096, 4097):
        add("E", rng.randbytes(n), "enc-long")
    for b in (b"\x00", b"\xff", b"\x00\x00", b"\xff\xff", b"\x00\x00\x00", b"\xff\xff\xff", b"\xfb\xef\xbe", b"\xfb\xff"):
        add("E", b, "enc-edge")
    # decoder: valid encodings
    nvalid = 400 if thorough else 150
    for n in range(1, nvalid):
        e = base64.b64encode(rng.randbytes(n))
        add("D", e, "dec-valid")
        add("S", e, "str-valid")
    # printable / NUL-containing values for the string variant
    for n in range(1, 60):
        v = bytes(rng.choice(b"abcXYZ019 ,=") for _ in range(n))
        add("S", base64.b64encode(v), "str-printable")
        pos = rng.randrange(n)
        v2 = v[:pos] + b"\x00" + v[pos + 1:]
        add("S", base64.b64encode(v2), "str-nul")
    # non-zero trailing bits (accepted, value ignores them)
    for _ in range(60):
        n = rng.choice([1, 2, 4, 5, 7, 8])
        e = bytearray(base64.b64encode(rng.randbytes(n)))
        k = len(e) - 1
        while e[k] == 61:
            k -= 1
        e[k] = rng.choice(ALPHA)
        add("D", e, "dec-trailing-bits")
    # mutations of valid encodings at every position
    muts = 0
    for n in ([1, 2, 3, 4, 5, 6, 7, 9, 12, 30, 31, 32] if not thorough else list(range(1, 40))):
        base = base64.b64encode(rng.randbytes(n))
        for pos in range(len(base)):
            for rep in (61, 42, 0, 0x80 | rng.randrange(128), 10, 32, 45, 95):
                m = bytearray(base)
                m[pos] = rep
                add("D", m, "dec-mut-replace")
                if rep in (61, 0):
                    add("S", m, "str-mut-replace")
            m = bytearray(base)
            m.insert(pos, 61)
            add("D", m, "dec-mut-insert-pad")
            add("D", m[:-1], "dec-mut-insert-pad-trim")
        for cut in range(len(base)):
            add("D", base[:cut], "dec-truncate")
        add("D", base + b"=", "dec-extend")
        add("D", base + b"====", "dec-extend")
        add("D", base + b"A", "dec-extend")
        add("D", base + base, "dec-concat")   # pad in the middle when n % 3 != 0
    # small-alphabet exhaustive enumeration
    sym = b"AQ/=*"
    maxlen = 8 if thorough else 5
    for L in range(0, maxlen + 1):
        if L % 4 != 0 and L > 5:
            # lengths that are not a multiple of four are all rejected by the first test; sample them
            for _ in range(200):
                add("D", bytes(rng.choice(sym) for _ in range(L)), "dec-small-alpha-sample")
            continue
        for t in itertools.product(sym, repeat=L):
            add("D", bytes(t), "dec-small-alpha")
    if not thorough:
        for _ in range(4000):
            add("D", bytes(rng.choice(sym) for _ in range(8)), "dec-small-alpha-sample")
        for _ in range(1500):
            add("D", bytes(rng.choice(b"AQ/=") for _ in range(12)), "dec-small-alpha-sample")
    # random garbage
    for _ in range(2000 if thorough else 300):
        add("D", rng.randbytes(rng.choice([4, 8, 12, 16, 3, 5])), "dec-random")
    add("D", b"", "dec-empty")
    add("S", b"", "str-empty")
    return cases


def run(chk):
    chk.rule = ("encoder: every length 0..300 + long + edge bytes; decoder: valid encodings, every-position mutations "
                "(pad/foreign/NUL/high-bit/insert/truncate/extend/concatenate), exhaustive strings over {A,Q,/,=,*} up to length "
                "5 (quick) / 8 (thorough), random garbage; non-trivial = distinct input whose decode is not rejected by the "
                "length%4 test alone, or any encoder input")
    chk.assumptions = ["poison-twice allocator detects an unwritten output byte unless the library happens to write both poison values",
                       "oracle: Python base64 + regex for 'correctly padded' (non-canonical trailing bits accepted, as RFC 4648 permits)"]
    chk.prove()
    exe = vlib.build_c_driver("c18", [os.path.join(vlib.ROOT, "harness", "c", "c18_driver.c")])
    cases = gen_cases(chk)
    corpus = load_corpus()
    lines = corpus + [c for c, _ in cases]
    kinds = ["corpus"] * len(corpus) + [k for _, k in cases]
    impl = vlib.run_parallel(exe, lines)
    model = None
    try:
        mexe = vlib.build_ocaml_model("C18")
        model = vlib.run_parallel(mexe, lines)
    except vlib.BuildError as e:
        chk.broken.append({"kind": "extract", "name": "Extract_C18", "detail": str(e)[:500]})
    seen = set()
    for i, line in enumerate(lines):
        chk.evaluations += 1
        chk.count(kinds[i])
        if line not in seen:
            seen.add(line)
            arg = line[2:]
            n = 0 if arg == "-" else len(arg) // 2
            if line[0] == "E" or (n > 0 and n % 4 == 0):
                chk.nontrivial.add(line)
        exp = oracle(line)
        if impl[i] != exp:
            chk.fail(line, "implementation returned %r, property demands %r" % (impl[i], exp))
        if model is not None:
            chk.traces_validated += 1
            if model[i] != impl[i]:
                chk.disagree("base64", line, impl[i], model[i])
        if i % 997 == 0:
            chk.sample({"input": line, "impl": impl[i], "model": model[i] if model else None})
    chk.extra["result_kinds"] = {
        "accepted": sum(1 for o in impl if o and not o.endswith("null") and not o.startswith("CRASH")),
        "rejected": sum(1 for o in impl if o and o.endswith("null")),
        "crash": sum(1 for o in impl if o and o.startswith("CRASH"))}


def load_corpus():
    p = os.path.join(vlib.ROOT, "corpus", "C18.txt")
    if not os.path.exists(p):
        return []
    return [l.strip() for l in open(p) if l.strip() and not l.startswith("#")]


def replay(path):
    rec = json.load(open(path))
    f = rec.get("failure") or (rec.get("disagreements") or [{}])[0]
    case = f.get("case")
    if not case:
        print("replay file names no concrete input: %s" % json.dumps(rec.get("broken_obligations"))[:500])
        return 1
    exe = vlib.build_c_driver("c18", [os.path.join(vlib.ROOT, "harness", "c", "c18_driver.c")])
    impl = vlib.run_lines(exe, [case])[0]
    try:
        model = vlib.run_lines(vlib.build_ocaml_model("C18"), [case])[0]
    except vlib.BuildError:
        model = "(model unavailable)"
    exp = oracle(case)
    print("input   : %s\nimpl    : %s\nmodel   : %s\nproperty: %s" % (case, impl, model, exp))
    return 0 if impl == exp else 1
