"""C19 - JID helpers partition and rebuild addresses consistently."""
import itertools
import json
import os
import re

import vlib

FORBIDDEN = b"\"&'/:<>@"      # RFC 7622 3.3.1, the characters the property text lists
LIMIT = 1023                  # RFC 7622: no part longer than 1023 octets
HEXTOK = re.compile(r"\A(?:[0-9a-f]{2})+\Z")
DRIVER = os.path.join(vlib.ROOT, "harness", "c", "c19_driver.c")


def hx(b):
    if b is None:
        return "null"
    return bytes(b).hex() if b else "-"


def unhx(t):
    if t == "null":
        return None
    if t == "-":
        return b""
    return bytes.fromhex(t)


# --------------------------------------------------------------------------------------
# property oracle: an independent statement of the property on the observable results
# --------------------------------------------------------------------------------------
def split_violations(j, fields):
    """fields = the driver's [bare, node, domain, resource] tokens for the string j.
    Returns a list of what the property demands and the implementation does not deliver."""
    bad = []
    for name, tok in zip(("bare", "node", "domain", "resource"), fields):
        if tok not in ("null", "-") and not HEXTOK.match(tok):
            bad.append("%s result is %s" % (name, tok))
    if bad:
        return bad
    bare, node, domain, resource = [unhx(t) for t in fields]
    if bare is None:
        bad.append("bare JID is NULL")
    if domain is None:
        bad.append("domain is NULL")
    if bad:
        return bad
    # joining the returned parts reproduces the string
    joined = (node + b"@" if node is not None else b"") + domain + (b"/" + resource if resource is not None else b"")
    if joined != j:
        bad.append("joining node/domain/resource gives %s, not the string" % hx(joined))
    # the bare JID is the string without its resource
    if bare + (b"/" + resource if resource is not None else b"") != j:
        bad.append("bare JID %s plus resource does not give the string" % hx(bare))
    # resource = everything after the first '/'
    k = j.find(b"/")
    want_res = None if k < 0 else j[k + 1:]
    if resource != want_res:
        bad.append("resource is %s, everything after the first '/' is %s" % (hx(resource), hx(want_res)))
    # node = everything before the first '@' of the rest, domain = what follows
    rest = j if k < 0 else j[:k]
    a = rest.find(b"@")
    want_node = None if a < 0 else rest[:a]
    want_dom = rest if a < 0 else rest[a + 1:]
    if node != want_node:
        bad.append("node is %s, everything before the first '@' of the rest is %s" % (hx(node), hx(want_node)))
    if domain != want_dom:
        bad.append("domain is %s, expected %s" % (hx(domain), hx(want_dom)))
    if bare != rest:
        bad.append("bare JID is %s, the string without its resource is %s" % (hx(bare), hx(rest)))
    return bad


def must_refuse(node, domain, resource):
    if domain is None:
        return "missing domain"
    for name, p in (("local part", node), ("domain", domain), ("resource", resource)):
        if p is not None and len(p) > LIMIT:
            return "%s longer than %d bytes" % (name, LIMIT)
    if node is not None and any(c in FORBIDDEN for c in node):
        return "forbidden character in the local part"
    return None


def oracle(line, out):
    """List of property violations of the implementation's output line `out` for input `line`."""
    toks = line.split(" ")
    if out is None or out.startswith("CRASH"):
        return ["implementation crashed: %s" % out]
    o = out.split(" ")
    bad = []
    if o and o[-1].startswith("leak="):
        bad.append("memory of the library's allocator still live after the call (%s)" % o[-1])
        o = o[:-1]
    if toks[0] == "P":
        j = unhx(toks[1])
        if len(o) != 5 or o[0] != "P":
            return bad + ["malformed result %r" % out]
        return bad + split_violations(j, o[1:])
    if toks[0] == "N":
        node, domain, resource = [unhx(t) for t in toks[1:4]]
        why = must_refuse(node, domain, resource)
        if o[0] != "N" or len(o) not in (2, 6):
            return bad + ["malformed result %r" % out]
        if why:
            if o[1] != "null":
                bad.append("%s must be refused, got %s" % (why, o[1][:80]))
            return bad
        if o[1] in ("null", "uninit", "unstable") or len(o) != 6:
            return bad + ["well-formed parts must be accepted, got %s" % o[1]]
        j = unhx(o[1])
        want = (node + b"@" if node is not None else b"") + domain + (b"/" + resource if resource is not None else b"")
        if j != want:
            bad.append("built %s, expected %s" % (hx(j)[:80], hx(want)[:80]))
        bad += ["split of the built JID: " + b for b in split_violations(j, o[2:])]
        if b"/" not in domain and b"@" not in domain and not bad:
            got = [unhx(t) for t in o[2:]]
            if got[1] != node or got[2] != domain or got[3] != resource:
                bad.append("splitting the built JID returns (%s, %s, %s), not the parts it was built from"
                           % (hx(got[1])[:60], hx(got[2])[:60], hx(got[3])[:60]))
        return bad
    return ["unknown case"]


# --------------------------------------------------------------------------------------
# generators
# --------------------------------------------------------------------------------------
ODD = [b"", b"@domain", b"node@", b"/res", b"a@b/c@d/e", b"a@b/", b"@", b"/", b"@/", b"/@", b"@@", b"//",
       b"a@b@c", b"a/b/c", b"a/b@c", b"a@/b", b"@a/", b"/a@", b"a@b/c/d@e", b"a@@b", b"a//b", b"@/@/", b"/@/@",
       b"foo@bar.com", b"anyone@example.com/hullo", b"a.example.com/b@example.net", b"domain.tld",
       "jürgen@münchen.example/☃".encode(), b"\xff@\xfe/\x80", b"\x01@\x7f/\x01",
       b"a@b/" + b"\xf0\x9f\x98\x80", b"\xc3@\xa9", b"\xe2\x82/\xac"]

UTF8 = ["é", "ü", "Ж", "中", "☃", "\U0001f600", "ß"]


def rnd_seg(rng, maxlen, allow_sep=False):
    """a random run of bytes without NUL; without '@' and '/' unless allow_sep"""
    n = rng.randrange(0, maxlen + 1)
    out = bytearray()
    while len(out) < n:
        k = rng.random()
        if k < 0.45:
            out += bytes([rng.choice(b"abcxyz019.-_ ")])
        elif k < 0.6:
            out += bytes([rng.choice(b"\"&':<>")])
        elif k < 0.75:
            out += bytes([rng.randrange(0x80, 0x100)])
        elif k < 0.9:
            out += rng.choice(UTF8).encode()
        elif allow_sep and k < 0.96:
            out += bytes([rng.choice(b"@/")])
        else:
            c = rng.randrange(1, 0x80)
            if allow_sep or c not in b"@/":
                out.append(c)
    return bytes(out)


def clean(rng, n, pool=b"abcdefghijklmnopqrstuvwxyz0123456789.-"):
    return bytes(rng.choice(pool) for _ in range(n))


def gen_cases(chk):
    rng = chk.rng
    thorough = chk.tier == "thorough"
    cases = []

    def P(j, kind):
        assert 0 not in j
        cases.append(("P " + hx(j), kind))

    def N(n, d, r, kind):
        assert all(p is None or 0 not in p for p in (n, d, r))
        cases.append(("N %s %s %s" % (hx(n), hx(d), hx(r)), kind))

    # ---- parse ----
    for j in ODD:
        P(j, "parse-odd-literal")
    # every string over {a, @, /, 0xC3} up to a length
    sym = b"a@/\xc3"
    for L in range(0, (8 if thorough else 6) + 1):
        for t in itertools.product(sym, repeat=L):
            P(bytes(t), "parse-small-alphabet")
    # 0..3 '@' and 0..3 '/' in every order, random segments between them
    variants = 60 if thorough else 3
    for na in range(4):
        for ns in range(4):
            orders = sorted(set(itertools.permutations("@" * na + "/" * ns)))
            for order in orders:
                for _ in range(variants):
                    maxlen = rng.choice([0, 1, 3, 8, 20])
                    j = rnd_seg(rng, maxlen)
                    for sep in order:
                        j += sep.encode() + rnd_seg(rng, maxlen)
                    P(j, "parse-seps-%d@-%d/" % (na, ns))
    # unstructured random strings, separators anywhere
    for _ in range(40000 if thorough else 600):
        P(rnd_seg(rng, rng.choice([2, 5, 12, 40]), allow_sep=True), "parse-random")
    # long parts around the limits
    lens = [0, 1, 1022, 1023, 1024, 1025]
    for ln in lens:
        for ld in lens:
            for lr in lens:
                if not thorough and sum(1 for x in (ln, ld, lr) if x > 1) not in (1, 3) and rng.random() < 0.7:
                    continue
                P(clean(rng, ln) + b"@" + clean(rng, ld) + b"/" + clean(rng, lr), "parse-long-parts")
    P(clean(rng, 5000), "parse-long-parts")
    P(clean(rng, 3000) + b"/" + clean(rng, 3000, b"ab@/"), "parse-long-parts")
    P(b"@" * 2000 + b"/" * 2000, "parse-long-parts")

    # ---- build ----
    for n in (None, b"", b"n", b"node"):
        for d in (None, b"", b"d", b"domain.tld"):
            for r in (None, b"", b"r", b"res/with@both"):
                N(n, d, r, "new-presence")
    # all small triples over {a,@,/} (and NULL)
    small = [None] + [bytes(t) for L in range(0, 3) for t in itertools.product(b"a@/", repeat=L)]
    for n in small:
        for d in small:
            for r in small:
                N(n, d, r, "new-small-alphabet")
    # lengths around the limits, one part at a time and all combinations of 1023/1024
    blens = [1022, 1023, 1024, 1025, 2047]
    for L in blens:
        for others in (True, False):
            o = b"x" if others else None
            N(clean(rng, L), b"d", o, "new-limit-local")
            N(o, clean(rng, L), o, "new-limit-domain")
            N(o, b"d", clean(rng, L), "new-limit-resource")
    for ln in (1023, 1024):
        for ld in (1023, 1024):
            for lr in (1023, 1024):
                N(clean(rng, ln), clean(rng, ld), clean(rng, lr), "new-limit-combo")
    N(rnd_seg(rng, 0) + bytes(rng.randrange(0x80, 0x100) for _ in range(1023)), b"d", None, "new-limit-local")
    N(("é" * 511).encode() + b"a", ("é" * 512).encode(), ("中" * 341).encode(), "new-limit-utf8")
    N(("é" * 512).encode(), b"d", None, "new-limit-utf8")
    # every forbidden character at first / middle / last position, several lengths
    for c in FORBIDDEN:
        for L in (1, 2, 3, 9, 64, 1023, 1024):
            for pos in sorted({0, L // 2, L - 1}):
                n = bytearray(clean(rng, L))
                n[pos] = c
                N(bytes(n), b"dom", rng.choice([None, b"r"]), "new-forbidden-char")
    # every single byte value as / inside a local part: exactly the eight are refused
    for c in range(1, 256):
        N(bytes([c]), b"d", None, "new-local-byte")
        N(b"ab" + bytes([c]) + b"cd", b"d", b"r", "new-local-byte")
    # separators inside domain / resource (outside the round-trip hypothesis; still must be the concatenation)
    for d in (b"a/b", b"a@b", b"/", b"@", b"a@b/c", b"d/"):
        for n in (None, b"n"):
            for r in (None, b"r", b"r/@"):
                N(n, d, r, "new-sep-in-domain")
    # high-bit / UTF-8 parts
    for _ in range(3000 if thorough else 150):
        n = rng.choice(UTF8 + ["n"]).encode() * rng.randrange(0, 4) if rng.random() < 0.8 else None
        d = rng.choice(UTF8 + ["d."]).encode() * rng.randrange(0, 4) + bytes([rng.randrange(0x80, 0x100)])
        r = rnd_seg(rng, 10, allow_sep=True) if rng.random() < 0.7 else None
        N(n, d, r, "new-utf8")
    # random triples
    for _ in range(40000 if thorough else 800):
        def part(allow):
            k = rng.random()
            if k < 0.2:
                return None
            if k < 0.8:
                return clean(rng, rng.randrange(0, 12))
            return rnd_seg(rng, 12, allow_sep=allow)
        N(part(rng.random() < 0.3), part(rng.random() < 0.2), part(True), "new-random")
    return cases


def impl_exe():
    # build_impl() drops the builds of other trees; with several checks running concurrently on different
    # VERIF_REPO trees a build directory can disappear under our feet -> retry
    last = None
    for _ in range(4):
        try:
            return vlib.build_c_driver("c19", [DRIVER])
        except OSError as e:
            last = e
        except vlib.BuildError as e:
            if "No such file or directory" not in str(e):
                raise
            last = e
    raise vlib.BuildError("driver build directory keeps disappearing: %s" % last)


def run_impl(lines, parallel=True):
    """Run the C driver; if the executable vanished (another check rebuilt the implementation for a
    different tree, which drops older builds) rebuild it and try again."""
    last = None
    for _ in range(4):
        exe = impl_exe()
        try:
            return (vlib.run_parallel if parallel else vlib.run_lines)(exe, lines)
        except OSError as e:
            last = e
    raise vlib.BuildError("driver executable keeps disappearing: %s" % last)


def load_corpus():
    p = os.path.join(vlib.ROOT, "corpus", "C19.txt")
    if not os.path.exists(p):
        return []
    return [l.strip() for l in open(p) if l.strip() and not l.startswith("#")]


def nontrivial(line):
    t = line.split(" ")
    if t[0] == "P":
        j = unhx(t[1])
        return b"@" in j or b"/" in j
    return t[2] != "null"


def run(chk):
    chk.rule = ("parse: odd literals, every string over {a,@,/,0xC3} up to length 6 (quick) / 8 (thorough), 0-3 '@' and 0-3 '/' "
                "in every order with random segments (ASCII, forbidden, high-bit, UTF-8), unstructured random strings, parts of "
                "0/1/1022..1025 bytes; build: presence combinations, every triple over {NULL} + strings over {a,@,/} up to length 2, "
                "each part at 1022..1025/2047 bytes, every forbidden character at first/middle/last position, every byte value "
                "1..255 in a local part, separators inside domain/resource, UTF-8 parts, random triples; each built JID is split "
                "again. distinct & non-trivial = distinct input line that contains a separator (parse) or has a domain (build)")
    chk.assumptions = ["C strings: inputs are NUL-free by construction; a NULL jid argument of the four splitting helpers and "
                       "allocation failure are not exercised",
                       "oracle: Python bytes.find/partition statement of RFC 7622 section 3.2 and of the refusal conditions "
                       "(independent of the Coq model)"]
    chk.prove()
    impl_exe()
    cases = gen_cases(chk)
    corpus = load_corpus()
    lines = corpus + [c for c, _ in cases]
    kinds = ["corpus"] * len(corpus) + [k for _, k in cases]
    impl = run_impl(lines)
    model = None
    if chk.coq and not chk.coq.get("extract_ok", False):
        # the model could not be regenerated from this tree (translator or Coq failure, reported above as a
        # broken obligation); a model extracted by an earlier run is stale and is not compared
        chk.broken.append({"kind": "extract", "name": "Extract_C19",
                           "detail": "model not rebuilt for this tree; correspondence skipped, property oracle still evaluated"})
    else:
        try:
            mexe = vlib.build_ocaml_model("C19")
            model = vlib.run_parallel(mexe, lines)
        except vlib.BuildError as e:
            chk.broken.append({"kind": "extract", "name": "Extract_C19", "detail": str(e)[:500]})
    seen, done, differ = set(), set(), set()
    results = {"parse": 0, "built": 0, "refused": 0, "crash": 0}
    for i, line in enumerate(lines):
        chk.evaluations += 1
        chk.count(kinds[i])
        if line not in seen:
            seen.add(line)
            if nontrivial(line):
                chk.nontrivial.add(line)
        out = impl[i]
        if out is None or out.startswith("CRASH"):
            results["crash"] += 1
        elif line[0] == "P":
            results["parse"] += 1
        elif out.startswith("N null"):
            results["refused"] += 1
        else:
            results["built"] += 1
        bad = oracle(line, out) if line not in done else []
        done.add(line)
        if bad:
            chk.fail(line, "; ".join(bad)[:600] + " (implementation returned %s)" % str(out)[:200])
        if model is not None:
            chk.traces_validated += 1
            if model[i] != out and line not in differ:
                differ.add(line)
                chk.disagree("jid", line, out, model[i])
        if i % 1499 == 0:
            chk.sample({"input": line[:200], "impl": str(out)[:200], "model": model[i][:200] if model else None})
    chk.extra["result_kinds"] = results
    if chk.failures:
        # report the smallest failing input first, minimised further by delta debugging on its bytes
        chk.failures.sort(key=lambda f: len(f["case"]))
        first = chk.failures[0]
        small = shrink_case(first["case"])
        if small != first["case"]:
            out = run_impl([small], parallel=False)[0]
            chk.failures.insert(0, {"stream": "oracle-shrunk", "case": small, "shrunk_from": first["case"][:400],
                                    "what": "; ".join(oracle(small, out))[:600] + " (implementation returned %s)" % str(out)[:200]})


def shrink_case(line):
    """Delta-debug the bytes of every string of the case while the property still fails on the implementation."""
    toks = line.split(" ")

    def fails(ts):
        l = " ".join(ts)
        return bool(oracle(l, run_impl([l], parallel=False)[0]))

    for i in range(1, len(toks)):
        b = unhx(toks[i])
        if not b or len(b) < 2:
            continue

        def still(cand, i=i):
            ts = list(toks)
            ts[i] = hx(bytes(cand))
            return fails(ts)
        toks[i] = hx(bytes(vlib.shrink_list(list(b), still, max_steps=120)))
        # a part that only matters by its length: make the content uniform
        b = unhx(toks[i])
        if b and len(b) > 8 and still([0x61] * len(b)):
            toks[i] = hx(b"a" * len(b))
    return " ".join(toks)


def replay(path):
    rec = json.load(open(path))
    f = rec.get("failure") or (rec.get("disagreements") or [{}])[0]
    case = f.get("case")
    if not case:
        print("replay file names no concrete input: %s" % json.dumps(rec.get("broken_obligations"))[:500])
        return 1
    impl = run_impl([case], parallel=False)[0]
    try:
        model = vlib.run_lines(vlib.build_ocaml_model("C19"), [case])[0]
    except vlib.BuildError:
        model = "(model unavailable)"
    bad = oracle(case, impl)
    print("input   : %s\nimpl    : %s\nmodel   : %s\nproperty: %s" % (case, impl, model, "holds" if not bad else "FAILS: " + "; ".join(bad)))
    return 1 if bad else 0
