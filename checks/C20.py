"""C20 - Stream compression is transparent.

Layers: (1) Coq theorems over CompressionModel (Properties_C20.v): the staging logic of src/compression.c and the
statements of src/event.c that drive it, over an abstract codec whose contract (Spec/CompressionSpec.v) is a Section
hypothesis; (2) correspondence: the unmodified library in the simulated world with XEP-0138 negotiated (real zlib inside the
library, simworld's zlib as the server) against the extracted model
    - "replay": the model's staging logic is run on the answers the real deflate()/inflate() calls gave (recorded by
      harness/c/c20_hooks.c); every top-level write result, every write to the transport (length, result, bytes), every
      parser feed and the iteration structure must coincide;
    - "stored": the model over the identity codec with a flush marker; compared at plain-text level;
(3) the property oracle below: an independent bookkeeping over the implementation's trace (it never looks at the model).
"""
import json
import os
import re
import shutil
import time

import vlib

JID = "user@example.com/res"
HDR = ("<?xml version='1.0'?><stream:stream xmlns='jabber:client' xmlns:stream='http://etherx.jabber.org/streams' "
       "id='s1' from='example.com' version='1.0'>")
F_SASL = ("<stream:features><mechanisms xmlns='urn:ietf:params:xml:ns:xmpp-sasl'><mechanism>PLAIN</mechanism>"
          "</mechanisms></stream:features>")
SUCCESS = "<success xmlns='urn:ietf:params:xml:ns:xmpp-sasl'/>"
F_BIND = "<stream:features><bind xmlns='urn:ietf:params:xml:ns:xmpp-bind'/></stream:features>"
F_COMP = ("<stream:features><compression xmlns='http://jabber.org/features/compress'><method>zlib</method></compression>"
          "<bind xmlns='urn:ietf:params:xml:ns:xmpp-bind'/></stream:features>")
COMPRESSED = "<compressed xmlns='http://jabber.org/protocol/compress'/>"
BINDRES = ("<iq type='result' id='_xmpp_bind1'><bind xmlns='urn:ietf:params:xml:ns:xmpp-bind'><jid>" + JID +
           "</jid></bind></iq>")
T_COMPRESS = "<compress xmlns='http://jabber.org/protocol/compress'><method>zlib</method></compress>"

WRAPS = ["conn_interface_write", "parser_feed", "conn_disconnect", "deflate", "inflate", "xmpp_run_once", "xmpp_ctx_free"]
ALNUM = "abcdefghijklmnopqrstuvwxyzABCDEFGHIJKLMNOPQRSTUVWXYZ0123456789+/"


def hx(s):
    if isinstance(s, str):
        s = s.encode()
    return s.hex() if s else "-"


def rx(s):
    return "rx " + hx(s)


def preamble(flags, variant="normal"):
    """Negotiation up to a bound session with the compression layer installed.  variant:
       normal           the server offers zlib, confirms with <compressed/>, restarts the stream
       early-compressed <compressed/> arrives although the client has not asked (no offer): must be ignored
       no-offer         the server does not offer compression
       failure          the server answers <failure/> to <compress/>
       offer-ignored    the server offers zlib, the client (compression not allowed) goes on to bind
       foreign-compressed  the server offers zlib and answers <compress/> with <compressed/> elements of other namespaces"""
    p = ["conn", "flags %d" % flags, "jid " + hx(JID), "pass " + hx("secret"), "hdef 0 s - - - 1", "hadd 0",
         "connect client", "run", rx(HDR), "run", rx(F_SASL), "run", "run", rx(SUCCESS), "run", "run", rx(HDR), "run"]
    if variant == "normal":
        p += [rx(F_COMP), "run", "run", rx(COMPRESSED), "run", "run", rx(HDR), "run", rx(F_BIND), "run", "run", rx(BINDRES), "run", "run"]
    elif variant == "early-compressed":
        p += [rx(COMPRESSED), "run", "run", rx(F_BIND), "run", "run", rx(BINDRES), "run", "run"]
    elif variant == "no-offer":
        p += [rx(F_BIND), "run", "run", rx(BINDRES), "run", "run"]
    elif variant == "failure":
        p += [rx(F_COMP), "run", "run", rx("<failure xmlns='http://jabber.org/protocol/compress'><setup-failed/></failure>"), "run", "run"]
    elif variant == "offer-ignored":
        p += [rx(F_COMP), "run", "run", rx(BINDRES), "run", "run"]
    elif variant == "foreign-compressed":
        # an element that is merely *called* compressed (other namespace) does not confirm anything
        p += [rx(F_COMP), "run", "run", rx("<compressed xmlns='urn:example:not-compression'/>"), "run", "run", rx("<compressed/>"), "run", "run"]
    return p


def count_runs(cmds):
    n = 0
    for c in cmds:
        a = c.split(" ")
        if a[0] == "run":
            n += int(a[1]) if len(a) > 1 else 1
    return n


# ----------------------------------------------------------------------------------------------
# scenario body: list of ops (JSON-able)
#   ["send", hex]        xmpp_send_raw of these bytes
#   ["tx", [tokens]]     answers of the next send() calls: all / k<n> / again / err
#   ["rx", hex]          the server's next plain-text chunk (simworld deflates it with Z_SYNC_FLUSH)
#   ["run", n]
# A case is {"flags": 64|192, "ops": [...], "kind": ...}; every case ends with enough all-accepting iterations.
# ----------------------------------------------------------------------------------------------
def _bufsz():
    """the library reads/inflates at most this many bytes per iteration (only used to size the drain)"""
    try:
        import translate
        src = translate.strip_comments(translate.read_src("src/compression.c"))
        return max(64, min(4096, translate.c_int(translate.find_define(src, "STROPHE_COMPRESSION_BUFFER_SIZE"))))
    except Exception:
        return 4096


BUFSZ = _bufsz()


def drain_runs(ops):
    ntok = sum(len(o[1]) for o in ops if o[0] == "tx")
    nrx = sum(1 for o in ops if o[0] == "rx")
    inb = sum(len(o[1]) // 2 for o in ops if o[0] == "rx")
    return ntok + nrx + 2 * (inb // BUFSZ) + 6


STREAM_END = "</stream:stream>"


def body_cmds(case):
    """simworld commands of a session body: the ops, the drain, and (case["fin"]) the server's last chunk, deflated with
    Z_FINISH, followed by one iteration"""
    cmds = []
    for o in case["ops"]:
        if o[0] == "send":
            cmds.append("sendraw " + (o[1] or "-"))
        elif o[0] == "tx":
            cmds.append("tx " + ",".join(o[1]))
        elif o[0] == "rx":
            cmds.append("rx " + o[1])
        elif o[0] == "run":
            cmds.append("run %d" % o[1])
    cmds.append("run %d" % drain_runs(case["ops"]))
    if case.get("fin"):
        cmds += ["rxfin " + case["fin"], "run %d" % fin_runs(case)]
    return cmds


def fin_runs(case):
    return 2 * (len(case["fin"]) // 2 // BUFSZ) + 3


def fin_view(case, o):
    """a session ends in the iteration that parses the server's </stream:stream>; what the scenario runs after it is
    cut off (-> case and observation restricted to the iterations up to the clean stream end)"""
    if not case.get("fin") or o.crash:
        return case, o
    its = by_iteration(o.trace)
    j = next((k for k, seg in enumerate(its) if any(t.startswith("E0:disconnect(err=0,") for t in seg)), None)
    if j is None:
        return case, o
    o.trace = [t for seg in its[:j + 1] for t in seg + ["|"]]
    o.hooks = [t for seg in by_iteration(o.hooks)[:j + 1] for t in seg + ["|"]]
    return dict(case, _cut=j + 1), o


def render_sim(case):
    pre = preamble(case["flags"])
    return ";".join(pre + body_cmds(case)), count_runs(pre)


def body_iterations(case):
    """ops with the drain appended, as a flat list where every run is one iteration"""
    out = []
    for o in case["ops"]:
        if o[0] == "run":
            out += [["run"]] * o[1]
        else:
            out.append(o)
    out += [["run"]] * drain_runs(case["ops"])
    if case.get("fin"):
        out += [["rx", case["fin"], "fin"]] + [["run"]] * fin_runs(case)
    if case.get("_cut") is not None:
        res, n = [], 0
        for x in out:
            if n >= case["_cut"]:
                break
            res.append(x)
            n += x[0] == "run"
        out = res
    return out


# ----------------------------------------------------------------------------------------------
# several sessions on one connection object: case["sessions"] = [{"variant", "ops", "fin"?}, ...]
# ----------------------------------------------------------------------------------------------
def session_case(case, s):
    c = {"flags": case["flags"], "ops": s["ops"], "kind": case.get("kind"), "plain": s["variant"] != "normal" or not case["flags"] & 64}
    if s.get("fin"):
        c["fin"] = s["fin"]
    return c


def render_sessions(case):
    """-> scenario line, [(first body iteration, number of body iterations, first iteration of the session)]"""
    cmds, marks, it = [], [], 0
    for k, s in enumerate(case["sessions"]):
        pre = preamble(case["flags"], s["variant"])
        if k > 0:
            pre = pre[pre.index("connect client"):]
        start = it
        cmds += pre
        it += count_runs(pre)
        b = body_cmds(session_case(case, s))
        cmds += b
        n = count_runs(b)
        marks.append((it, n, start))
        it += n
        close = ([] if s.get("fin") else ["rx " + hx(STREAM_END), "run"]) + ["run"]
        cmds += close
        it += count_runs(close)
    return ";".join(cmds), marks


def parse_sessions(line, marks):
    """-> (crash | None, [Obs per session], whole trace tokens, end info, [hook tokens of each session's first 3 iterations])"""
    if line is None or line.startswith("CRASH"):
        return (line or "no output")[:300], [], [], None, []
    if "# " not in line:
        return "the scenario did not run to its end (output so far: %s)" % line[-120:], [], [], None, []
    hooks, trace = line.split("# ", 1)
    hk_its, tr_its = by_iteration(hooks.split()), by_iteration(trace.split())
    m = re.search(r"END live=(\d+) allocerr=(\d+) fds=(\d+)/(\d+)", trace)
    end = tuple(int(x) for x in m.groups()) if m else None
    obs, heads = [], []
    for (a, n, start) in marks:
        o = Obs()
        o.crash = None
        o.raw = line
        o.hooks = [t for seg in hk_its[a:a + n] for t in seg + ["|"]]
        o.trace = [t for seg in tr_its[a:a + n] for t in seg + ["|"]]
        o.tail, o.pre_hooks, o.pre_trace, o.trace_tail = [], [], [], []
        o.end = (0, 0, 0, 0)
        obs.append(o)
        heads.append([t for seg in hk_its[start:start + 3] for t in seg])
    return None, obs, trace.split(), end, heads


def judge_sessions(case, line):
    """oracle for a multi-session scenario -> (list of violations, [Obs], [session cases])"""
    sim, marks = render_sessions(case)
    crash, obs, trace, end, heads = parse_sessions(line, marks)
    if crash:
        return ["implementation: " + crash], [], []
    bad = []
    for t in trace:
        if t.startswith(("ZERR", "SENDERR", "RECVERR", "ALLOCERR", "CLOSEERR", "BADCMD", "NOCONN", "NOFD")):
            bad.append("anomaly in the trace: " + t)
            break
    if end is None or end[0] != 0 or end[1] != 0:
        bad.append("end of scenario: %s (expected live=0 allocerr=0)" % (end,))
    ndisc = sum(1 for t in trace if t.startswith("E0:disconnect"))
    nclean = sum(1 for t in trace if t.startswith("E0:disconnect(err=0,"))
    if ndisc != len(case["sessions"]) or nclean != ndisc:
        bad.append("%d sessions, %d disconnect notifications, %d of them clean stream ends" % (len(case["sessions"]), ndisc, nclean))
    scs = []
    for k, (s, o, head) in enumerate(zip(case["sessions"], obs, heads)):
        sc, o = fin_view(session_case(case, s), o)
        obs[k] = o
        scs.append(sc)
        if any(t[0] in "wndip" for t in head):
            bad.append("session %d: the compression layer is active before anything was negotiated on this connection (%s)" % (k + 1, head[:3]))
        for b in oracle(sc, o):
            bad.append("session %d (%s): %s" % (k + 1, s["variant"], b))
    return bad, obs, scs


# ----------------------------------------------------------------------------------------------
# parsing the implementation's output:  <hook records> "# " <simworld trace>
# ----------------------------------------------------------------------------------------------
class Obs:
    pass


def parse_impl(line, mark):
    """-> Obs with .crash or: hooks (body tokens by iteration), sim trace tokens (body), end info"""
    o = Obs()
    o.crash = None
    o.raw = line
    if line is None or line.startswith("CRASH") or "# " not in line:
        o.crash = (line or "no output")[:300]
        return o
    hooks, trace = line.split("# ", 1)
    ht = hooks.split()
    # split hook records at the mark-th '|'
    seen = 0
    idx = 0
    for idx, t in enumerate(ht):
        if t == "|":
            seen += 1
            if seen == mark:
                break
    body = ht[idx + 1:] if seen == mark else []
    # drop what follows the last iteration (release at the end of the scenario)
    last = max([i for i, t in enumerate(body) if t == "|"], default=-1)
    o.tail = body[last + 1:]
    o.hooks = body[:last + 1]
    o.pre_hooks = ht[:idx + 1]
    tt = trace.split()
    seen = 0
    idx = 0
    for idx, t in enumerate(tt):
        if t == "|":
            seen += 1
            if seen == mark:
                break
    o.pre_trace = tt[:idx + 1]
    tb = tt[idx + 1:] if seen == mark else []
    last = max([i for i, t in enumerate(tb) if t == "|"], default=-1)
    o.trace = tb[:last + 1]
    o.trace_tail = tb[last + 1:]
    m = re.search(r"END live=(\d+) allocerr=(\d+) fds=(\d+)/(\d+)", trace)
    o.end = tuple(int(x) for x in m.groups()) if m else None
    return o


def by_iteration(tokens):
    its, cur = [], []
    for t in tokens:
        if t == "|":
            its.append(cur)
            cur = []
        else:
            cur.append(t)
    return its


# ----------------------------------------------------------------------------------------------
# the property oracle (implementation trace + scenario only)
# ----------------------------------------------------------------------------------------------
def inbound_ids(data):
    """ids of the top-level stanzas in the server's plain text (the generators give every stanza an id)"""
    return [m.group(2).decode() + "#" + m.group(3).decode()
            for m in re.finditer(rb"<(/?)(message|presence|iq) id='([^']*)'", data) if not m.group(1)]


def oracle(case, o):
    """list of violations of C20 on this implementation run"""
    bad = []
    if o.crash:
        return ["implementation: " + o.crash]
    for t in o.pre_trace + o.trace + o.trace_tail:
        if t.startswith(("ZERR", "SENDERR", "RECVERR", "ALLOCERR", "CLOSEERR", "BADCMD", "NOCONN", "NOFD")):
            bad.append("anomaly in the trace: " + t)
            break
    if o.end is None or o.end[0] != 0 or o.end[1] != 0:
        bad.append("end of scenario: %s (expected live=0 allocerr=0)" % (o.end,))
    its = body_iterations(case)
    hard = any(o2[0] == "tx" and "err" in o2[1] for o2 in its)
    tr_its = by_iteration(o.trace)
    hk_its = by_iteration(o.hooks)
    n_iter = sum(1 for x in its if x[0] == "run")
    if len(tr_its) != n_iter or len(hk_its) != n_iter:
        bad.append("iteration count: scenario %d, trace %d, hooks %d" % (n_iter, len(tr_its), len(hk_its)))
        return bad
    # --- outbound
    sub = b""            # everything submitted so far
    wire = b""           # what the server obtained by inflating what the transport accepted
    k = 0
    disconnected = False
    clean_end = False
    for x in its:
        if x[0] == "send":
            if not disconnected:
                sub += bytes.fromhex(x[1]) if x[1] else b""
        elif x[0] == "run":
            seg, hk = tr_its[k], hk_its[k]
            for t in seg:
                m = re.match(r"^[WT]\d+:([0-9a-f]+)$", t)
                if m:
                    wire += bytes.fromhex(m.group(1))
                if t.startswith("E0:disconnect"):
                    if case.get("_cut") is not None and k == n_iter - 1 and t.startswith("E0:disconnect(err=0,"):
                        clean_end = True          # the server's last block carried </stream:stream>
                        continue
                    disconnected = True
                    if not hard:
                        bad.append("iteration %d: connection torn down (%s) although neither the transport nor the peer failed" % (k, t))
            if not sub.startswith(wire):
                cp = len(os.path.commonprefix([sub, wire]))
                bad.append("iteration %d: the server's inflated stream is not a prefix of the plain stream "
                           "(%d bytes obtained, %d submitted, first difference at %d)" % (k, len(wire), len(sub), cp))
                break
            refused = any(re.match(r"^n(\d+)=(-?\d+):", t) and int(re.match(r"^n(\d+)=(-?\d+):", t).group(1)) != int(re.match(r"^n(\d+)=(-?\d+):", t).group(2))
                          for t in hk)
            if not refused and not disconnected and wire != sub:
                bad.append("iteration %d: the transport accepted every write, yet %d of the %d bytes submitted before this iteration "
                           "have not reached the server by its end" % (k, len(sub) - len(wire), len(sub)))
                break
            k += 1
    if not hard and not disconnected and not bad and wire != sub:
        bad.append("end: %d of %d submitted bytes never reached the server" % (len(sub) - len(wire), len(sub)))
    if case.get("fin") and not clean_end and not hard and not disconnected:
        bad.append("the server ended its deflate stream (Z_FINISH) with </stream:stream>: no clean stream end was reported")
    # --- inbound
    srv = b"".join(bytes.fromhex(x[1]) for x in its if x[0] == "rx")
    fed = b"".join(bytes.fromhex(t[1:]) for t in o.hooks if t.startswith("p") and t != "p-")
    if case.get("plain"):
        fed = srv                        # no layer in this session: the parser input is not recorded byte-wise
        if any(t[0] in "wndip" for t in o.hooks):
            bad.append("compression layer active in a session that did not negotiate it")
    if not srv.startswith(fed):
        cp = len(os.path.commonprefix([srv, fed]))
        bad.append("parser input differs from what the server deflated (first difference at byte %d of %d)" % (cp, len(srv)))
    elif not disconnected and fed != srv:
        bad.append("parser input incomplete at the end: %d of %d bytes the server deflated were handed to the parser" % (len(fed), len(srv)))
    want = inbound_ids(srv)
    got = [t.split(":", 1)[1] for t in o.trace if re.match(r"^H0@\d+:", t)]
    if not disconnected and got != want[:len(got)]:
        bad.append("handler saw %s, the server sent %s" % (got[:6], want[:6]))
    elif not disconnected and case.get("terminated") and len(got) < len(want) - 2:
        bad.append("handler saw %d of the %d inbound stanzas" % (len(got), len(want)))
    elif not disconnected and (case.get("fin") or case.get("plain")) and got != want:
        bad.append("handler saw %d of the %d inbound stanzas (%s...)" % (len(got), len(want), got[-2:]))
    return bad


# ----------------------------------------------------------------------------------------------
# model scenarios
# ----------------------------------------------------------------------------------------------
def model_line_replay(case, o):
    """the model over the replay codec: deflate/inflate answers and compressed chunk sizes are taken from the run"""
    recs = []
    sizes = []
    for t in o.hooks + o.tail:
        if t[0] == "d":
            a, h = t[1:].split(":")
            i, room, fl, k, ret = a.split(",")
            recs.append("D %s,%s,%s,%s,%s %s" % (i, room, fl, k, ret, h))
        elif t[0] == "i":
            a, h = t[1:].split(":")
            i, room, k, ret = a.split(",")
            recs.append("F %s,%s,%s,%s %s" % (i, room, k, ret, h))
        elif t[0] == "s":
            sizes.append(int(t.split("=")[1]))
    cmds = ["R%d" % (1 if case["flags"] & 128 else 0)] + recs
    nrx = 0
    for x in body_iterations(case):
        if x[0] == "send":
            cmds.append("U " + (x[1] or "-"))
        elif x[0] == "tx":
            cmds.append("T " + ",".join(x[1]))
        elif x[0] == "rx":
            cmds.append("Xn %d" % (sizes[nrx] if nrx < len(sizes) else 1))
            nrx += 1
        elif x[0] == "run":
            cmds.append("I")
    return ";".join(cmds)


def model_line_stored(case):
    cmds = ["S%d" % (1 if case["flags"] & 128 else 0)]
    for x in body_iterations(case):
        if x[0] == "send":
            cmds.append("U " + (x[1] or "-"))
        elif x[0] == "tx":
            cmds.append("T " + ",".join(x[1]))
        elif x[0] == "rx":
            cmds.append("Xm " + x[1])
        elif x[0] == "run":
            cmds.append("I")
    return ";".join(cmds)


def impl_tokens_for_replay(o):
    return [t for t in o.hooks if t[0] in "wnpE|"]


def plain_summary(tokens, stored):
    """per iteration: plain text that reached the server / the parser (model stored run or implementation)"""
    out_its, in_its = [], []
    co, ci = b"", b""
    for t in tokens:
        if t == "|":
            out_its.append(co)
            in_its.append(ci)
            co, ci = b"", b""
        elif t[0] == "n" and stored:
            h = t.split(":", 1)[1]
            if h != "-":
                co += bytes.fromhex(h)
        elif t[0] == "p" and t != "p-":
            ci += bytes.fromhex(t[1:])
    return out_its, in_its


# ----------------------------------------------------------------------------------------------
# generators
# ----------------------------------------------------------------------------------------------
def payload(rng, n, kind):
    """n bytes: 'text' compressible XML-ish, 'rand' incompressible bytes, 'run' one repeated byte"""
    if n <= 0:
        return b""
    if kind == "rand":
        return bytes(rng.randint(1, 255) for _ in range(n))      # no NUL: xmpp_send_raw copies with strndup
    if kind == "run":
        return bytes([rng.choice(b"ax ")]) * n
    if kind == "alnum":
        return "".join(rng.choice(ALNUM) for _ in range(n)).encode()
    words = ["<message to='a@b'>", "<body>", "hello", " world ", "</body>", "</message>", "<presence/>", "lorem ipsum ", "0123456789"]
    s = ""
    while len(s) < n:
        s += rng.choice(words)
    return s[:n].encode()


def out_stanza(rng, n, kind):
    return payload(rng, n, kind).hex()


def in_stanza(rng, sid, n, kind):
    """inbound stanza with id, body of n characters: 'text' compressible, 'rand' hardly compressible text"""
    if kind == "rand":
        body = "".join(rng.choice(ALNUM) for _ in range(n))
    elif kind == "run":
        body = "a" * n
    else:
        body = ("lorem ipsum dolor sit amet " * (n // 27 + 1))[:n]
    return "<message id='%s'><body>%s</body></message>" % (sid, body)


TERMINATOR = "<presence id='zz%d'><status>" + "end of the inbound test sequence " * 4 + "</status></presence>"


def server_compressed_len(chunk):
    """size of the chunk after simworld's server deflated it (Z_SYNC_FLUSH) as the first chunk after the preamble"""
    import zlib
    c = zlib.compressobj()
    for p in (HDR, F_BIND, BINDRES):
        c.compress(p.encode())
        c.flush(zlib.Z_SYNC_FLUSH)
    return len(c.compress(chunk) + c.flush(zlib.Z_SYNC_FLUSH))


def marker_split_stanza(rng, t, sid="i0"):
    """an inbound stanza whose compressed size is 4096 + t (t in 1..4): the library's second read of the chunk holds
    nothing but the last t bytes of the flush marker"""
    body = "".join(rng.choice(ALNUM) for _ in range(5800))
    lo, hi = 4000, 5800
    best = None
    for n in range(5200, 5700):
        st = "<message id='%s'><body>%s</body></message>" % (sid, body[:n])
        L = server_compressed_len(st.encode())
        if L == 4096 + t:
            best = st
            break
        if L > 4096 + 4:
            break
    return best


def cut(rng, data, sizes):
    """cut bytes into chunks whose sizes are drawn from `sizes` (callable or list)"""
    out = []
    i = 0
    while i < len(data):
        n = sizes(rng) if callable(sizes) else rng.choice(sizes)
        n = max(1, n)
        out.append(data[i:i + n])
        i += n
    return out


def sched(rng, n, style):
    toks = []
    for _ in range(n):
        c = rng.random()
        if style == "short":
            toks.append("k%d" % rng.choice([1, 2, 3, 5, 7, 16, 100, 1000, 4095]))
        elif style == "again":
            toks.append("again" if c < .6 else "all")
        elif style == "mixed":
            toks.append("all" if c < .3 else "again" if c < .55 else "k%d" % rng.choice([1, 2, 5, 17, 100, 1000, 2048, 4095, 4096, 5000]))
        else:
            toks.append("all")
    return toks


SIZES_OUT = [1, 2, 17, 100, 1000, 4000, 4090, 4095, 4096, 4097, 5000, 8192, 12000, 16384, 20000, 40000, 65536]


def gen_out_single(rng, n, kind, style, flags):
    ops = []
    if style != "all":
        ops.append(["tx", sched(rng, rng.randint(1, 6), style)])
    ops += [["send", out_stanza(rng, n, kind)], ["run", 1]]
    return {"flags": flags, "ops": ops, "kind": "out-single-%s-%s" % (kind, style)}


def gen_out_multi(rng, flags, big=False):
    ops = []
    for _ in range(rng.randint(1, 4)):
        for _ in range(rng.randint(1, 5)):
            n = rng.choice(SIZES_OUT if big else SIZES_OUT[:11]) if rng.random() < .5 else rng.randint(1, 300)
            ops.append(["send", out_stanza(rng, n, rng.choice(["text", "rand", "rand", "run"]))])
        if rng.random() < .7:
            ops.append(["tx", sched(rng, rng.randint(1, 8), rng.choice(["short", "again", "mixed", "mixed"]))])
        ops.append(["run", rng.randint(1, 3)])
    return {"flags": flags, "ops": ops, "kind": "out-multi" + ("-big" if big else "")}


def gen_out_backpressure_big(rng, flags):
    """large elements whose deflate output overflows the staging buffer several times, refusals in the middle"""
    ops = []
    for _ in range(rng.randint(1, 3)):
        ops.append(["send", out_stanza(rng, rng.choice([40000, 60000, 65536, 100000]), rng.choice(["rand", "rand", "text"]))])
    k = rng.randint(0, 30)
    ops.append(["tx", ["all"] * k + [rng.choice(["again", "k1", "k100", "k4095"])] + sched(rng, rng.randint(0, 3), "mixed")])
    ops.append(["run", rng.randint(1, 2)])
    return {"flags": flags, "ops": ops, "kind": "out-backpressure-big"}


def gen_in(rng, flags, sizes, kinds, chunking, label):
    data = ""
    for i, n in enumerate(sizes):
        data += in_stanza(rng, "i%d" % i, n, rng.choice(kinds))
    data += TERMINATOR % 1 + TERMINATOR % 2
    ops = []
    chunks = cut(rng, data.encode(), chunking)
    p_run = 1.0 if len(chunks) > 250 else .6       # simworld queues at most 512 chunks
    for c in chunks:
        ops.append(["rx", c.hex()])
        if rng.random() < p_run:
            ops.append(["run", 1])
    return {"flags": flags, "ops": ops, "kind": label, "terminated": True}


def gen_mixed(rng, flags):
    ops = []
    data = "".join(in_stanza(rng, "i%d" % i, rng.choice([0, 10, 500, 5000, 9000]), rng.choice(["text", "rand", "run"])) for i in range(rng.randint(1, 4)))
    data += TERMINATOR % 1 + TERMINATOR % 2
    chunks = cut(rng, data.encode(), [1, 7, 100, 1000, 4096, 8192])
    while chunks or rng.random() < .3:
        c = rng.random()
        if c < .4 and chunks:
            ops.append(["rx", chunks.pop(0).hex()])
        elif c < .7:
            ops.append(["send", out_stanza(rng, rng.choice([1, 50, 500, 4096, 9000]), rng.choice(["text", "rand"]))])
        elif c < .8:
            ops.append(["tx", sched(rng, rng.randint(1, 4), "mixed")])
        else:
            ops.append(["run", 1])
        if len(ops) > 60:
            break
    for c in chunks:
        ops.append(["rx", c.hex()])
    return {"flags": flags, "ops": ops, "kind": "mixed", "terminated": True}


def session_traffic(rng, k, compressed, fin):
    """traffic in both directions for session k; inbound chunks are stanza-aligned (ids s<k>i<j>)"""
    ops = []
    nin = rng.randint(1, 3)
    stanzas = [in_stanza(rng, "s%di%d" % (k, j), rng.choice([0, 20, 300, 5000] if compressed else [0, 20, 300]),
                         rng.choice(["text", "rand", "run"])) for j in range(nin)]
    for _ in range(rng.randint(1, 3)):
        ops.append(["send", out_stanza(rng, rng.choice([1, 40, 700, 5000]), rng.choice(["text", "rand"]))])
        if compressed and rng.random() < .4:
            ops.append(["tx", sched(rng, rng.randint(1, 3), "mixed")])
        if stanzas and rng.random() < .8:
            ops.append(["rx", stanzas.pop(0).encode().hex()])
        ops.append(["run", rng.randint(1, 2)])
    for st in stanzas:
        ops += [["rx", st.encode().hex()], ["run", 1]]
    s = {"ops": ops}
    if fin:
        s["fin"] = ("<message id='s%dlast'><body>bye</body></message>" % k + STREAM_END).encode().hex()
    return s


def gen_sessions(rng, flags, plan):
    """plan: [(variant, server finishes its deflate stream?)...] - sessions on ONE connection object, no TLS"""
    sessions = []
    for k, (variant, fin) in enumerate(plan):
        s = session_traffic(rng, k + 1, variant == "normal" and bool(flags & 64), fin)
        s["variant"] = variant
        sessions.append(s)
    return {"flags": flags, "sessions": sessions,
            "kind": "sessions-" + "+".join(("z" if v == "normal" else "plain") + ("F" if f else "") for v, f in plan)}


SESSION_PLANS = [
    [("normal", False), ("normal", False)],
    [("normal", True), ("normal", False)],
    [("normal", False), ("normal", True)],
    [("normal", True), ("normal", True), ("normal", False)],
    [("normal", False), ("normal", False), ("normal", True)],
    [("normal", False), ("no-offer", False)],
    [("normal", True), ("no-offer", False)],
    [("no-offer", False), ("normal", True)],
    [("normal", False), ("no-offer", False), ("normal", False)],
]


def gen_fin(rng, flags, sizes, kinds):
    """one session whose server ends its deflate stream with the last stanza and </stream:stream>"""
    ops = []
    for j, n in enumerate(sizes):
        ops.append(["rx", in_stanza(rng, "i%d" % j, n, rng.choice(kinds)).encode().hex()])
        if rng.random() < .5:
            ops.append(["send", out_stanza(rng, rng.choice([1, 100, 3000]), "text")])
        if rng.random() < .7:
            ops.append(["run", 1])
    last = in_stanza(rng, "last", rng.choice([0, 3, 200, 6000]), rng.choice(kinds))
    return {"flags": flags, "ops": ops, "fin": (last + STREAM_END).encode().hex(), "kind": "in-server-finishes"}


def corpus_cases():
    p = os.path.join(vlib.ROOT, "corpus", "C20.txt")
    out = []
    if os.path.exists(p):
        for l in open(p):
            l = l.strip()
            if l and not l.startswith("#"):
                rec = json.loads(l)
                if "sessions" in rec:
                    for x in rec["sessions"]:
                        x["ops"] = expand_ops(x["ops"])
                else:
                    rec["ops"] = expand_ops(rec["ops"])
                rec["kind"] = "corpus:" + rec.get("label", "?")
                out.append(rec)
    return out


def expand_ops(ops):
    """corpus entries may describe payloads symbolically: ["send", {"gen": "rand", "n": 60000, "seed": 1}]"""
    import random
    out = []
    for o in ops:
        if o[0] in ("send", "rx") and isinstance(o[1], dict):
            d = o[1]
            r = random.Random(d.get("seed", 1))
            if o[0] == "send":
                out.append(["send", out_stanza(r, d["n"], d["gen"])])
            elif d["gen"] == "marker-split":
                out.append(["rx", (marker_split_stanza(r, d["t"], d.get("id", "i0")) or "<message id='i0'/>").encode().hex()])
            else:
                s = in_stanza(r, d.get("id", "i0"), d["n"], d["gen"])
                out.append(["rx", s.encode().hex()])
        else:
            out.append(o)
    return out


def gen_cases(chk):
    rng = chk.rng
    thorough = chk.tier == "thorough"
    cases = corpus_cases()
    rep = 10 if thorough else 1
    for _ in range(rep):
        for n in SIZES_OUT:
            for kind in ("text", "rand", "run"):
                for style in ("all", "short", "again", "mixed"):
                    if n >= 40000 and style == "short" and not thorough:
                        continue
                    cases.append(gen_out_single(rng, n, kind, style, rng.choice([64, 64, 192])))
    cases.append({"flags": 64, "ops": [["send", ""], ["run", 1], ["send", "3c612f3e"], ["run", 1]], "kind": "out-empty"})
    for _ in range(5000 if thorough else 110):
        cases.append(gen_out_multi(rng, rng.choice([64, 192])))
    for _ in range(800 if thorough else 16):
        cases.append(gen_out_multi(rng, rng.choice([64, 192]), big=True))
    for _ in range(1000 if thorough else 24):
        cases.append(gen_out_backpressure_big(rng, rng.choice([64, 192])))
    # inbound: one stanza of every size in one chunk; then fragmentations
    for _ in range(rep):
        for n in (0, 1, 100, 4000, 4096, 4097, 8192, 20000, 65536):
            for kind in ("text", "rand", "run"):
                cases.append(gen_in(rng, 64, [n], [kind], [1 << 20], "in-single-%s" % kind))
        for chunking in ([1], [2, 3], [7], [64], [1000], [4095], [4096], [4097], [8192], [1, 7, 100, 1000, 4096, 8192]):
            for _ in range(2):
                sizes = [rng.choice([0, 5, 300, 3000, 6000]) for _ in range(rng.randint(1, 4))]
                if max(chunking) <= 7:
                    sizes = [rng.choice([0, 5, 60, 300]) for _ in range(2)]
                elif max(chunking) <= 64:
                    sizes = [rng.choice([0, 5, 300, 3000]) for _ in range(rng.randint(1, 3))]
                cases.append(gen_in(rng, rng.choice([64, 192]), sizes, ["text", "rand", "run"], chunking, "in-chunks-%s" % "+".join(map(str, chunking))))
        # compressed size just above the staging buffer: the last read holds only the end of the flush marker
        for t in (1, 2, 3, 4):
            for _ in range(3 if thorough else 1):
                st = marker_split_stanza(rng, t)
                if st:
                    data = st + TERMINATOR % 1 + TERMINATOR % 2
                    ops = [["rx", st.encode().hex()], ["run", 4], ["rx", (TERMINATOR % 1 + TERMINATOR % 2).encode().hex()], ["run", 2]]
                    cases.append({"flags": 64, "ops": ops, "kind": "in-marker-split", "terminated": True})
    for _ in range(2500 if thorough else 40):
        cases.append(gen_mixed(rng, rng.choice([64, 192])))
    # the server finishes its deflate stream (Z_FINISH) with its last stanza and the stream end
    for _ in range(60 if thorough else 8):
        cases.append(gen_fin(rng, rng.choice([64, 192]), [rng.choice([0, 10, 500, 5000, 9000]) for _ in range(rng.randint(0, 3))],
                             ["text", "rand", "run"]))
    # two and three sessions on one connection object without TLS (TLS disabled / not offered), compressed and not
    for _ in range(8 if thorough else 1):
        for plan in SESSION_PLANS:
            for flags in (65, 64, 193):
                cases.append(gen_sessions(rng, flags, plan))
    return cases


# ----------------------------------------------------------------------------------------------
# negotiation scenarios (the layer is installed only on <compressed/> answering <compress/>, then a new stream)
# ----------------------------------------------------------------------------------------------
def negotiation_cases():
    return [(64, "normal"), (192, "normal"), (64, "early-compressed"), (192, "early-compressed"), (64, "no-offer"), (64, "failure"),
            (0, "offer-ignored"), (128, "offer-ignored"), (0, "early-compressed"), (0, "no-offer"),
            (64, "foreign-compressed"), (192, "foreign-compressed")]


def judge_negotiation(chk, flags, variant, line):
    case = {"negotiation": variant, "flags": flags}
    if line is None or line.startswith("CRASH") or "# " not in line:
        chk.fail(case, "implementation: %s" % (line or "")[:200], extra={"scenario": ";".join(preamble(flags, variant)), "class": "negotiation"})
        return
    hooks, trace = line.split("# ", 1)
    ht = hooks.split()
    layered = [t for t in ht if t[0] in "wndip" and t != "|"]
    wrote = b"".join(bytes.fromhex(m.group(1)) for m in re.finditer(r"\b[WT]\d+:([0-9a-f]+)", trace))
    asked = T_COMPRESS.encode() in wrote
    expect_layer = (flags & 64) != 0 and variant == "normal"
    expect_ask = (flags & 64) != 0 and variant in ("normal", "failure", "foreign-compressed")
    if asked != expect_ask:
        chk.fail(case, "<compress/> %s although compression is %s and the server %s it" %
                 ("sent" if asked else "not sent", "allowed" if flags & 64 else "not allowed",
                  "offered" if variant in ("normal", "failure", "foreign-compressed") else "did not offer"), extra={"scenario": ";".join(preamble(flags, variant)), "class": "negotiation", "label": "negotiation-" + variant})
    if bool(layered) != expect_layer:
        chk.fail(case, "compression layer %s (flags=%d, server script '%s')" % ("installed" if layered else "not installed", flags, variant),
                 extra={"scenario": ";".join(preamble(flags, variant)), "class": "negotiation", "label": "negotiation-" + variant})
    if layered:
        # the first thing through the layer is the new stream header, and nothing of the old stream is fed to the layer
        first_w = [t for t in ht if t[0] == "w"]
        hdr_len = len(('<?xml version="1.0"?><stream:stream to="example.com" xml:lang="en" version="1.0" xmlns="jabber:client" '
                       'xmlns:stream="http://etherx.jabber.org/streams">'))
        if not first_w or not first_w[0].startswith("w%d=" % hdr_len):
            chk.fail(case, "the first write through the compression layer is not the restarted stream header: %s" % first_w[:1],
                     extra={"scenario": ";".join(preamble(flags, variant)), "class": "negotiation", "label": "negotiation-" + variant})
        # plain text written before the layer: exactly up to <compress/>
        if wrote.count(b"<?xml") != 3:
            chk.fail(case, "expected three stream headers (initial, after SASL, after <compressed/>), saw %d" % wrote.count(b"<?xml"),
                     extra={"scenario": ";".join(preamble(flags, variant)), "class": "negotiation", "label": "negotiation-" + variant})
    chk.count("negotiation-" + variant)


def history_scenarios():
    """an aborted compression negotiation (offer, <compress/>, then <failure/> or a dead link) followed by a session on
    the same object whose server does not offer zlib: no <compress/> request, no layer"""
    out = []
    for flags in (64, 65, 192):
        for ending in ([rx(STREAM_END), "run", "run"], ["rxclose", "run", "run"], ["rxreset", "run", "run"]):
            first = preamble(flags, "failure")
            for cutoff in (0, 3):          # with and without the server's <failure/>
                f = first[:len(first) - cutoff] if cutoff else first
                second = preamble(flags, "no-offer")
                second = second[second.index("connect client"):]
                out.append((flags, f + ending + second + ["run 2"]))
    return out


def judge_history(chk, flags, cmds, line):
    case = {"history": "aborted compression negotiation, then a server without zlib", "flags": flags}
    extra = {"scenario": ";".join(cmds), "class": "negotiation", "label": "negotiation-history"}
    chk.count("negotiation-history")
    if line is None or line.startswith("CRASH") or "# " not in line:
        chk.fail(case, "implementation: %s" % (line or "")[:200], extra=extra)
        return
    hooks, trace = line.split("# ", 1)
    second = b"".join(bytes.fromhex(m.group(1)) for m in re.finditer(r"\b[WT]1:([0-9a-f]+)", trace))
    if b"<?xml" not in second:
        chk.fail(case, "the second session did not start (nothing written on the second socket)", extra=extra)
    if T_COMPRESS.encode() in second:
        chk.fail(case, "<compress/> requested in a session whose server did not offer compression (offer of the previous session remembered)", extra=extra)
    if any(t[0] in "wndip" for t in hooks.split()):
        chk.fail(case, "compression layer installed although no server confirmed it", extra=extra)


# ----------------------------------------------------------------------------------------------
def _private_copy(build, tag):
    d = os.path.join(vlib.BUILD, "c20-run")
    os.makedirs(d, exist_ok=True)
    last = None
    for _ in range(5):
        try:
            exe = build()
            dst = os.path.join(d, "%s-%d-%s" % (tag, os.getpid(), os.path.basename(exe)))
            shutil.copy2(exe, dst)
            return dst
        except (FileNotFoundError, OSError, vlib.BuildError) as e:
            last = e
            if isinstance(e, vlib.BuildError) and "No such file or directory" not in str(e):
                raise
            time.sleep(0.5)
    raise vlib.BuildError("could not obtain %s: %s" % (tag, last))


def build_impl():
    hooks = os.path.join(vlib.ROOT, "harness", "c", "c20_hooks.c")
    return _private_copy(lambda: vlib.build_simworld(name="c20sim", extra_sources=[hooks],
                                                     extra_cflags=["-Wl," + ",".join("--wrap=" + w for w in WRAPS)]), "c20sim")


def build_model():
    return _private_copy(lambda: vlib.build_ocaml_model("C20"), "model")


def cleanup_private():
    d = os.path.join(vlib.BUILD, "c20-run")
    for f in os.listdir(d) if os.path.isdir(d) else []:
        if "-%d-" % os.getpid() in f:
            try:
                os.remove(os.path.join(d, f))
            except OSError:
                pass


def classify(case, what):
    """which of the defect classes found so far a failing scenario belongs to (for the report; nothing is suppressed)"""
    if "sessions" in case:
        return "reconnect-with-compression"
    if case.get("fin") and ("clean stream end" in what or "torn down" in what or "parser input" in what or "handler saw" in what):
        return "server-finishes-deflate-stream"
    its = case["ops"]
    sends = [o for o in its if o[0] == "send"]
    toks = [t for o in its if o[0] == "tx" for t in o[1]]
    inbound = any(o[0] == "rx" for o in its)
    if any(o[1] == "" for o in sends) and ("torn down" in what or "SENDERR" in what):
        return "empty-write-tears-down"
    if "parser input" in what or "handler saw" in what:
        return "pending-input-not-processed"
    if "torn down" in what and inbound and not toks:
        return "read-without-text-taken-for-close"
    if sends and not any(t != "all" for t in toks):
        return "flush-incomplete"
    if sends and any(t.startswith("k") for t in toks):
        return "short-write-loses-bytes"
    if sends and "again" in toks:
        return "refusal-after-partial-consumption"
    return "other"


def slim(case):
    """case for reports: long payloads abbreviated (the replay file keeps the scenario line)"""
    if "sessions" in case:
        return {"flags": case["flags"], "kind": case.get("kind"),
                "sessions": [dict(slim({"flags": case["flags"], "ops": x["ops"]}), variant=x["variant"], fin=bool(x.get("fin"))) for x in case["sessions"]]}
    ops = []
    for o in case["ops"]:
        if o[0] in ("send", "rx") and len(o[1]) > 80:
            ops.append([o[0], "%s...(%d bytes)" % (o[1][:40], len(o[1]) // 2)])
        else:
            ops.append(o)
    r = {"flags": case["flags"], "kind": case.get("kind"), "ops": ops[:40]}
    if case.get("fin"):
        r["fin"] = case["fin"] if len(case["fin"]) <= 80 else "%s...(%d bytes)" % (case["fin"][:40], len(case["fin"]) // 2)
    return r


def compare(chk, case, o, model_r, model_s, sim_line):
    """correspondence: model (replay, stored) against the implementation"""
    rep = {"case": slim(case), "scenario": sim_line}
    impl_r = " ".join(impl_tokens_for_replay(o))
    if model_r is not None:
        chk.traces_validated += 1
        if model_r != impl_r:
            a, b = impl_r.split(), (model_r or "").split()
            i = 0
            while i < len(a) and i < len(b) and a[i] == b[i]:
                i += 1
            chk.disagree("replay", rep, "token %d: %s" % (i, " ".join(t[:60] for t in a[max(0, i - 3):i + 3])),
                         "token %d: %s" % (i, " ".join(t[:60] for t in b[max(0, i - 3):i + 3])))
    if model_s is not None:
        its = body_iterations(case)
        hard = any(x[0] == "tx" and "err" in x[1] for x in its)
        no_refusal = not any(x[0] == "tx" and any(t != "all" for t in x[1]) for x in its)
        m_out, m_in = plain_summary(model_s.split(), True)
        i_in = plain_summary(o.hooks, False)[1]
        i_out = []
        for seg in by_iteration(o.trace):
            i_out.append(b"".join(bytes.fromhex(m.group(1)) for t in seg for m in [re.match(r"^[WT]\d+:([0-9a-f]+)$", t)] if m))
        if "FAULT" in model_s:
            chk.disagree("stored", rep, "-", model_s[-60:])
        elif not hard:
            if b"".join(m_out) != b"".join(i_out):
                chk.disagree("stored", rep, "plain text delivered: %d bytes" % len(b"".join(i_out)), "%d bytes" % len(b"".join(m_out)))
            elif no_refusal and m_out != i_out:
                chk.disagree("stored", rep, "per-iteration delivery %s" % [len(x) for x in i_out][:12], "%s" % [len(x) for x in m_out][:12])
            if b"".join(m_in) != b"".join(i_in):
                chk.disagree("stored", rep, "parser input: %d bytes" % len(b"".join(i_in)), "%d bytes" % len(b"".join(m_in)))


def run_spread(exe, lines):
    """run_parallel shards contiguous ranges; the expensive scenarios come in runs, so deal them round"""
    import random
    order = list(range(len(lines)))
    random.Random(7).shuffle(order)
    res = vlib.run_parallel(exe, [lines[i] for i in order], timeout=900, nshards=vlib.NCPU, batch=25)
    out = [None] * len(lines)
    for k, i in enumerate(order):
        out[i] = res[k]
    return out


def evaluate(chk, cases, exe, mexe):
    sims = [(render_sessions(c)[0], None) if "sessions" in c else render_sim(c) for c in cases]
    t0 = time.time()
    impl = run_spread(exe, [s[0] for s in sims])
    chk.extra["impl_seconds"] = round(time.time() - t0, 1)
    # units of model comparison: (case index, single-session case, observation)
    units, verdicts, crashed = [], [], []
    for i, (case, l) in enumerate(zip(cases, impl)):
        if "sessions" in case:
            bad, obs, scs = judge_sessions(case, l)
            verdicts.append(bad)
            crashed.append(not obs)
            units += [(i, sc, o) for sc, o in zip(scs, obs) if not sc.get("plain")]
        else:
            cv, o = fin_view(case, parse_impl(l, sims[i][1]))
            verdicts.append(oracle(cv, o))
            crashed.append(bool(o.crash))
            if not o.crash:
                units.append((i, cv, o))
    model_r = model_s = None
    if mexe:
        t0 = time.time()
        both = run_spread(mexe, [model_line_replay(c, o) for _, c, o in units] + [model_line_stored(c) for _, c, _ in units])
        model_r, model_s = both[:len(units)], both[len(units):]
        chk.extra["model_seconds"] = round(time.time() - t0, 1)
    for i, case in enumerate(cases):
        chk.evaluations += 1
        chk.count(case.get("kind", "?"))
        extra = {"scenario": sims[i][0], "label": case.get("kind")}
        if "sessions" in case:
            extra["case_json"] = json.dumps(case)
        for b in verdicts[i][:3]:
            chk.fail(slim(case), b, extra=dict(extra, **{"class": classify(case, b)}))
    for u, (i, case, o) in enumerate(units):
        if any(t[0] in "np" for t in o.hooks):
            chk.nontrivial.add(hash(json.dumps([i, case["flags"], case["ops"]])))
        for t in o.hooks:
            if t[0] == "n":
                m = re.match(r"^n(\d+)=(-?\d+):", t)
                ln, ret = int(m.group(1)), int(m.group(2))
                chk.count("obs:transport-write-" + ("full" if ret == ln else "refused" if ret < 0 else "short"))
                if ln == 4096:
                    chk.count("obs:staging-buffer-full-write")
            elif t[0] == "i":
                chk.count("obs:inflate-call")
                if t.split(":")[0].endswith(",1"):
                    chk.count("obs:inflate-stream-end")
        if model_r is not None:
            compare(chk, case, o, model_r[u], model_s[u], sims[i][0])
        if u % max(1, len(units) // 6) == 0:
            chk.sample({"case": slim(case), "impl_hooks": " ".join(t[:40] for t in o.hooks[:30]),
                        "model_replay": (model_r[u] if model_r else "")[:200]})


def run(chk):
    chk.rule = ("simworld scenarios that negotiate XEP-0138 (flags 64 and 64+128) and then: outbound elements of 1 B..64 KiB (100 KB in the "
                "back-pressure family), compressible text / one repeated byte / random bytes (compressed size above the 4096-byte staging "
                "buffer), one or several per iteration, under write schedules all / k<n> / again / err with interleaved iterations; inbound "
                "stanzas (with ids) of 0..64 KiB delivered in chunks of 1 B..8 KiB and as one chunk (simworld deflates per chunk, the library "
                "reads at most 4096 compressed bytes at a time), including compressed sizes just above 4096 (last read = rest of the flush "
                "marker); mixed traffic; negotiation variants (no offer, unsolicited <compressed/>, <failure/>, compression not allowed); "
                "the server ending its deflate stream (simworld `rxfin`: last stanza + </stream:stream> deflated with Z_FINISH; everything must "
                "be parsed and the disconnect must be a clean stream end); two and three sessions on ONE connection object without TLS "
                "(flags 1+64, 64, 1+64+128; compressed/compressed, compressed/uncompressed, uncompressed/compressed, traffic both ways in "
                "every session, judged per session by the same oracle + model comparison); an aborted compression negotiation followed by a "
                "server without zlib on the same object. "
                "Non-trivial = distinct scenario in which compressed bytes crossed the layer.")
    chk.assumptions = [
        "LEVEL partial: zlib's behaviour is a Section hypothesis (Spec/CompressionSpec.v zcontract: output decodes to a prefix of the "
        "input consumed, a flush call that returns with room left is complete, inflate emits everything it can and has emitted everything "
        "once it consumed a flush marker); the theorems are proved for every codec satisfying it, the contract itself is tested (replay "
        "correspondence on zlib's real answers + oracle), not proved; the stored codec is proved to satisfy it (non-vacuity)",
        "simworld (harness/c/simworld.c): scripted send()/recv(); the server side of XEP-0138 is simworld's own zlib codec "
        "(one Z_SYNC_FLUSH deflate per rx chunk); harness/c/c20_hooks.c records deflate/inflate/transport/parser calls by ld --wrap",
        "the send queue is modelled as the list of unsent bytes per element (ownership, SM and dropping are C06's); the XML parser is C10's",
        "compression_only_after_confirmation_then_restart is a theorem about NegModel's handler functions, tied to auth.c by the facts of "
        "Gen_compression and by the negotiation scenarios of this check",
    ]
    chk.prove()
    exe = build_impl()
    mexe = None
    try:
        mexe = build_model()
    except vlib.BuildError as e:
        chk.broken.append({"kind": "extract", "name": "Extract_C20", "detail": str(e)[:500]})
    try:
        neg = negotiation_cases()
        lines = vlib.run_lines(exe, [";".join(preamble(f, v) + ["run 2"]) for f, v in neg])
        for (f, v), l in zip(neg, lines):
            chk.evaluations += 1
            judge_negotiation(chk, f, v, l)
        hist = history_scenarios()
        for (f, cmds), l in zip(hist, vlib.run_lines(exe, [";".join(c) for _, c in hist])):
            chk.evaluations += 1
            judge_history(chk, f, cmds, l)
        evaluate(chk, gen_cases(chk), exe, mexe)
    finally:
        cleanup_private()
    seen = set()
    uniq = []
    by_class = {}
    for f in sorted(chk.failures, key=lambda f: (not str(f.get("label", "")).startswith("corpus"), len(f.get("scenario", "")))):
        by_class[f.get("class", "other")] = by_class.get(f.get("class", "other"), 0) + 1
        k = (f.get("class"), re.sub(r"\d+", "N", f["what"])[:40])
        if k not in seen:
            seen.add(k)
            f["what"] = "[%s] %s" % (f.get("class"), f["what"])
            uniq.append(f)
    chk.extra["failing_scenarios_total"] = len(chk.failures)
    chk.extra["failing_scenarios_by_class"] = by_class
    chk.failures[:] = uniq
    seen = set()
    uniq = []
    for d in chk.disagreements:
        k = (d["stream"], re.sub(r"\d+", "N", str(d["impl"]))[:40])
        if k not in seen:
            seen.add(k)
            uniq.append(d)
    chk.extra["disagreements_total"] = len(chk.disagreements)
    chk.disagreements[:] = uniq


def replay(path):
    rec = json.load(open(path))
    f = rec.get("failure") or (rec.get("disagreements") or [{}])[0]
    sim = f.get("scenario") or (f.get("case") or {}).get("scenario")
    if not sim:
        print("replay file names no concrete scenario: %s" % json.dumps(rec.get("broken_obligations"))[:800])
        return 1
    exe = build_impl()
    line = vlib.run_lines(exe, [sim])[0]
    cleanup_private()
    if f.get("case_json"):
        case = json.loads(f["case_json"])
        bad, obs, scs = judge_sessions(case, line)
        print("scenario: %s" % (sim if len(sim) < 2000 else sim[:2000] + "..."))
        for k, (sc, o) in enumerate(zip(scs, obs)):
            print("session %d hooks: %s" % (k + 1, " ".join(t[:50] for t in o.hooks)[:1500]))
            print("session %d trace: %s" % (k + 1, " ".join(t[:50] for t in o.trace)[:1500]))
        if not obs:
            print("impl    : %s" % (line or "")[:600])
        print("property: %s" % ("holds" if not bad else "; ".join(bad)))
        return 0 if not bad else 1
    mark = count_runs(preamble(64))
    o = parse_impl(line, mark)
    print("scenario: %s" % (sim if len(sim) < 2000 else sim[:2000] + "..."))
    if o.crash:
        print("impl    : %s" % o.crash)
        return 1
    print("hooks   : %s" % " ".join(t[:50] for t in o.hooks)[:3000])
    print("trace   : %s" % " ".join(t[:50] for t in o.trace)[:3000])
    # rebuild the case from the scenario line for the oracle
    ops = []
    cmds = sim.split(";")
    npre = len(preamble(64))
    for c in cmds[npre:-1]:
        a = c.split(" ")
        if a[0] == "sendraw":
            ops.append(["send", "" if a[1] == "-" else a[1]])
        elif a[0] == "tx":
            ops.append(["tx", a[1].split(",")])
        elif a[0] == "rx":
            ops.append(["rx", a[1]])
        elif a[0] == "run":
            ops.append(["run", int(a[1]) if len(a) > 1 else 1])
    fl = int(cmds[1].split(" ")[1])
    case = {"flags": fl, "ops": ops}
    if cmds[-2].startswith("rxfin "):
        # ... ; run <drain> ; rxfin <hex> ; run <n>
        case["fin"] = cmds[-2].split(" ")[1]
        ops[:] = []
        for c in cmds[npre:-3]:
            a = c.split(" ")
            if a[0] == "sendraw":
                ops.append(["send", "" if a[1] == "-" else a[1]])
            elif a[0] == "tx":
                ops.append(["tx", a[1].split(",")])
            elif a[0] == "rx":
                ops.append(["rx", a[1]])
            elif a[0] == "run":
                ops.append(["run", int(a[1]) if len(a) > 1 else 1])
        case, o = fin_view(case, o)
    verdict = oracle(case, o)
    agree = True
    try:
        try:
            mexe = build_model()
        except vlib.BuildError:
            vlib.coq_property("C20")
            mexe = build_model()
        mr, ms = vlib.run_lines(mexe, [model_line_replay(case, o), model_line_stored(case)])
        cleanup_private()
        ir = " ".join(impl_tokens_for_replay(o))
        agree = (mr == ir)
        print("impl (w/n/p/E tokens)      : %s" % " ".join(t[:50] for t in ir.split())[:3000])
        print("model on zlib's answers    : %s" % " ".join(t[:50] for t in (mr or "").split())[:3000])
        print("model with the stored codec: %s" % " ".join(t[:50] for t in (ms or "").split())[:3000])
        print("staging logic of model and implementation %s" % ("coincide" if agree else "DIFFER"))
    except vlib.BuildError as e:
        print("model unavailable: %s" % str(e)[:200])
    print("property: %s" % ("holds" if not verdict else "; ".join(verdict)))
    return 0 if not verdict and agree else 1
