"""C12, connection part - every object is freed exactly once; references keep objects alive.

Two streams of simworld scenarios (harness/SIMWORLD.md), judged on the trace only:

  stream 2 ("conn")  corpus + random negotiation scripts of negsim, every stage of a negotiation (TLS / every SASL
                     mechanism / compression / session / stream management) cut short by every kind of teardown and
                     followed or not by a reconnect, SM-state hand-over between connection objects (get / set / free /
                     never set / refused / released in either order), xmpp_conn_clone reference counting, and
                     xmpp_conn_restore_sm_state of blobs captured from the SM callback of a real session.
                     Oracle: the run ends with `END live=0 allocerr=0 fds=a/a` (the tracking allocator of the
                     simulated world holds no block, saw no double / foreign free, every descriptor opened was
                     closed once), no CRASH (ASan/UBSan: use after free, double free ...), no ALLOCERR / CLOSEERR,
                     and every `release` reports REL=0 while another reference exists and REL=1 for the last one
                     (reference counts computed from the scenario text, not from the library).
  stream 3 ("oom")   allocation-failure injection: fixed complete sessions with `allocfail n` for every n up to the
                     number of allocations the session performs.  Same oracle.  Two classes of deviations are known
                     findings and are only counted: blocks leaked on a path on which an allocation failed
                     (C12-oom-leak) and NULL dereferences on such a path (C12-oom-crash).  A double free, a use after
                     free, an unbalanced descriptor or a hang on an allocation-failure path is reported.

The case string of a failure is "SIM " + the exact simworld input line; replay_conn() re-runs it.
"""
import re
import time

import vlib
import negsim
from negsim import (H, features, simple, challenge, iq, sm_elem, stream_error, item_xml, SUCCESS, PROCEED, SCRAM)

KNOWN_OOM_LEAK = "C12-oom-leak"
KNOWN_OOM_CRASH = "C12-oom-crash"
KNOWN_ENTRIES = {
    KNOWN_OOM_LEAK: dict(
        property="C12", id=KNOWN_OOM_LEAK, status="known", always_report=False,
        what="blocks leaked when an allocation fails during connection set-up/negotiation",
        **{"class": "a simworld scenario containing `allocfail <n>` that passes the oracle without that command and, with it, "
                    "ends with live>0 as its only deviation (no CRASH, allocerr=0, no ALLOCERR/CLOSEERR token, descriptors "
                    "balanced, REL values as expected): the error path taken after the failed allocation does not release "
                    "what was built so far (e.g. auth.c _auth PLAIN branch: auth/authdata/authid; handler_add failing "
                    "silently so that the SCRAM context has no owner; stanza.c copy / attribute helpers)"},
        witness="conn;allocfail <n>;<complete TLS+SCRAM-SHA-1+bind+SM session>;release - 12 of the 565 n (e.g. n=218: live=1); thorough tier: 103 of 5078 injection points over 8 sessions"),
    KNOWN_OOM_CRASH: dict(
        property="C12", id=KNOWN_OOM_CRASH, status="known", always_report=False,
        what="NULL dereference / crash when an allocation fails during connection set-up/negotiation",
        **{"class": "a simworld scenario containing `allocfail <n>` that passes the oracle without that command and, with it, "
                    "dies with a NULL-pointer report of UBSan/ASan (null pointer passed / member access within null pointer / "
                    "load or store of null pointer / SEGV on the zero page): results of xmpp_stanza_new, xmpp_stanza_copy, "
                    "hash_iter_new, strophe_strdup, xmpp_jid_*, strophe_alloc are used unchecked in auth.c, conn.c, "
                    "handler.c, stanza.c, parser_expat.c.  Heap-use-after-free, double free, aborts and hangs are NOT in the class"},
        witness="conn;allocfail <n>;<complete TLS+SCRAM-SHA-1+bind+SM session>;release - 113 of the 565 n (e.g. n=5: xmpp_stanza_set_name(NULL)); thorough tier: 847 of 5078 injection points over 8 sessions, 31 distinct crash sites"),
}

END_RE = re.compile(r"END live=(\d+) allocerr=(\d+) fds=(\d+)/(\d+)\s*$")
NULL_CRASH_RE = re.compile(r"null pointer|SEGV on unknown address 0x0000000000[0-9a-f]{2}\b|SEGV on unknown address \(nil\)")

JIDS = {"full": "user@example.com/res", "bare": "user@example.com", "anon": "example.com"}
HOST = H("example.com")
CBDATA = "00112233445566778899aabbccddeeff00112233445566778899aabbccddeeff"
MSG = "<message id='u'/>"


# --------------------------------------------------------------------------------------------------
# oracle
# --------------------------------------------------------------------------------------------------
def expected_rel(cmds):
    """REL values an observer expects from the scenario text alone: a connection object lives until as many
    releases as the one reference of xmpp_conn_new plus one per xmpp_conn_clone have been made."""
    refs, cur, out = [], 0, []
    for c in cmds:
        a = c.split(" ")
        if a[0] == "conn" and len(refs) < 4:
            refs.append(1)
            cur = len(refs) - 1
        elif a[0] == "use":
            cur = int(a[1])
        elif cur < len(refs) and refs[cur] > 0:
            if a[0] == "clone":
                refs[cur] += 1
            elif a[0] == "release":
                refs[cur] -= 1
                out.append(1 if refs[cur] == 0 else 0)
    return out


def judge(line, trace, want=()):
    """-> (signature, what).  signature None: the property holds on this run."""
    if trace is None or trace.startswith("CRASH"):
        t = trace or "CRASH no output"
        m = re.search(r" in (\w+ [\w.]+:\d+)", t)
        kind = re.search(r"AddressSanitizer: ([\w-]+)|(runtime error: [^\d]*?)(?: of type| in |,|$)|(TIMEOUT)|(Assertion)", t)
        k = next((g for g in (kind.groups() if kind else ()) if g), "exit")
        return "CRASH %s @ %s" % (k.strip()[:60], m.group(1) if m else "?"), "the library dies: " + t[:300]
    m = END_RE.search(trace)
    if not m:
        return "NOEND", "the scenario did not run to its end: ...%s" % trace[-120:]
    live, aerr, cl, op = (int(x) for x in m.groups())
    sig, what = [], []
    toks = trace.split(" ")
    errs = [t for t in toks if t.startswith("ALLOCERR") or t.startswith("CLOSEERR")]
    if aerr or any(t.startswith("ALLOCERR") for t in errs):
        sig.append("allocerr")
        what.append("%d free/realloc of a block that is not allocated (double or foreign free)" % max(aerr, 1))
    if any(t.startswith("CLOSEERR") for t in errs):
        sig.append("double-close")
        what.append("a socket is closed twice (%s)" % errs[0])
    if cl != op:
        sig.append("fds")
        what.append("%d descriptors opened, %d closed" % (op, cl))
    if live:
        sig.append("live=%d" % live)
        what.append("%d blocks still allocated after every connection was released and the context freed" % live)
    cmds = line.split(";")
    if "NOCONN:" not in trace:
        rel = [int(t[4:]) for t in toks if t.startswith("REL=")]
        exp = expected_rel(cmds)
        if rel != exp:
            sig.append("refcount")
            what.append("xmpp_conn_release returned %s, expected %s from the references taken" % (rel, exp))
    for rx, descr in want:
        if not re.search(rx, trace):
            sig.append("expect")
            what.append("expected %s" % descr)
    if not sig:
        return None, ""
    return ",".join(sig), "; ".join(what) + " (%s)" % m.group(0).strip()


def anomalies(trace):
    return [t for t in (trace or "").split(" ") if t.startswith(("NOCONN", "BADCMD", "NOFD", "SENDST:"))]


def wellformed(cmds):
    """the harness holds at most one detached SM state: a second `getsm` without `setsm`/`freesm` in between would
    overwrite (leak) it in the harness, not in the library"""
    held = False
    for c in cmds:
        a = c.split(" ")[0]
        if a == "getsm":
            if held:
                return False
            held = True
        elif a in ("setsm", "freesm"):
            held = False
    return True


# --------------------------------------------------------------------------------------------------
# scenario text
# --------------------------------------------------------------------------------------------------
class Sc:
    def __init__(self, cmds, label, want=()):
        self.cmds, self.label, self.want = list(cmds), label, tuple(want)

    def line(self):
        return ";".join(self.cmds)


def cfg(flags=0, jid="full", pw=True, cert=False, cb=False, user=True, smcb=False, verdicts=(), tlsnew=True):
    c = ["flags %d" % flags, "jid " + H(JIDS[jid])]
    if pw:
        c.append("pass " + H("secret"))
    if cert:
        c += ["cert", "xaddr " + H("user@example.com")]
    if user:
        c += ["hdef 0 s - - - 1", "hadd 0", "hdef 1 t 1000 1", "hadd 1"]
    if smcb:
        c.append("smcb")
    if cb:
        c.append("cb %s %s" % (H("tls-exporter"), CBDATA))
    if not tlsnew:
        c.append("tlsnew fail")
    for v in verdicts:
        c.append("tls " + ("ok" if v else "fail"))
    return c


def connect(eps=("accept",)):
    return ["gai %s %d" % (HOST, len(eps)), "ep " + ",".join(eps), "connect client", "run"]


def rx(*items):
    return "rx " + H("".join(item_xml(i) for i in items))


def feed(chunks, runs=2):
    out = []
    for ch in chunks:
        out.append(rx(*ch))
        out += ["run"] * runs
    return out


def script(tls=True, mech="PLAIN", zlib=False, session=None, sm=True, resume_id=True):
    """server side of a complete client negotiation as a list of chunks"""
    mechs = [mech]
    st = [["h1"], [features(tls, mechs)]]
    if tls:
        st += [[PROCEED], ["h1"], [features(False, mechs)]]
    if mech.startswith("SCRAM"):
        st.append([challenge("scram_ok")])
    elif mech == "DIGEST-MD5":
        st += [[challenge("digest_ok")], [challenge("digest_ok")]]
    st += [[SUCCESS], ["h1"]]
    if zlib:
        st += [[features(zlib=True, bind=True)], [simple("compress", "compressed")], ["h1"]]
    st += [[features(bind=True, session=session, sm=sm)], [iq("bind", "result", "bindjid")]]
    if session == "req":
        st.append([iq("session", "result")])
    if sm:
        st.append([sm_elem("enabled", True, resume_id)])
    return st


def resume_script(answer="resumed", h=0, tls=False):
    st = [["h1"], [features(tls, ["PLAIN"])]]
    if tls:
        st += [[PROCEED], ["h1"], [features(False, ["PLAIN"])]]
    st += [[SUCCESS], ["h1"], [features(bind=True, sm=True)]]
    if answer == "resumed":
        st.append([sm_elem("resumed", previd=True, h=h)])
    elif answer == "wrongid":
        st.append([sm_elem("resumed", previd=False, h=h)])
    elif answer == "failed":
        st += [[sm_elem("failed", cause="item-not-found", h=h)], [iq("bind", "result", "bindjid")], [sm_elem("enabled", True, True)]]
    elif answer == "failed-fni":
        st += [[sm_elem("failed", cause="feature-not-implemented")], [iq("bind", "result", "bindjid")], [sm_elem("enabled", False, False)]]
    elif answer == "nosm":
        st[-1] = [features(bind=True, sm=False)]
        st.append([iq("bind", "result", "bindjid")])
    return st


TEARDOWNS = {
    "close": ["rxclose", "run", "run"],
    "reset": ["rxreset", "run", "run"],
    "disc": ["disc", "run", "clock 2000", "run", "run"],
    "disc-answered": ["disc", "run", rx("z"), "run", "run"],
    "streamend": [rx("z"), "run", "run"],
    "streamerror": [rx(stream_error(2, True)), "run", "run", "rxclose", "run", "run"],
    "garbage": [rx("g"), "run", "run", "clock 2000", "run", "run"],
    "timeout": ["clock 15000", "run", "run", "clock 2000", "run", "run"],
    "txerr": ["tx err", "disc", "send " + H(MSG), "run", "run"],
    "release": [],          # the connection object is released while it is up
    "reconnect-refused": ["connect client", "rxclose", "run", "run"],
}


def mechs_cfg(mech):
    """(cfg kwargs, script kwargs) that make the client pick `mech`"""
    if mech == "ANONYMOUS":
        return dict(jid="anon", pw=False), {}
    if mech == "EXTERNAL":
        return dict(cert=True), {}
    if mech.endswith("-PLUS"):
        return dict(cb=True), dict(tls=True)
    return {}, {}


# --------------------------------------------------------------------------------------------------
# families of stream 2
# --------------------------------------------------------------------------------------------------
def fam_regress(rng, thorough):
    """minimal scenarios of the defects this stream found (fixes/C12-2, C12-4, C12-5, C12-6)"""
    j, pw = "jid " + H(JIDS["full"]), "pass " + H("secret")
    full = feed(script(tls=False, sm=True), runs=1)
    return [
        Sc(["conn", j, pw, "connect client", "run", rx("h1"), "run", rx(features(False, ["SCRAM-SHA-1"])), "run", "run", "rxclose", "run", "release"],
           "regress:C12-2:scram-context-pending-at-teardown"),
        Sc(["conn", j, pw, "connect client", "run"] + full + ["rxclose", "run", "connect client", "run", "rxclose", "run", "release"],
           "regress:C12-4:parked-bound-jid-overwritten"),
        Sc(["conn", "hdef 6 g 10 1", "hadd 6", "release"], "regress:C12-5:global-timed-handler-at-ctx-free"),
        Sc(["conn", j, pw, "restore 1a000000001a000000001a000000007a00000004534d49449a00000000ba00000000", "connect client", "run"] + full + ["rxclose", "run", "release"],
           "regress:C12-6:restored-id-overwritten-by-enabled"),
    ]


def fam_stages(rng, thorough):
    """every stage of every kind of negotiation x every teardown (x reconnect afterwards)"""
    S = []
    variants = []
    for mech in ["PLAIN", "DIGEST-MD5", "ANONYMOUS", "EXTERNAL"] + SCRAM:
        for tls in (True, False):
            if mech.endswith("-PLUS") and not tls:
                continue
            variants.append((mech, tls, False, None, True))
    variants += [("PLAIN", True, True, None, True), ("SCRAM-SHA-1", False, True, "req", True), ("PLAIN", False, True, "opt", False),
                 ("SCRAM-SHA-256", True, True, None, False), ("PLAIN", False, False, "req", False), ("SCRAM-SHA-512-PLUS", True, False, None, True),
                 ("DIGEST-MD5", True, True, "req", True)]
    # -PLUS without channel-binding data: the client gives up inside _auth
    for (mech, tls, zlib, session, sm) in variants:
        ck, sk = mechs_cfg(mech)
        flags = 64 if zlib else 0
        sc = script(tls=tls, mech=mech, zlib=zlib, session=session, sm=sm)
        cuts = range(len(sc) + 1)
        for cut in cuts:
            tds = list(TEARDOWNS)
            if not thorough:
                tds = ["close", "release"] + rng.sample([t for t in tds if t not in ("close", "release")], 2)
            for td in tds:
                after = rng.choice(["", "", "again", "again-partial"]) if td != "release" else ""
                cmds = ["conn"] + cfg(flags=flags, **ck) + connect() + feed(sc[:cut]) + TEARDOWNS[td]
                if cut == len(sc) and rng.random() < .5:
                    cmds[-len(TEARDOWNS[td]):-len(TEARDOWNS[td])] = ["send " + H(MSG), "run"] if TEARDOWNS[td] else []
                if after:
                    n = len(sc) if after == "again" else rng.randrange(len(sc) + 1)
                    cmds += connect() + feed(sc[:n]) + rng.choice([["rxclose", "run", "run"], [], ["rxreset", "run"]])
                cmds.append("release")
                S.append(Sc(cmds, "stage:%s%s%s:%d:%s%s" % (mech, ":tls" if tls else "", ":zlib" if zlib else "", cut, td, ":" + after if after else "")))
    for mech in SCRAM[:3]:
        sc = script(tls=True, mech=mech)
        for td in ("close", "release", "disc"):
            S.append(Sc(["conn"] + cfg() + connect() + feed(sc) + TEARDOWNS[td] + ["release"], "stage:%s-without-binding:%s" % (mech, td)))
    return S


def fam_scram(rng, thorough):
    """the SCRAM exchange is pending (handler + context registered) when the connection goes away"""
    S = []
    for mech in ("SCRAM-SHA-1", "SCRAM-SHA-256", "SCRAM-SHA-512", "SCRAM-SHA-1-PLUS"):
        ck, sk = mechs_cfg(mech)
        tls = mech.endswith("PLUS")
        pre = [["h1"], [features(tls, [mech])]] + ([[PROCEED], ["h1"], [features(False, [mech])]] if tls else [])
        for stage, extra in (("auth-sent", []), ("challenged", [[challenge("scram_ok")]]), ("challenged-twice", [[challenge("scram_ok")], [challenge("scram_ok")]])):
            for td in ("close", "reset", "release", "disc", "timeout", "streamerror"):
                S.append(Sc(["conn"] + cfg(user=False, **ck) + connect() + feed(pre + extra) + TEARDOWNS[td] + ["release"], "scram-pending:%s:%s:%s" % (mech, stage, td)))
            # ... and the same object connects again and completes
            S.append(Sc(["conn"] + cfg(user=False, **ck) + connect() + feed(pre + extra) + ["rxclose", "run", "run"] + connect() +
                        feed(script(tls=tls, mech=mech)) + TEARDOWNS["disc-answered"] + ["release"], "scram-pending:%s:%s:reconnect" % (mech, stage)))
    # two mechanisms offered, the first one fails, the second is pending
    two = [["h1"], [features(False, ["SCRAM-SHA-256", "SCRAM-SHA-1"])], [challenge("scram_ok")], [simple("sasl", "failure")]]
    for td in ("close", "release"):
        S.append(Sc(["conn"] + cfg(user=False) + connect() + feed(two) + TEARDOWNS[td] + ["release"], "scram-pending:second-mechanism:%s" % td))
    # missing-features time-out (legacy flag) starts a second exchange while the first is still pending
    S.append(Sc(["conn"] + cfg(flags=16, user=False) + connect() + feed([["h1"], [features(False, ["SCRAM-SHA-256", "SCRAM-SHA-1"])]]) +
                ["clock 15000", "run", "run", "rxclose", "run", "run", "release"], "scram-pending:two-exchanges"))
    return S


def sends(rng, k):
    out = []
    for i in range(k):
        out.append(rng.choice(["send " + H(MSG), "sendst " + H("<message to='a@b' id='m%d'><body>hi</body></message>" % i), "sendst " + H("<iq type='get' id='q%d'/>" % i)]))
        if rng.random() < .7:
            out.append("run")
    return out


def fam_handover(rng, thorough):
    """SM state moved between connection objects"""
    S = []
    n_rand = 3000 if thorough else 60
    plans = ["resume", "free", "never-set", "refused-has-state", "refused-connected", "get-while-connected", "release0-first", "release1-unconnected",
             "set-back", "get-twice", "resume-failed", "resume-nosm", "resume-wrongid", "set-then-get-again"]
    jobs = [(p, k, drop) for p in plans for k in (0, 2) for drop in ("rxreset", "rxclose")]
    jobs += [(rng.choice(plans), rng.randrange(0, 5), rng.choice(["rxreset", "rxclose", "disc", "streamerror", "release-less"])) for _ in range(n_rand)]
    for plan, k, drop in jobs:
        flags = rng.choice([0, 0, 1, 64]) if len(S) >= len(plans) * 4 else 0
        tls = not (flags & 1) and rng.random() < .4
        c0 = ["conn"] + cfg(flags=flags) + connect() + feed(script(tls=tls, sm=True, zlib=bool(flags & 64))) + sends(rng, k) + ["run"]
        if k and rng.random() < .4:
            c0 += [rx(sm_elem("a", h=rng.randrange(0, k + 1))), "run"]
        if drop in ("rxreset", "rxclose"):
            c0 += [drop, "run", "run"]
        elif drop == "disc":
            c0 += TEARDOWNS["disc"]
        elif drop == "streamerror":
            c0 += TEARDOWNS["streamerror"]
        else:
            c0 += ["rxreset", "run"]
        want = []
        c1cfg = ["conn"] + cfg(flags=flags & 1)
        ans = {"resume": "resumed", "resume-failed": rng.choice(["failed", "failed-fni"]), "resume-nosm": "nosm", "resume-wrongid": "wrongid"}
        tail_order = rng.choice([["use 0", "release", "use 1", "release"], ["use 1", "release", "use 0", "release"], []])
        if plan in ans:
            cmds = c0 + ["getsm"] + c1cfg + ["setsm"] + connect() + feed(resume_script(ans[plan], h=rng.randrange(0, k + 1))) + sends(rng, rng.randrange(0, 3)) + \
                ["run"] + rng.choice([TEARDOWNS["disc-answered"], TEARDOWNS["close"], []]) + tail_order
            want = [(r"GETSM=1 ", "GETSM=1 (a disconnected connection hands its state out)"), (r"SETSM=0 ", "SETSM=0")]
        elif plan == "free":
            cmds = c0 + ["getsm", "freesm"] + rng.choice([[], connect() + feed(script(tls=False)) + TEARDOWNS["close"]]) + ["release"]
        elif plan == "never-set":
            cmds = c0 + ["getsm"] + rng.choice([[], ["release"], c1cfg + ["release"]])
        elif plan == "refused-has-state":
            cmds = c0 + ["getsm"] + c1cfg + connect() + feed(script(tls=False)) + TEARDOWNS["close"] + ["setsm"] + tail_order
            want = [(r"SETSM=-\d+ ", "SETSM<0 (the target already has a state)")]
        elif plan == "refused-connected":
            cmds = c0 + ["getsm"] + c1cfg + connect() + feed(script(tls=False)[:rng.randrange(0, 8)]) + ["setsm"] + tail_order
            want = [(r"SETSM=-\d+ ", "SETSM<0 (the target is not disconnected)")]
        elif plan == "get-while-connected":
            cmds = ["conn"] + cfg(flags=flags) + connect() + feed(script(tls=tls, sm=True, zlib=bool(flags & 64))[:rng.randrange(0, 9)]) + ["getsm", "run"] + \
                sends(rng, k) + ["rxclose", "run", "run", "getsm", "freesm", "release"]
            want = [(r"GETSM=0 ", "GETSM=0 while the connection is not disconnected")]
        elif plan == "release0-first":
            cmds = c0 + ["getsm", "release"] + c1cfg + ["setsm"] + connect() + feed(resume_script("resumed", h=k)) + TEARDOWNS["close"] + ["release"]
        elif plan == "release1-unconnected":
            cmds = c0 + ["getsm"] + c1cfg + ["setsm"] + tail_order
        elif plan == "set-back":
            cmds = c0 + ["getsm", "setsm"] + connect() + feed(resume_script("resumed", h=k)) + sends(rng, 1) + ["run"] + TEARDOWNS["close"] + ["release"]
        elif plan == "get-twice":
            # the second call finds no state: NULL, nothing to free
            cmds = c0 + ["getsm", "freesm", "getsm", "freesm", "release"]
            want = [(r"GETSM=1 .*GETSM=0 ", "GETSM=1 then GETSM=0")]
        else:   # set-then-get-again: the state travels 0 -> 1 -> 2
            cmds = c0 + ["getsm"] + c1cfg + ["setsm", "getsm"] + ["conn"] + cfg(flags=flags & 1) + ["setsm"] + connect() + \
                feed(resume_script("resumed", h=0)) + TEARDOWNS["close"] + rng.choice([[], ["use 0", "release"], ["use 2", "release", "use 1", "release"]])
        S.append(Sc(cmds, "handover:%s:k%d:%s" % (plan, k, drop), want))
    return S


def fam_clone(rng, thorough):
    """xmpp_conn_clone / xmpp_conn_release: the object lives until the last reference is gone"""
    S = []
    sc = script(tls=False, sm=True)
    n = 400 if thorough else 40
    fixed = [
        ["conn"] + cfg() + ["clone", "release", "release"],
        ["conn"] + cfg() + ["clone"] + connect() + feed(sc) + ["release", "is", "send " + H(MSG), "run", "release"],
        ["conn"] + cfg() + connect() + feed(sc[:3]) + ["clone", "release", "run"] + feed(sc[3:]) + ["is", "release"],
        ["conn"] + cfg() + connect() + feed(sc) + ["clone", "clone", "release", "rxclose", "run", "run", "release", "is"] + connect() + feed(sc) + ["release"],
        ["conn"] + cfg() + ["clone", "conn"] + cfg() + ["clone", "use 0", "release", "use 1", "release", "use 0", "release", "use 1", "release"],
        ["conn"] + cfg() + connect() + feed(sc) + ["clone", "release", "is", "bound", "qlen"],     # END releases the last reference
    ]
    for i, c in enumerate(fixed):
        want = [(r"REL=0 (?:(?!X\d|disconnect).)*S=010", "the connection still up after a release that is not the last one")] if i in (1, 5) else []
        S.append(Sc(c, "clone:fixed%d" % i, want))
    for i in range(n):
        cmds = ["conn"] + cfg(flags=rng.choice([0, 1, 64]))
        refs = 1
        body = connect() + feed(script(tls=rng.random() < .3 and "flags 1" not in cmds and "flags 64" not in cmds, sm=rng.random() < .6,
                                       zlib="flags 64" in cmds)) + sends(rng, rng.randrange(0, 3)) + ["run"] + \
            rng.choice([TEARDOWNS["close"], TEARDOWNS["disc-answered"], [], TEARDOWNS["reset"] + connect() + feed(sc)])
        # sprinkle clone / release pairs so that the count never reaches zero before the end
        out = []
        for c in body:
            r = rng.random()
            if r < .08:
                out.append("clone")
                refs += 1
            elif r < .16 and refs > 1:
                out.append("release")
                refs -= 1
            out.append(c)
        out += ["release"] * rng.randrange(0, refs + 1)
        S.append(Sc(cmds + out, "clone:rand"))
    return S


def fam_restore_phase1(rng, thorough):
    S = []
    for k in ((0, 1, 3) if not thorough else (0, 1, 2, 3, 5, 8)):
        for acked in (None, 0, 1):
            if acked is not None and acked > k:
                continue
            for pending in (0, 2):
                cmds = ["conn"] + cfg(smcb=True) + connect() + feed(script(tls=False, sm=True))
                for i in range(k):
                    cmds += ["sendst " + H("<message to='a@b' id='m%d'><body>%s</body></message>" % (i, "x" * (i * 7))), "run"]
                if acked is not None:
                    cmds += [rx(sm_elem("a", h=acked)), "run"]
                if pending:
                    cmds += ["tx again,again,again,again"] + ["send " + H(MSG)] * pending + ["run"]
                cmds += ["rxreset", "run", "run", "release"]
                S.append(Sc(cmds, "restore:capture:k%d:a%s:p%d" % (k, acked, pending)))
    return S


def fam_restore_phase2(rng, thorough, blobs):
    S = []
    full = script(tls=False, sm=True)
    for b in blobs:
        base = ["conn"] + cfg() + ["restore " + b]
        ok = [(r"RESTORE=0 ", "RESTORE=0 for a blob the library produced itself")]
        S.append(Sc(base + ["release"], "restore:release", ok))
        S.append(Sc(base + connect() + feed(full) + sends(rng, 2) + ["run"] + TEARDOWNS["disc-answered"] + ["release"], "restore:session", ok))
        S.append(Sc(base + connect() + feed(resume_script("resumed", h=0)) + sends(rng, 1) + ["run"] + TEARDOWNS["close"] + ["release"], "restore:resume", ok))
        S.append(Sc(base + connect() + feed(full[:rng.randrange(len(full))]) + rng.choice([TEARDOWNS["close"], TEARDOWNS["reset"], []]) + ["release"], "restore:partial", ok))
        S.append(Sc(base + ["restore " + b, "release"], "restore:twice", ok + [(r"RESTORE=0 RESTORE=-\d+ ", "the second restore refused (state already set)")]))
        S.append(Sc(base + ["getsm", "freesm", "restore " + b, "getsm", "conn"] + cfg() + ["setsm"] + connect() + feed(full) + TEARDOWNS["close"], "restore:handover", ok))
        S.append(Sc(["conn"] + cfg() + connect() + feed(full[:3]) + ["restore " + b, "rxclose", "run", "run", "release"], "restore:while-connected",
                    [(r"RESTORE=-\d+ ", "restore refused while not disconnected")]))
        S.append(Sc(base + connect() + feed(full) + ["rxreset", "run", "run", "getsm", "conn"] + cfg() + ["setsm"] + connect() + feed(resume_script("resumed", h=1)) + TEARDOWNS["close"], "restore:session-handover", ok))
    # refused blobs: every block taken while loading must be given back (cuts and single-byte damage of captured blobs
    # with non-empty queues; the connection is released, or used for a session afterwards)
    big = sorted(blobs, key=len, reverse=True)[:3 if not thorough else 12]
    for b in big:
        n = len(b) // 2
        cuts = list(range(1, n)) if (thorough or n <= 80) else sorted(set(list(range(1, 40)) + rng.sample(range(40, n), 40)))
        for c in cuts:
            S.append(Sc(["conn"] + cfg() + ["restore " + b[:2 * c], "release"], "restore:cut-release"))
        for c in rng.sample(range(1, n), min(n - 1, 12 if not thorough else 60)):
            S.append(Sc(["conn"] + cfg() + ["restore " + b[:2 * c]] + connect() + feed(full) + TEARDOWNS["close"] + ["release"], "restore:cut-session"))
        for _ in range(20 if not thorough else 200):
            k = rng.randrange(n)
            d = b[:2 * k] + "%02x" % rng.randrange(256) + b[2 * k + 2:]
            S.append(Sc(["conn"] + cfg() + ["restore " + d, "release"], "restore:damaged-release"))
    return S


def fam_misc(rng, thorough):
    """multi-candidate connects, TLS failures, component and raw connections, handlers left registered"""
    S = []
    sc = script(tls=True, sm=True)
    for eps in (("refuse", "accept"), ("late", "accept"), ("hang", "accept"), ("refuse", "refuse"), ("hang",), ("late",)):
        S.append(Sc(["conn"] + cfg() + connect(eps) + ["clock 5001", "run", "run"] + feed(sc[:4]) + ["release"], "misc:eps:" + "+".join(eps)))
        S.append(Sc(["conn"] + cfg() + connect(eps) + ["release"], "misc:eps-release:" + "+".join(eps)))
    for v in ((False,), (True,)):
        S.append(Sc(["conn"] + cfg(verdicts=v) + connect() + feed(sc) + ["run", "clock 2000", "run", "release"], "misc:tls-verdict:%s" % v[0]))
    S.append(Sc(["conn"] + cfg(tlsnew=False) + connect() + feed(sc) + ["release"], "misc:tlsnew-fail"))
    S.append(Sc(["conn"] + cfg(flags=4) + connect() + feed(script(tls=False)) + TEARDOWNS["disc-answered"] + ["release"], "misc:legacy-ssl"))
    S.append(Sc(["conn"] + cfg(flags=4, verdicts=(False,)) + connect() + ["run", "run", "release"], "misc:legacy-ssl-fail"))
    comp = ["conn", "jid " + H("comp.example.com"), "pass " + H("secret"), "gai %s 1" % H("localhost"), "ep accept", "connect component %s 5347" % H("localhost"), "run"]
    hs = negsim.Elem("component", "handshake", xml="<handshake xmlns='jabber:component:accept'/>")
    for cut in range(3):
        for td in ("close", "release", "disc", "streamerror"):
            c = comp + ([rx("h1"), "run", "run"] if cut > 0 else []) + ([rx(hs), "run", "run", "send " + H(MSG), "run"] if cut > 1 else [])
            S.append(Sc(c + TEARDOWNS[td] + ["release"], "misc:component:%d:%s" % (cut, td)))
    raw = ["conn", "jid " + H("example.com")] + ["gai %s 1" % HOST, "ep accept", "connect raw", "run"]
    for td in ("close", "release", "disc"):
        S.append(Sc(raw + ["openstream", "run", rx("h1"), "run", "send " + H(MSG), "run"] + TEARDOWNS[td] + ["release"], "misc:raw:%s" % td))
        S.append(Sc(raw + ["starttls", "openstream", "run", rx("h1"), "run"] + TEARDOWNS[td] + ["release"], "misc:raw-tls:%s" % td))
    # id / stanza / timed handlers of the user are still registered when the object goes away
    hs_ = ["hdef 2 i q1 1", "hadd 2", "hdef 3 i q1 0", "hadd 3", "hdef 4 s %s iq result 10" % H("jabber:client"), "hadd 4", "hdef 5 t 10 1 send:%s" % H(MSG), "hadd 5",
           "hdef 6 g 10 1", "hadd 6"]
    S.append(Sc(["conn"] + cfg() + hs_ + connect() + feed(script(tls=False)) + ["clock 20", "run", rx(iq("other", "result")), "run", "run", "release"], "misc:user-handlers"))
    S.append(Sc(["conn"] + cfg() + hs_ + ["release"], "misc:user-handlers-unconnected"))
    # the queue is not empty when the object goes away / reconnects
    for td in ("close", "release", "reset"):
        S.append(Sc(["conn"] + cfg() + connect() + feed(script(tls=False)) + ["tx k3,again,again,again,again"] + ["send " + H(MSG)] * 3 + ["sendst " + H("<iq id='z' type='get'/>"), "run", "dumpq"] +
                    TEARDOWNS[td] + rng.choice([[], connect() + feed(script(tls=False)[:5])]) + ["release"], "misc:queue-not-empty:%s" % td))
    # disconnect / reconnect / release from inside callbacks
    S.append(Sc(["conn"] + cfg() + ["onconnect send:%s,disc" % H(MSG)] + connect() + feed(script(tls=False)) + ["run", "clock 2000", "run", "release"], "misc:disc-in-connect-cb"))
    S.append(Sc(["conn"] + cfg() + ["ondisconnect send:%s" % H(MSG)] + connect() + feed(script(tls=False)) + TEARDOWNS["close"] + ["release"], "misc:send-in-disconnect-cb"))
    return S


# --------------------------------------------------------------------------------------------------
# SRV answers that are partly malformed (resolver.c: the partly built record list must not be lost)
# --------------------------------------------------------------------------------------------------
def _dname(name):
    out = b""
    for lab in name.split("."):
        if lab:
            out += bytes([len(lab)]) + lab.encode()
    return out + b"\0"


def _srv_rr(owner, prio, weight, port, target, rdlen=None, typ=33):
    """owner / target: bytes (already encoded names, pointers, or deliberately broken encodings)"""
    rd = prio.to_bytes(2, "big") + weight.to_bytes(2, "big") + port.to_bytes(2, "big") + target
    return owner + typ.to_bytes(2, "big") + b"\0\1" + b"\0\0\x0e\x10" + (len(rd) if rdlen is None else rdlen).to_bytes(2, "big") + rd


def _dns(rrs, ancount=None, cut=None, qname=None):
    q = (_dname("_xmpp-client._tcp.example.com") if qname is None else qname) + b"\0\x21\0\1"
    msg = b"\x12\x34\x81\x80\0\1" + (len(rrs) if ancount is None else ancount).to_bytes(2, "big") + b"\0\0\0\0" + q + b"".join(rrs)
    return msg if cut is None else msg[:cut]


def srv_answers(thorough):
    """(label, DNS answer): good answers and answers with a good record before / after / around a broken one"""
    PTR = b"\xc0\x0c"                       # the question's name
    T1, T2, T3 = _dname("xmpp1.example.org"), _dname("xmpp2.example.org"), _dname("xmpp3.example.org")
    g1, g2, g3 = _srv_rr(PTR, 10, 5, 5222, T1), _srv_rr(PTR, 20, 5, 5223, T2), _srv_rr(PTR, 30, 0, 5224, T3)
    A = [("good1", _dns([g1])), ("good3", _dns([g1, g2, g3]))]
    broken_owner = {
        "fwd-pointer": b"\xc0\xff", "self-pointer": None, "reserved-label": b"\x80\x01x\0", "label-past-end": b"\x3fabc",
        "pointer-to-pointer-loop": None, "empty-pointer-tail": b"\xc0",
    }
    for name, own in broken_owner.items():
        for ngood in ((1, 2) if thorough else (1,)):
            pre = [g1, g2][:ngood]
            off = len(_dns(pre))
            if name == "self-pointer":
                own_ = bytes([0xc0 | (off >> 8), off & 0xff])
            elif name == "pointer-to-pointer-loop":
                own_ = bytes([0xc0 | ((off + 2) >> 8), (off + 2) & 0xff, 0xc0 | (off >> 8), off & 0xff])
            else:
                own_ = own
            bad = _srv_rr(own_, 5, 0, 5222, T3)
            if name in ("label-past-end", "empty-pointer-tail"):
                A.append(("good%d+%s" % (ngood, name), _dns(pre, ancount=ngood + 1) + own_))
            else:
                A.append(("good%d+%s" % (ngood, name), _dns(pre + [bad])))
                A.append(("good%d+%s+good" % (ngood, name), _dns(pre + [bad, g3])))
            if ngood == 1:
                A.append((name + "+good", _dns([bad, g1]) if name not in ("label-past-end", "empty-pointer-tail") else _dns([], ancount=2) + own_))
    # broken target names (after a good record)
    off = len(_dns([g1]))
    for name, tgt in (("target-fwd-pointer", b"\xc0\xff"), ("target-reserved", b"\x80x\0"), ("target-past-end", b"\x20ab"),
                      ("target-self-pointer", bytes([0xc0 | ((off + 18) >> 8), (off + 18) & 0xff]))):
        bad = _srv_rr(PTR, 5, 0, 5222, tgt)
        A.append(("good1+" + name, _dns([g1, bad])))
        A.append((name + "+good", _dns([bad, g1])))
    # truncation inside the second / third record, rdlength that lies, more answers announced than present
    full = _dns([g1, g2, g3])
    l1, l2 = len(_dns([g1])), len(_dns([g1, g2]))
    cuts = sorted(set([l1 + 1, l1 + 2, l1 + 4, l1 + 10, l1 + 12, l1 + 14, l1 + 18, l1 + 19, l2 - 1, l2 + 3, l2 + 12, len(full) - 1]
                      + (list(range(l1, len(full))) if thorough else [])))
    for c in cuts:
        A.append(("good3-cut@%d" % c, full[:c]))
    A.append(("ancount-too-large", _dns([g1, g2], ancount=5)))
    A.append(("rdlen-short", _dns([g1, _srv_rr(PTR, 20, 5, 5223, T2, rdlen=3), g3])))
    A.append(("rdlen-long", _dns([g1, _srv_rr(PTR, 20, 5, 5223, T2, rdlen=200)])))
    A.append(("cname-between", _dns([g1, _srv_rr(PTR, 0, 0, 0, T2, typ=5), g3])))
    A.append(("question-broken", _dns([g1], qname=b"\xc0\xff")))
    return A


def fam_srv(rng, thorough):
    S = []
    j, pw = "jid " + H(JIDS["full"]), "pass " + H("secret")
    sess = feed(script(tls=False, sm=False)[:2], runs=1)
    for label, msg in srv_answers(thorough):
        srv = "srv " + msg.hex()
        S.append(Sc(["conn", j, pw, srv, "connect client", "run", "run"] + sess + TEARDOWNS["close"] + ["release"], "srv:%s:session" % label))
        S.append(Sc(["conn", j, pw, srv, "connect client", "release"], "srv:%s:release-at-once" % label))
        if thorough or rng.random() < .25:
            S.append(Sc(["conn", j, pw, srv, "ep refuse,refuse,refuse,refuse", "connect client", "run", "run", "run", "run",
                         "connect client", "run", "run"] + TEARDOWNS["reset"] + ["release"], "srv:%s:all-refused-then-reconnect" % label))
    return S


# --------------------------------------------------------------------------------------------------
# xmpp_conn_send_queue_drop_element with stream management on (the <r/> linked to a dropped stanza)
# --------------------------------------------------------------------------------------------------
def fam_drop(rng, thorough):
    S = []
    sess = ["conn"] + cfg() + connect() + feed(script(tls=False, sm=True))
    st = lambda i: "sendst " + H("<message to='a@b' id='d%d'><body>x</body></message>" % i)
    blocked = "tx " + ",".join(["again"] * 24)
    plans = [["o"], ["y"], ["o", "o"], ["y", "y"], ["o", "y"], ["y", "o", "y"], ["o", "o", "o", "o"], ["y", "y", "y", "y", "y"]]
    if thorough:
        plans += [[rng.choice("oy") for _ in range(rng.randrange(1, 7))] for _ in range(40)]
    for plan in plans:
        for nst in ((2, 4) if not thorough else (1, 2, 3, 5)):
            for mid_run in (False, True):
                for td in (("release", "close") if not thorough else ("release", "close", "reset", "disc-answered")):
                    c = sess + [blocked] + [st(i) for i in range(nst)] + (["run"] if mid_run else []) + ["dumpq"]
                    for d in plan:
                        c += ["drop " + d] + (["run"] if mid_run and rng.random() < .5 else [])
                    c += ["qlen", "tx all", "run", rx(sm_elem("a", h=1)), "run"] if td != "release" else ["qlen"]
                    S.append(Sc(c + TEARDOWNS[td] + ["release"], "drop:%s:n%d:%s:%s" % ("".join(plan), nst, "run" if mid_run else "norun", td)))
    # every stanza gets its own <r/> again once the previous one went with its stanza: send, drop, send, drop ...
    for k in ((1, 3) if not thorough else (1, 2, 3, 6)):
        for d in "oy":
            c = sess + [blocked]
            for i in range(k):
                c += [st(i), "drop " + d]
            S.append(Sc(c + ["dumpq", st(9), "qlen"] + TEARDOWNS["close"] + ["release"], "drop:send-drop-%s-x%d" % (d, k)))
    # partially written head: the first element cannot be dropped, the others can
    for plan in (["o"], ["y", "o"], ["o", "y", "o"]):
        c = sess + ["tx k5," + ",".join(["again"] * 24)] + [st(i) for i in range(3)] + ["run", "dumpq"] + ["drop " + d for d in plan] + ["qlen"]
        S.append(Sc(c + TEARDOWNS["close"] + ["release"], "drop:%s:partial-head" % "".join(plan)))
    if not thorough and len(S) > 44:
        S = S[:4] + S[4::2]
    return S


# --------------------------------------------------------------------------------------------------
# running
# --------------------------------------------------------------------------------------------------
def crash_summary(rc, err):
    """like vlib.run_lines' summary, with the three innermost frames inside the library"""
    m = re.search(r"(ERROR: AddressSanitizer: [^\n]*|runtime error: [^\n]*|Assertion[^\n]*failed[^\n]*)", err)
    s = m.group(1) if m else "exit %d" % rc
    frames = re.findall(r"#\d+ 0x[0-9a-f]+ in (\w+) [^\s]*?/src/([\w.]+:\d+)", err)[:3]
    if frames:
        s += " in " + " <- ".join("%s %s" % f for f in frames)
    return "CRASH " + s.replace("\n", " ")[:400]


def run_each(exe, lines, timeout=20):
    """One process per scenario.  src/parser_expat.c hands expat the memory suite of the FIRST context a process
    creates only (static mem_ctx): in a process that runs many scenarios expat's blocks bypass the tracking allocator
    (and `allocfail`) in all scenarios but the first.  A fresh process per scenario keeps them visible; it also
    needs no bisection when a run dies (on allocation-failure paths many do)."""
    import os
    import subprocess
    from concurrent.futures import ThreadPoolExecutor
    env = dict(os.environ)
    env.update(vlib.ASAN_ENV)

    def one(ln):
        try:
            p = subprocess.run([exe], input=(ln + "\n").encode(), stdout=subprocess.PIPE, stderr=subprocess.PIPE, timeout=timeout, env=env)
        except subprocess.TimeoutExpired:
            return "CRASH TIMEOUT after %ss" % timeout
        out = p.stdout.decode("utf-8", "replace").split("\n")
        if p.returncode == 0 and out and out[0]:
            return out[0]
        return crash_summary(p.returncode, p.stderr.decode("utf-8", "replace"))

    if not lines:
        return []
    with ThreadPoolExecutor(max_workers=vlib.NCPU) as ex:
        return list(ex.map(one, lines))


def shrink(exe, line, sig, want=(), budget=110):
    """minimise the command list (the first `conn` stays) keeping the same failure signature"""
    cmds = line.split(";")
    head, rest = cmds[:1], cmds[1:]

    def still(cand):
        c = head + list(cand)
        if not wellformed(c):
            return False
        ln = ";".join(c)
        tr = vlib.run_lines(exe, [ln], per_case_timeout=20)[0]
        if anomalies(tr):
            return False
        return judge(ln, tr, want)[0] == sig

    if len(rest) < 2:
        return line
    small = vlib.shrink_list(rest, still, max_steps=budget)
    return ";".join(head + small)


class Reporter:
    """at most `per_sig` failures per signature reach chk.fail; the first ones of each signature are minimised"""

    def __init__(self, chk, exe, stream, per_sig=5, shrink_per_sig=4, shrink_total=9):
        self.chk, self.exe, self.stream = chk, exe, stream
        self.per_sig, self.shrink_per_sig, self.shrink_left = per_sig, shrink_per_sig, shrink_total
        self.by_sig = {}

    def report(self, line, label, sig, what, want=(), extra=None, can_shrink=True):
        n = self.by_sig.get(sig, 0)
        self.by_sig[sig] = n + 1
        if n >= self.per_sig:
            return
        orig = line
        if can_shrink and n < self.shrink_per_sig and self.shrink_left > 0 and not want:
            self.shrink_left -= 1
            try:
                line = shrink(self.exe, line, sig, want)
            except Exception:
                line = orig
        ex = {"label": label, "signature": sig}
        if line != orig:
            ex["minimised_from_commands"] = len(orig.split(";"))
        if extra:
            ex.update(extra)
        self.chk.fail("SIM " + line, what, stream=self.stream, extra=ex)


def register_known(chk):
    # class predicates: the record is built by stream 3 only (`oom` = the scenario contains allocfail and passes
    # without it), `cls` says which deviations the run with the injected failure shows
    chk.known_preds[KNOWN_OOM_LEAK] = lambda rec: rec.get("oom") is True and rec.get("cls") == "leak-only" and "allocfail " in rec.get("case", "")
    chk.known_preds[KNOWN_OOM_CRASH] = lambda rec: rec.get("oom") is True and rec.get("cls") == "null-deref" and "allocfail " in rec.get("case", "")
    for kid, entry in KNOWN_ENTRIES.items():
        if not any(k.get("id") == kid for k in chk.known):
            # known_findings.json is the coordinator's file; until the entries are committed there the check carries them
            chk.known.append(dict(entry))


def run_stream2(chk, exe, stats):
    rng = chk.rng
    thorough = chk.tier == "thorough"
    rep = Reporter(chk, exe, "conn", per_sig=6)
    failing = []
    fams = []
    corpus = [Sc(s.sim_line().split(";"), s.label) for s in negsim.corpus_scenarios()]
    fams.append(("corpus", corpus))
    fams.append(("regress", fam_regress(rng, thorough)))
    fams.append(("scram-pending", fam_scram(rng, thorough)))
    fams.append(("handover", fam_handover(rng, thorough)))
    fams.append(("clone", fam_clone(rng, thorough)))
    fams.append(("stages", fam_stages(rng, thorough)))
    fams.append(("misc", fam_misc(rng, thorough)))
    fams.append(("srv", fam_srv(rng, thorough)))
    fams.append(("drop", fam_drop(rng, thorough)))
    p1 = fam_restore_phase1(rng, thorough)
    fams.append(("restore-capture", p1))
    nrand = 30000 if thorough else 400
    fams.append(("random", [Sc(negsim.gen_scenario(rng).sim_line().split(";"), "gen") for _ in range(nrand)]))

    def evaluate(name, scs):
        lines = [s.line() for s in scs]
        out = run_each(exe, lines)
        bad = 0
        for s, ln, tr in zip(scs, lines, out):
            chk.evaluations += 1
            chk.count("conn:" + name)
            if tr and not tr.startswith("CRASH"):
                chk.traces_validated += 1
                if tr.count(" ") > 14:
                    chk.nontrivial.add(hash(tr))
            an = anomalies(tr) if name not in ("random", "corpus") else []
            if an and name not in ("random", "corpus"):
                stats["harness_anomalies"] = stats.get("harness_anomalies", 0) + 1
                stats.setdefault("harness_anomaly_examples", [])
                if len(stats["harness_anomaly_examples"]) < 3:
                    stats["harness_anomaly_examples"].append({"label": s.label, "tokens": an[:3]})
            sig, what = judge(ln, tr, s.want)
            if sig:
                bad += 1
                failing.append((sig, name, len(s.cmds), ln, s, what))
        stats["families"][name] = {"scenarios": len(scs), "failing": bad}
        return out

    outs = {}
    for name, scs in fams:
        outs[name] = evaluate(name, scs)
    # blobs the SM callback handed out during the captured sessions
    blobs = []
    for tr in outs["restore-capture"]:
        seen = [t.split(":", 1)[1] for t in (tr or "").split(" ") if re.match(r"^SM\d+:[0-9a-f]+$", t)]
        if seen:
            blobs.append(seen[-1])
            if len(seen) > 3:
                blobs.append(seen[len(seen) // 2])
    blobs = sorted(set(blobs), key=lambda b: (len(b), b))
    if not thorough:
        blobs = blobs[:: max(1, len(blobs) // 6)]
    stats["restore_blobs"] = len(blobs)
    evaluate("restore", fam_restore_phase2(rng, thorough, blobs))
    for name, scs in fams[2:6]:
        k = len(scs) // 2
        if scs:
            chk.sample({"stream": "conn", "label": scs[k].label, "scenario": scs[k].line()[:300], "trace_end": (outs[name][k] or "")[-160:]}, limit=12)
    # report: per signature at most 6 scenarios, taken round-robin from the families that show it (the same
    # signature, e.g. live=1, can have different causes in different families), shortest scenarios first
    by_sig = {}
    for f in failing:
        by_sig.setdefault(f[0], {}).setdefault(f[1], []).append(f)
    stats["failing_by_signature"] = {sig: {fam: len(v) for fam, v in d.items()} for sig, d in by_sig.items()}

    def sig_order(sig):
        m = re.fullmatch(r"live=(\d+)", sig)
        return (1, int(m.group(1)), sig) if m else (0, 0, sig)      # crashes / misuse first, then the smallest leaks

    total = 0
    for sig in sorted(by_sig, key=sig_order):
        if total >= 24:
            stats["signatures_not_reported"] = stats.get("signatures_not_reported", 0) + 1
            continue
        d = by_sig[sig]
        for v in d.values():
            v.sort(key=lambda f: (f[2], len(f[3])))
        order = sorted(d, key=lambda fam: (fam != "regress", fam in ("random", "stages"), fam))
        picked = []
        rnd = 0
        while len(picked) < rep.per_sig and any(len(d[fam]) > rnd for fam in order):
            for fam in order:
                if len(d[fam]) > rnd and len(picked) < rep.per_sig:
                    picked.append(d[fam][rnd])
            rnd += 1
        for (sg, fam, _, ln, sc, what) in picked:
            total += 1
            rep.report(ln, sc.label, sg, what, want=sc.want, extra={"family": fam})


# --------------------------------------------------------------------------------------------------
# stream 3: allocation-failure injection
# --------------------------------------------------------------------------------------------------
def oom_bases(rng, thorough=False):
    fin = ["is", "send " + H(MSG), "run", "sendst " + H("<message to='a@b' id='m1'><body>hi</body></message>"), "run", rx(sm_elem("a", h=1)), "run"] + TEARDOWNS["disc-answered"] + ["is", "release"]
    b = []
    b.append(("tls+scram+bind+sm", ["conn"] + cfg() + connect() + feed(script(tls=True, mech="SCRAM-SHA-1", sm=True)) + fin))
    b.append(("plain+zlib+session+sm", ["conn"] + cfg(flags=64) + connect() + feed(script(tls=False, mech="PLAIN", zlib=True, session="req", sm=True)) + fin))
    b.append(("tls+digest+bind+resume", ["conn"] + cfg() + connect() + feed(script(tls=True, mech="DIGEST-MD5", sm=True)) + ["send " + H(MSG), "run", "rxreset", "run", "run"] +
              connect() + feed(resume_script("resumed", h=0, tls=True)) + fin))
    if thorough:
        fin2 = ["is", "send " + H(MSG), "run"] + TEARDOWNS["disc-answered"] + ["is", "release"]
        b.append(("tls+external", ["conn"] + cfg(cert=True) + connect() + feed(script(tls=True, mech="EXTERNAL", sm=False)) + fin2))
        b.append(("anonymous+session", ["conn"] + cfg(jid="anon", pw=False) + connect() + feed(script(tls=False, mech="ANONYMOUS", session="req", sm=False)) + fin2))
        b.append(("tls+scram-plus+failed-resume", ["conn"] + cfg(cb=True) + connect() + feed(script(tls=True, mech="SCRAM-SHA-256-PLUS", sm=True)) + ["send " + H(MSG), "run", "rxclose", "run", "run"] +
                  connect() + feed(resume_script("failed", h=0, tls=False)) + fin))
        hs = negsim.Elem("component", "handshake", xml="<handshake xmlns='jabber:component:accept'/>")
        b.append(("component", ["conn", "jid " + H("comp.example.com"), "pass " + H("secret"), "hdef 0 s - - - 1", "hadd 0", "gai %s 1" % H("localhost"), "ep accept",
                                "connect component %s 5347" % H("localhost"), "run", rx("h1"), "run", "run", rx(hs), "run", "run"] + fin2))
        b.append(("legacy-auth+scram-pending-reconnect", ["conn"] + cfg(flags=16) + connect() + feed([["h1"], [features(False, ["SCRAM-SHA-1"])]]) + ["rxclose", "run", "run"] +
                  connect() + feed([["h1"]]) + ["clock 15000", "run", "run", rx(iq("auth", "result")), "run", "run"] + fin2))
    return b


def inject(cmds, pos, n):
    return ";".join(cmds[:pos] + ["allocfail %d" % n] + cmds[pos:])


def run_stream3(chk, exe, stats):
    rng = chk.rng
    thorough = chk.tier == "thorough"
    rep = Reporter(chk, exe, "oom", per_sig=3, shrink_per_sig=0)
    CH = 128
    oom = stats["oom"] = {}
    sites = {}
    for name, cmds in oom_bases(rng, thorough):
        base_line = ";".join(cmds)
        base = vlib.run_lines(exe, [base_line])[0]
        chk.evaluations += 1
        sig, what = judge(base_line, base)
        st = oom[name] = {"allocations": 0, "injected": 0, "fired": 0, "leak": 0, "null_crash": 0, "other": 0}
        if sig or anomalies(base):
            # without any injected failure: an ordinary stream-2 failure; the sweep would only repeat it
            rep.report(base_line, "oom-base:" + name, sig or "harness", what or "harness anomaly %s" % anomalies(base), can_shrink=False)
            continue
        first_conn = 1
        first_connect = next(i for i, c in enumerate(cmds) if c.startswith("connect "))
        first_run = next(i for i, c in enumerate(cmds) if c == "run")
        # number of allocations after the first `conn`: injected failures beyond it never fire (trace = baseline).
        # A failure that is tolerated silently also leaves the trace unchanged, so the end is a whole block of CH
        # consecutive n without any change.
        # thorough tier: every n; quick tier: every third n (random phase)
        step = 1 if thorough else 3
        results = {}
        n0 = 1 + (rng.randrange(step) if step > 1 else 0)
        while n0 < 20000:
            ns = list(range(n0, n0 + CH, step))
            out = run_each(exe, [inject(cmds, first_conn, n) for n in ns])
            for n, o in zip(ns, out):
                results[n] = o
            n0 = ns[-1] + step
            if all(o == base for o in out):
                break
        N = max([n for n, o in results.items() if o != base] or [0])
        st["allocations"] = N if thorough else "about %d" % N
        todo = [(first_conn, n) for n in sorted(results) if n <= N]     # (the sweep that found N has run them already)
        # the same failures addressed from later points of the scenario (a sample: they are the same allocation calls)
        for pos in (first_connect, first_run):
            k = (60 if thorough else 12)
            todo += [(pos, n) for n in sorted(rng.sample(range(1, N + 1), min(k, N)))]
        lines, outs = [], []
        need = []
        for pos, n in todo:
            ln = inject(cmds, pos, n)
            lines.append(ln)
            if pos == first_conn and n in results:
                outs.append(results[n])
            else:
                outs.append(None)
                need.append(len(lines) - 1)
        got = run_each(exe, [lines[i] for i in need])
        for i, o in zip(need, got):
            outs[i] = o
        for (pos, n), ln, tr in zip(todo, lines, outs):
            chk.evaluations += 1
            chk.count("oom:" + name)
            st["injected"] += 1
            if tr == base:
                continue
            st["fired"] += 1
            chk.nontrivial.add(("oom", name, pos, n))
            if tr and not tr.startswith("CRASH"):
                chk.traces_validated += 1
            sig, what = judge(ln, tr)
            if not sig:
                continue
            extra = {"oom": True, "base": name, "n": n}
            if sig.startswith("CRASH"):
                if NULL_CRASH_RE.search(tr):
                    extra["cls"] = "null-deref"
                    st["null_crash"] += 1
                    site = sig.split(" @ ")[-1]
                    sites[site] = sites.get(site, 0) + 1
                else:
                    extra["cls"] = "crash-other"
                    st["other"] += 1
            elif re.fullmatch(r"live=\d+", sig):
                extra["cls"] = "leak-only"
                st["leak"] += 1
            else:
                extra["cls"] = "misuse"
                st["other"] += 1
            if extra["cls"] in ("null-deref", "leak-only"):
                # known classes: one record each is enough for Check.fail to note the hit; the rest is counted
                kid = KNOWN_OOM_CRASH if extra["cls"] == "null-deref" else KNOWN_OOM_LEAK
                if kid in chk.known_hits:
                    continue
                chk.fail("SIM " + ln, "with the %d-th allocation failing: %s" % (n, what), stream="oom", extra=dict(extra, signature=sig, label="oom:" + name))
            else:
                rep.report(ln, "oom:" + name, sig, "with the %d-th allocation failing: %s" % (n, what), extra=extra, can_shrink=False)
        if len(chk.samples) < 16:
            chk.sample({"stream": "oom", "base": name, "allocations": N, "scenario": base_line[:200]}, limit=16)
    stats["oom_null_crash_sites"] = dict(sorted(sites.items(), key=lambda kv: -kv[1]))
    stats["oom_failing_by_signature"] = dict(rep.by_sig)


def run_conn_streams(chk):
    """stream 2 (connection scenarios) and stream 3 (allocation-failure injection); returns statistics"""
    t0 = time.time()
    register_known(chk)
    stats = {"families": {}}
    exe = vlib.build_simworld()
    run_stream2(chk, exe, stats)
    stats["stream2_seconds"] = round(time.time() - t0, 1)
    t1 = time.time()
    run_stream3(chk, exe, stats)
    stats["stream3_seconds"] = round(time.time() - t1, 1)
    return stats


def pretty(trace, width=2400):
    out = []
    for p in (trace or "").split(" "):
        m = re.match(r"^([WT]\d+|SM\d+):([0-9a-f]{2,})$", p)
        if m:
            try:
                txt = bytes.fromhex(m.group(2)).decode("latin1")
            except ValueError:
                txt = m.group(2)
            txt = re.sub(r"[^\x20-\x7e]", ".", txt)
            out.append("%s:%s" % (m.group(1), txt if len(txt) < 70 else txt[:60] + "...(%d)" % len(txt)))
        else:
            out.append(p)
    s = " ".join(out)
    return s if len(s) <= width else "... " + s[-width:]


def replay_conn(sim_line):
    """re-run one scenario line on the implementation; 0 = the property holds on it"""
    line = sim_line[4:] if sim_line.startswith("SIM ") else sim_line
    line = line.strip()
    exe = vlib.build_simworld()
    tr = vlib.run_lines(exe, [line], per_case_timeout=30)[0]
    sig, what = judge(line, tr)
    print("scenario : %s" % (line if len(line) < 1500 else line[:1500] + " ..."))
    print("trace    : %s" % pretty(tr))
    cmds = line.split(";")
    inj = [i for i, c in enumerate(cmds) if c.startswith("allocfail ")]
    if inj and sig:
        base_line = ";".join(c for c in cmds if not c.startswith("allocfail "))
        bsig, _ = judge(base_line, vlib.run_lines(exe, [base_line])[0])
        cls = "-"
        if not bsig:
            if sig.startswith("CRASH") and NULL_CRASH_RE.search(tr or ""):
                cls = KNOWN_OOM_CRASH
            elif re.fullmatch(r"live=\d+", sig):
                cls = KNOWN_OOM_LEAK
        print("injected : allocation failure; without it the scenario %s; known class: %s" % ("passes" if not bsig else "fails too (%s)" % bsig, cls))
    print("expected : END live=0 allocerr=0 fds=n/n, no CRASH/ALLOCERR/CLOSEERR, REL=%s" % expected_rel(cmds))
    print("property : %s" % ("holds" if not sig else "FAILS (%s): %s" % (sig, what)))
    return 0 if not sig else 1
