"""C12, stanza stream - every stanza object is freed exactly once; references keep objects alive.

A case is a program of public stanza API calls over numbered slots (the user's references); syntax in
harness/c/c12_driver.c, semantics = `step` of coq/Model/StanzaHeapModel.v.  Three things are compared:

  * correspondence: the implementation's result line (per step: output and number of live stanza objects, and
    the final "END live=") against the extracted Coq model with fx = true (the code with fixes/C12-1), byte-exact
    including attribute order;
  * the PROPERTY ORACLE (independent of the model): the reference interpreter `Interp` below has the abstract
    semantics "an object is live iff a slot holds it or it is attached to a live parent"; it decides whether a
    program is well-owned, predicts the number of live objects after every step, the handle / release / walk
    results, the tree that xmpp_stanza_to_text has to render (attribute order left open, xmlns elision against
    the *live* parent only) and "END live=0 blocks=0"; the implementation must not crash and must not free a
    pointer the allocator does not know;
  * the OOM stream (implementation only): "allocfail n;" + program for n = 1..N; no crash, no unknown free,
    nothing left allocated at the end.
"""
import itertools
import os
import re

import vlib

NS_CLIENT = b"jabber:client"
NS_STANZAS = b"urn:ietf:params:xml:ns:xmpp-stanzas"
XMLNS = b"xmlns"
MAXSLOT = 16

KNOWN_OOM_CRASH = "C12-oom-crash"
KNOWN_OOM_LEAK = "C12-oom-leak"
KNOWN_ENTRIES = {
    KNOWN_OOM_CRASH: dict(property="C12", id=KNOWN_OOM_CRASH, status="known", always_report=False,
                          what="NULL dereference when an allocation fails inside stanza/hash helpers"),
    KNOWN_OOM_LEAK: dict(property="C12", id=KNOWN_OOM_LEAK, status="known", always_report=False,
                         what="blocks leaked when an allocation fails inside stanza/hash helpers"),
}


def hx(b):
    return b.hex() if b else "-"


def unhx(s):
    return b"" if s == "-" else bytes.fromhex(s)


# ---------------------------------------------------------------------------------------------------
# programs: tuples  <->  text
# ---------------------------------------------------------------------------------------------------
def enc_op(op):
    o = op[0]
    if o in ("new", "release", "totext", "walk"):
        return "%s %d" % (o, op[1])
    if o in ("clone", "copy", "reply"):
        return "%s %d %d" % (o, op[1], op[2])
    if o == "addchild":
        return "addchild %d %d %s" % (op[1], op[2], op[3])
    if o in ("setname", "settext", "setns", "delattr"):
        return "%s %d %s" % (o, op[1], hx(op[2]))
    if o == "setattr":
        return "setattr %d %s %s" % (op[1], hx(op[2]), hx(op[3]))
    if o == "child":
        return "child %d %d %d" % (op[1], op[2], op[3])
    if o == "replyerr":
        return "replyerr %d %d %s %s %s" % (op[1], op[2], hx(op[3]), hx(op[4]), "-" if op[5] is None else hx(op[5]))
    if o == "allocfail":
        return "allocfail %d" % op[1]
    raise ValueError(op)


def enc_prog(ops):
    return ";".join(enc_op(o) for o in ops)


def dec_op(s):
    f = s.split()
    o = f[0]
    if o in ("new", "release", "totext", "walk", "allocfail"):
        return (o, int(f[1]))
    if o in ("clone", "copy", "reply"):
        return (o, int(f[1]), int(f[2]))
    if o == "addchild":
        if f[3] not in ("clone", "transfer"):
            raise ValueError(s)
        return (o, int(f[1]), int(f[2]), f[3])
    if o in ("setname", "settext", "setns", "delattr"):
        return (o, int(f[1]), unhx(f[2]))
    if o == "setattr":
        return (o, int(f[1]), unhx(f[2]), unhx(f[3]))
    if o == "child":
        return (o, int(f[1]), int(f[2]), int(f[3]))
    if o == "replyerr":
        return (o, int(f[1]), int(f[2]), unhx(f[3]), unhx(f[4]), None if f[5] == "-" else unhx(f[5]))
    raise ValueError(s)


def dec_prog(line):
    return [dec_op(s) for s in line.split(";") if s.strip()]


def strip_case(case):
    case = case.strip()
    return case[5:] if case.startswith("PROG ") else case


# ---------------------------------------------------------------------------------------------------
# the oracle's reference interpreter: "live <=> referenced"
# ---------------------------------------------------------------------------------------------------
class Obj:
    __slots__ = ("handles", "parent", "children", "kind", "data", "attrs")

    def __init__(self):
        self.handles = 0      # number of slots holding this object
        self.parent = None    # live parent it is attached to
        self.children = []
        self.kind = "U"       # U / T / E
        self.data = None
        self.attrs = {}


class Interp:
    def __init__(self):
        self.slots = {}
        self.objs = set()     # the live objects

    # -- liveness
    def _mk(self, kind="U", data=None, attrs=None, parent=None):
        o = Obj()
        o.kind, o.data, o.attrs = kind, data, dict(attrs or {})
        self.objs.add(o)
        if parent is not None:
            o.parent = parent
            parent.children.append(o)
        return o

    def _drop(self, o):
        """o is referenced by nobody: it dies, its children lose their parent."""
        self.objs.discard(o)
        kids, o.children = o.children, []
        for c in kids:
            c.parent = None
            if c.handles == 0:
                self._drop(c)

    def live(self):
        return len(self.objs)

    # -- helpers
    def subtree(self, o):
        out, stack = [], [o]
        while stack:
            n = stack.pop()
            out.append(n)
            stack.extend(n.children)
        return out

    def _copy(self, o, parent=None):
        c = self._mk(o.kind, o.data, o.attrs if o.kind == "E" else None, parent)
        for ch in o.children:
            self._copy(ch, c)
        return c

    def _reply(self, o):
        if o.kind != "E" or b"from" not in o.attrs:
            return None
        a = {k: v for k, v in o.attrs.items() if k not in (b"to", b"from", XMLNS)}
        a[b"to"] = o.attrs[b"from"]
        return self._mk("E", o.data, a)

    # -- well-ownedness of the next call
    def legal(self, op):
        o = op[0]
        S = self.slots

        def held(k):
            return 0 <= k < MAXSLOT and k in S

        def free(k):
            return 0 <= k < MAXSLOT and k not in S
        if o == "new":
            return free(op[1])
        if o in ("clone", "copy", "reply", "replyerr"):
            return held(op[1]) and free(op[2])
        if o == "child":
            return held(op[1]) and free(op[3]) and op[2] >= 0
        if o in ("release", "setname", "settext", "setattr", "setns", "delattr", "totext", "walk"):
            return held(op[1])
        if o == "addchild":
            if not (held(op[1]) and held(op[2])):
                return False
            p, c = S[op[1]], S[op[2]]
            if c.parent is not None:
                return False
            return not any(n is p for n in self.subtree(c))
        return False

    # -- one call; returns the prediction
    #    ("H", bool) ("R", rc) ("r",) [return code not judged] ("T", nodes | None) ("W", up, down)
    def step(self, op):
        o = op[0]
        S = self.slots
        if o == "new":
            n = self._mk()
            n.handles = 1
            S[op[1]] = n
            return ("H", True)
        if o == "clone":
            n = S[op[1]]
            n.handles += 1
            S[op[2]] = n
            return ("H", True)
        if o == "copy":
            c = self._copy(S[op[1]])
            c.handles = 1
            S[op[2]] = c
            return ("H", True)
        if o == "release":
            n = S.pop(op[1])
            n.handles -= 1
            if n.handles == 0 and n.parent is None:
                self._drop(n)
                return ("R", 1)
            return ("R", 0)
        if o == "addchild":
            p, c = S[op[1]], S[op[2]]
            c.parent = p
            p.children.append(c)
            if op[3] == "transfer":
                del S[op[2]]
                c.handles -= 1
            return ("R", 0)
        if o == "setname":
            n = S[op[1]]
            if n.kind != "T":
                n.kind, n.data = "E", op[2]
            return ("r",)
        if o == "settext":
            n = S[op[1]]
            if n.kind != "E":
                n.kind, n.data = "T", op[2]
            return ("r",)
        if o in ("setattr", "setns"):
            n = S[op[1]]
            if n.kind == "E":
                if o == "setns":
                    n.attrs[XMLNS] = op[2]
                else:
                    n.attrs[op[2]] = op[3]
            return ("r",)
        if o == "delattr":
            n = S[op[1]]
            if n.kind == "E":
                n.attrs.pop(op[2], None)
            return ("r",)
        if o == "totext":
            n = S[op[1]]
            return ("T", expected_nodes(n) if renderable(n) else None)
        if o == "walk":
            n = S[op[1]]
            return ("W", 1 if n.parent is not None else 0, len(self.subtree(n)))
        if o == "child":
            n = S[op[1]]
            if op[2] < len(n.children):
                c = n.children[op[2]]
                c.handles += 1
                S[op[3]] = c
                return ("H", True)
            return ("H", False)
        if o in ("reply", "replyerr"):
            src = S[op[1]]
            r = self._reply(src)
            if r is None:
                return ("H", False)
            if o == "replyerr":
                r.attrs[b"type"] = b"error"
                if b"to" in src.attrs:
                    r.attrs[b"from"] = src.attrs[b"to"]
                err = self._mk("E", b"error", {b"type": op[3]}, r)
                self._mk("E", op[4], {XMLNS: NS_STANZAS}, err)
                if op[5] is not None:
                    t = self._mk("E", b"text", {XMLNS: NS_STANZAS}, err)
                    self._mk("T", op[5], None, t)
            r.handles = 1
            S[op[2]] = r
            return ("H", True)
        raise ValueError(op)


def well_owned(ops):
    it = Interp()
    for op in ops:
        if op[0] == "allocfail":
            return False
        if not it.legal(op):
            return False
        it.step(op)
    return True


# ---------------------------------------------------------------------------------------------------
# the text the property demands, as a tree (attribute order left open), and a reader for what was rendered
# ---------------------------------------------------------------------------------------------------
def _merge(nodes):
    out = []
    for n in nodes:
        if n[0] == "T":
            if not n[1]:
                continue
            if out and out[-1][0] == "T":
                out[-1] = ("T", out[-1][1] + n[1])
                continue
        out.append(n)
    return out


def renderable(n):
    """xmpp_stanza_to_text succeeds: no node without name/text is reached (a text node's children are not visited)"""
    if n.kind == "U":
        return False
    if n.kind == "T":
        return True
    return all(renderable(c) for c in n.children)


def _expected(n, root_rule):
    """root_rule: None = n is below the rendered object (its xmlns is compared with its parent's);
    "top" = n is the rendered object and counts as the top of the output (xmlns="jabber:client" is left out);
    "parent" = n is the rendered object and its xmlns is compared with its live parent's."""
    if n.kind == "T":
        return ("T", n.data)
    attrs = dict(n.attrs)
    ns = attrs.get(XMLNS)
    if ns is not None:
        if root_rule == "top":
            if ns == NS_CLIENT:
                del attrs[XMLNS]
        elif n.parent.kind == "E" and n.parent.attrs.get(XMLNS) == ns:
            del attrs[XMLNS]
    return ("E", n.data, frozenset(attrs.items()), tuple(_merge([_expected(c, None) for c in n.children])))


def expected_nodes(n):
    """The acceptable readings of xmpp_stanza_to_text(n).  An object without a (live) parent is the top of the
    output.  For an object that is attached to a live parent libstrophe 0.14.0 compares its xmlns with the
    parent's, with fixes/C09-1 it treats it as the top: which of the two is right is C09's business, both are
    accepted here.  After the parent is gone there is NO parent: only the top-level reading is accepted."""
    alts = [_merge([_expected(n, "top")])]
    if n.parent is not None:
        a = _merge([_expected(n, "parent")])
        if a not in alts:
            alts.append(a)
    return alts


_ENT = {b"lt": b"<", b"gt": b">", b"amp": b"&", b"quot": b"\""}


def _unescape(b):
    out = bytearray()
    i = 0
    while i < len(b):
        if b[i] == 0x26:
            j = b.index(b";", i)
            out += _ENT[bytes(b[i + 1:j])]
            i = j + 1
        else:
            out.append(b[i])
            i += 1
    return bytes(out)


_NAME = re.compile(rb"[^\s/>=\"]+")


def parse_xml(b):
    """Reader for the subset xmpp_stanza_to_text produces. Returns a node list or raises ValueError."""
    pos = 0

    def nodes(close):
        nonlocal pos
        out = []
        while pos < len(b):
            if b[pos] != 0x3c:
                j = b.find(b"<", pos)
                j = len(b) if j < 0 else j
                raw = b[pos:j]
                if b">" in raw or b"\"" in raw:
                    raise ValueError("unescaped character in text")
                out.append(("T", _unescape(raw)))
                pos = j
                continue
            if b.startswith(b"</", pos):
                if close is None or not b.startswith(b"</" + close + b">", pos):
                    raise ValueError("unexpected end tag at %d" % pos)
                pos += len(close) + 3
                return _merge(out), True
            pos += 1
            m = _NAME.match(b, pos)
            if not m:
                raise ValueError("no element name at %d" % pos)
            name = m.group(0)
            pos = m.end()
            attrs = {}
            while b.startswith(b" ", pos):
                pos += 1
                m = _NAME.match(b, pos)
                if not m or not b.startswith(b"=\"", m.end()):
                    raise ValueError("bad attribute at %d" % pos)
                key = m.group(0)
                pos = m.end() + 2
                j = b.index(b"\"", pos)
                raw = b[pos:j]
                if b"<" in raw or b">" in raw:
                    raise ValueError("unescaped character in attribute value")
                if key in attrs:
                    raise ValueError("attribute twice")
                attrs[key] = _unescape(raw)
                pos = j + 1
            if b.startswith(b"/>", pos):
                pos += 2
                out.append(("E", name, frozenset(attrs.items()), ()))
            elif b.startswith(b">", pos):
                pos += 1
                kids, closed = nodes(name)
                if not closed:
                    raise ValueError("element %r not closed" % name)
                out.append(("E", name, frozenset(attrs.items()), tuple(kids)))
            else:
                raise ValueError("bad start tag at %d" % pos)
        return _merge(out), False
    res, closed = nodes(None)
    if closed:
        raise ValueError("stray end tag")
    return res


def show_nodes(nodes):
    def one(n):
        if n[0] == "T":
            return "T%r" % n[1]
        return "<%s %s>(%s)" % (n[1].decode("latin-1"), ",".join("%s=%r" % (k.decode("latin-1"), v) for k, v in sorted(n[2])),
                                ",".join(one(c) for c in n[3]))
    return ",".join(one(n) for n in nodes)


# ---------------------------------------------------------------------------------------------------
# verdicts
# ---------------------------------------------------------------------------------------------------
def crash_kind(impl):
    m = re.search(r"AddressSanitizer: ([\w-]+)", impl)
    kind = m.group(1) if m else None
    if kind is None and "runtime error" in impl:
        kind = "ubsan-null" if re.search(r"null pointer", impl) else "ubsan"
    if kind is None:
        kind = "TIMEOUT" if "TIMEOUT" in impl else "other"
    m = re.search(r" in (\w+) ([\w.]+)(?::[\d:]+)?$", impl)
    return kind, ("%s(%s)" % (m.group(1), m.group(2)) if m else "?")


def is_null_deref(impl):
    """CRASH line of a NULL dereference (SEGV in the zero page / UBSan null-pointer report), not a lifetime error."""
    if not impl.startswith("CRASH"):
        return False
    if any(w in impl for w in ("heap-use-after-free", "double-free", "attempting free", "heap-buffer-overflow",
                               "bad-free", "stack-")):
        return False
    if "runtime error" in impl:
        return "null pointer" in impl
    m = re.search(r"AddressSanitizer: SEGV on unknown address (0x[0-9a-f]+)", impl)
    return bool(m) and int(m.group(1), 16) < 4096


def parse_result(impl):
    """-> (tokens [(out, live)], allocerr, end (live, blocks) | None)"""
    toks, allocerr, end = [], False, None
    parts = impl.split(" ")
    i = 0
    while i < len(parts):
        p = parts[i]
        if p == "ALLOCERR":
            allocerr = True
        elif p == "END":
            m1 = re.match(r"live=(-?\d+)$", parts[i + 1]) if i + 1 < len(parts) else None
            m2 = re.match(r"blocks=(-?\d+)$", parts[i + 2]) if i + 2 < len(parts) else None
            end = (int(m1.group(1)) if m1 else None, int(m2.group(1)) if m2 else None)
            break
        elif "@" in p:
            out, _, lv = p.rpartition("@")
            toks.append((out, int(lv)))
        elif p:
            raise ValueError("unexpected token %r" % p)
        i += 1
    return toks, allocerr, end


def oracle(ops, impl):
    """Failures of the property on this run of the implementation: [(signature, text)]. ops is well-owned."""
    if impl is None or impl.startswith("CRASH"):
        kind, fn = crash_kind(impl or "")
        return [("crash:%s:%s" % (kind, fn), "the implementation dies: %s" % impl)]
    try:
        toks, allocerr, end = parse_result(impl)
    except (ValueError, IndexError) as e:
        return [("malformed", "cannot read the driver's line (%s): %s" % (e, impl[:200]))]
    fails = []
    if allocerr:
        fails.append(("allocerr", "a pointer unknown to the allocator was freed (double free)"))
    if len(toks) != len(ops):
        fails.append(("malformed", "%d results for %d calls" % (len(toks), len(ops))))
        return fails
    it = Interp()
    for k, op in enumerate(ops):
        pred = it.step(op)
        out, lv = toks[k]
        where = "call %d (%s)" % (k, enc_op(op)[:70])
        if pred[0] == "H":
            want = "H1" if pred[1] else "H0"
            if out != want:
                fails.append(("handle", "%s returned %s, the object graph says %s" % (where, out, want)))
        elif pred[0] == "R":
            if out != "R%d" % pred[1]:
                fails.append(("release-rc" if op[0] == "release" else "rc",
                              "%s returned %s, expected R%d" % (where, out, pred[1])))
        elif pred[0] == "W":
            want = "W%d,%d" % (pred[1], pred[2])
            if out != want:
                fails.append(("walk", "%s saw %s, the object graph is %s (parent set, objects below)" % (where, out, want)))
        elif pred[0] == "T":
            if pred[1] is None:
                if not out.startswith("TE"):
                    fails.append(("text", "%s rendered %s although a node without name/text is below" % (where, out[:80])))
            elif not out.startswith("T:"):
                fails.append(("text", "%s failed with %s" % (where, out[:40])))
            else:
                try:
                    got = parse_xml(unhx(out[2:]))
                except (ValueError, KeyError) as e:
                    got = "unreadable (%s)" % e
                if got not in pred[1]:
                    fails.append(("text", "%s rendered %r = %s, the tree is %s" %
                                  (where, unhx(out[2:])[:200], got if isinstance(got, str) else show_nodes(got)[:300],
                                   " or ".join(show_nodes(a)[:300] for a in pred[1]))))
        elif out == "BAD" or not out.startswith("R"):
            fails.append(("rc", "%s gave %s" % (where, out[:40])))
        if lv != it.live():
            fails.append(("live-count", "%s: %d stanza objects are allocated, %d are referenced" % (where, lv, it.live())))
            break      # later counts follow from this one
    if end is None:
        fails.append(("malformed", "no END"))
    elif end != (0, 0):
        fails.append(("end-leak" if (end[0] or 0) >= 0 and (end[1] or 0) >= 0 else "end-negative",
                      "after the last reference is gone: live=%s blocks=%s" % end))
    return fails


def oracle_oom(impl):
    if impl is None or impl.startswith("CRASH"):
        kind, fn = crash_kind(impl or "")
        return [("oom-crash:%s:%s" % (kind, fn), "the implementation dies when an allocation fails: %s" % impl)]
    try:
        toks, allocerr, end = parse_result(impl)
    except (ValueError, IndexError) as e:
        return [("malformed", "cannot read the driver's line (%s): %s" % (e, impl[:200]))]
    fails = []
    if allocerr:
        fails.append(("oom-allocerr", "a pointer unknown to the allocator was freed (double free) after an allocation failed"))
    if end is None:
        fails.append(("malformed", "no END"))
    elif end != (0, 0):
        fails.append(("oom-leak", "after an allocation failed and the last reference is gone: live=%s blocks=%s" % end))
    return fails


def canon_impl(impl):
    if impl is None:
        return "CRASH none"
    return re.sub(r" blocks=-?\d+$", "", impl)


def canon_model(model):
    """-> (well-owned flag | None, line)"""
    if model is None:
        return None, None
    if model.startswith("WO1 "):
        return True, model[4:]
    if model.startswith("WO0 "):
        return False, model[4:]
    return None, model


# ---------------------------------------------------------------------------------------------------
# generators
# ---------------------------------------------------------------------------------------------------
NAMECH = "abcdefghijklmnopqrstuvwxyz"
VALCH = "abxyz019 <>&\"'=/:.-"
NS_POOL = [NS_CLIENT, b"urn:x", b"urn:y", b"urn:x", b"a<b&\"c'", b"jabber:server", NS_STANZAS]


class Illegal(Exception):
    pass


class PB:
    """Program builder guided by the reference interpreter: only well-owned calls can be emitted."""

    def __init__(self, rng, nslots=8):
        self.rng = rng
        self.nslots = nslots
        self.it = Interp()
        self.ops = []

    def do(self, *op):
        if not self.it.legal(op):
            raise Illegal(op)
        r = self.it.step(op)
        self.ops.append(op)
        return r

    def held(self):
        return sorted(self.it.slots)

    def free(self):
        return [k for k in range(self.nslots) if k not in self.it.slots]

    def name(self):
        r = self.rng
        return "".join(r.choice(NAMECH) for _ in range(r.choice([1, 1, 2, 3, 6]))).encode()

    def val(self, maxlen=12):
        r = self.rng
        return "".join(r.choice(VALCH) for _ in range(r.choice([0, 1, 2, 3, 5, maxlen]))).encode()

    def key(self):
        r = self.rng
        x = r.random()
        if x < 0.25:
            return r.choice([b"from", b"to", b"type", b"id", XMLNS])
        if x < 0.5:
            return r.choice([b"a", b"i", b"q", b"y", b"ab", b"ib"])    # same bucket in hash.c
        return self.name()

    def elem(self, k, name=None, ns=None):
        self.do("new", k)
        self.do("setname", k, name if name is not None else self.name())
        if ns is not None:
            self.do("setns", k, ns)
        return k

    def observe(self, k):
        self.do("walk", k)
        self.do("totext", k)

    def observe_all(self):
        for k in self.held():
            self.observe(k)


def gen_random(rng, nops, nslots=8):
    b = PB(rng, nslots)
    while len(b.ops) < nops:
        held, free = b.held(), b.free()
        x = rng.random()
        try:
            if not held or (x < 0.16 and free):
                if not free:
                    b.do("release", rng.choice(held))
                    continue
                k = rng.choice(free)
                b.do("new", k)
                y = rng.random()
                if y < 0.75:
                    b.do("setname", k, b.name())
                    if rng.random() < 0.5:
                        b.do("setns", k, rng.choice(NS_POOL))
                elif y < 0.93:
                    b.do("settext", k, b.val())
            elif x < 0.30:
                p, c = rng.choice(held), rng.choice(held)
                b.do("addchild", p, c, rng.choice(["clone", "clone", "transfer"]))
            elif x < 0.40 and free:
                b.do("clone", rng.choice(held), rng.choice(free))
            elif x < 0.50 and free:
                k = rng.choice(held)
                n = len(b.it.slots[k].children)
                b.do("child", k, rng.choice([0, 0, 1, 2, max(n - 1, 0), n]), rng.choice(free))
            elif x < 0.64:
                b.do("release", rng.choice(held))
            elif x < 0.72:
                b.do("totext", rng.choice(held))
            elif x < 0.78:
                b.do("walk", rng.choice(held))
            elif x < 0.83 and free:
                b.do("copy", rng.choice(held), rng.choice(free))
            elif x < 0.90:
                k = rng.choice(held)
                if rng.random() < 0.4:
                    b.do("setns", k, rng.choice(NS_POOL))
                else:
                    b.do("setattr", k, b.key(), b.val())
            elif x < 0.92:
                b.do("delattr", rng.choice(held), b.key())
            elif x < 0.94:
                k = rng.choice(held)
                b.do(rng.choice(["setname", "settext"]), k, b.name())
            elif x < 0.97 and free:
                b.do("reply", rng.choice(held), rng.choice(free))
            elif free:
                b.do("replyerr", rng.choice(held), rng.choice(free), rng.choice([b"cancel", b"modify", b"wait"]),
                     rng.choice([b"gone", b"conflict", b"bad-request"]), rng.choice([None, b.val() or None, b"x"]))
        except Illegal:
            continue
    if rng.random() < 0.7:
        b.observe_all()
    return b.ops


def fam_survivor(rng, add):
    """A child outlives its parent: every way of holding it, position among the siblings, namespaces, and every
    use of the survivor afterwards."""
    holds = ["clone-then-transfer", "addchild-clone", "child-op"]
    nss = [(b"urn:x", b"urn:x"), (b"urn:x", b"urn:y"), (b"urn:x", None), (None, b"urn:x"), (None, NS_CLIENT),
           (NS_CLIENT, NS_CLIENT), (None, None)]
    uses = ["totext", "walk", "reparent-clone", "reparent-transfer", "copy", "child", "mutate", "release"]
    for nch in (1, 2, 3):
        for pos in range(nch):
            for hold in holds:
                for pns, cns in nss:
                    for gk in (0, 2):
                        for use in uses:
                            if nch == 3 and rng.random() < 0.5:
                                continue          # thin out the largest trees
                            b = PB(rng, 12)
                            try:
                                b.elem(0, b"p", pns)
                                for i in range(nch):
                                    if i == pos:
                                        b.elem(1, b"s", cns)
                                        for g in range(gk):
                                            b.elem(2, b"g", rng.choice([cns, b"urn:z"]))
                                            if g == 0:
                                                b.do("new", 3)
                                                b.do("settext", 3, b"t<")
                                                b.do("addchild", 2, 3, "transfer")
                                            b.do("addchild", 1, 2, "transfer")
                                        if hold == "clone-then-transfer":
                                            b.do("clone", 1, 5)
                                            b.do("addchild", 0, 1, "transfer")
                                        elif hold == "addchild-clone":
                                            b.do("addchild", 0, 1, "clone")
                                            b.do("clone", 1, 5)
                                            b.do("release", 1)
                                        else:
                                            b.do("addchild", 0, 1, "transfer")
                                    else:
                                        b.elem(2, rng.choice([b"a", b"b"]), rng.choice([pns, None, b"urn:w"]))
                                        b.do("addchild", 0, 2, "transfer")
                                if hold == "child-op":
                                    b.do("child", 0, pos, 5)
                                b.observe(5)
                                b.do("release", 0)          # the parent goes away, slot 5 keeps the child
                                s = 5
                                if use == "totext":
                                    b.do("totext", s)
                                    b.do("walk", s)
                                elif use == "walk":
                                    b.do("walk", s)
                                    b.do("totext", s)
                                elif use in ("reparent-clone", "reparent-transfer"):
                                    b.elem(6, b"q", rng.choice([cns, pns, b"urn:y", None]))
                                    b.do("addchild", 6, s, use[9:])
                                    b.observe(6)
                                    if use == "reparent-clone":
                                        b.observe(s)
                                        b.do("release", rng.choice([6, s]))
                                        b.observe_all()
                                elif use == "copy":
                                    b.do("copy", s, 7)
                                    b.do("release", s)
                                    b.observe(7)
                                elif use == "child":
                                    b.do("child", s, 0, 7)
                                    b.do("release", s)
                                    b.observe_all()
                                elif use == "mutate":
                                    b.do("setattr", s, b"k", b"v")
                                    b.do("setns", s, rng.choice([b"urn:n", pns or b"urn:x"]))
                                    b.elem(7, b"n", None)
                                    b.do("addchild", s, 7, "transfer")
                                    b.observe(s)
                                else:
                                    b.do("release", s)
                            except Illegal:
                                continue
                            add(b.ops, "survivor-" + use)


def fam_transfer_clone(rng, add):
    for mode in ("clone", "transfer"):
        for order in itertools.permutations(range(3)):
            b = PB(rng)
            b.elem(0, b"r", b"urn:x")
            b.elem(1, b"c", b"urn:x")
            b.do("clone", 1, 2)
            b.do("addchild", 0, 1, mode)
            acts = [lambda: b.do("release", 0), lambda: b.do("release", 2),
                    lambda: b.do("release", 1) if 1 in b.it.slots else None]
            try:
                for i in order:
                    acts[i]()
                    b.observe_all()
            except Illegal:
                continue
            add(b.ops, "transfer-vs-clone")


def tree_shapes(n):
    """parent vectors of all rooted ordered-by-creation trees with n nodes"""
    return itertools.product(*[range(i) for i in range(1, n)])


def fam_release_perm(rng, add, n, sample=None):
    """every node of a small tree is held; all orders of releasing the handles, the rest is observed after each"""
    for shape in tree_shapes(n):
        perms = list(itertools.permutations(range(n)))
        if sample is not None and len(perms) > sample:
            perms = rng.sample(perms, sample)
        nsv = rng.choice([[b"urn:x"] * n, [rng.choice([b"urn:x", b"urn:y", None]) for _ in range(n)]])
        for perm in perms:
            b = PB(rng, 12)
            for i in range(n):
                b.elem(i, NAMECH[i].encode(), nsv[i])
            for i in range(1, n):
                b.do("addchild", shape[i - 1], i, "clone")
            for k in perm:
                b.do("release", k)
                b.observe_all()
            add(b.ops, "release-perm-%d" % n)


def fam_copy_shared(rng, add, reps):
    for _ in range(reps):
        b = PB(rng, 12)
        try:
            b.elem(0, b"r", rng.choice(NS_POOL))
            b.do("setattr", 0, b"from", b"a@b")
            for i in (1, 2):
                b.elem(i, b.name(), rng.choice(NS_POOL + [None]))
                b.do("setattr", i, b.key(), b.val())
                b.do("addchild", 0, i, "clone")
            b.elem(3, b"g", rng.choice(NS_POOL + [None]))
            b.do("new", 4)
            b.do("settext", 4, b.val())
            b.do("addchild", 3, 4, "transfer")
            b.do("addchild", rng.choice([1, 2]), 3, rng.choice(["clone", "transfer"]))
            src = rng.choice([0, 1, 2])
            b.do("copy", src, 6)
            b.observe(6)
            x = rng.random()
            if x < 0.4:
                b.do("release", 0)            # original root goes, the inner handles and the copy stay
                b.observe_all()
            elif x < 0.7:
                # "extract a child for inclusion in another tree"
                b.elem(7, b"n", rng.choice(NS_POOL))
                b.do("addchild", 7, 6, "transfer")
                b.do("release", 0)
                b.observe_all()
            else:
                b.do("setattr", 6, b"k", b"changed")
                b.do("child", 6, 0, 8)
                b.do("release", 6)
                b.observe_all()
            for k in rng.sample(b.held(), len(b.held())):
                b.do("release", k)
                if rng.random() < 0.5:
                    b.observe_all()
        except Illegal:
            continue
        add(b.ops, "copy-shared")


def fam_reply(rng, add, reps):
    for _ in range(reps):
        b = PB(rng, 12)
        try:
            kind = rng.choice(["tag", "tag", "tag", "text", "unknown"])
            b.do("new", 0)
            if kind == "tag":
                b.do("setname", 0, rng.choice([b"iq", b"message", b.name()]))
                if rng.random() < 0.8:
                    b.do("setattr", 0, b"from", b.val() or b"f")
                if rng.random() < 0.7:
                    b.do("setattr", 0, b"to", b.val())
                if rng.random() < 0.5:
                    b.do("setns", 0, rng.choice(NS_POOL))
                if rng.random() < 0.5:
                    b.do("setattr", 0, b"id", b.val())
                if rng.random() < 0.5:
                    b.elem(1, b"body", rng.choice(NS_POOL + [None]))
                    b.do("addchild", 0, 1, rng.choice(["clone", "transfer"]))
            elif kind == "text":
                b.do("settext", 0, b"hello")
            b.do("reply", 0, 2)
            b.do("replyerr", 0, 3, rng.choice([b"cancel", b"auth"]), rng.choice([b"gone", b"forbidden", b.name()]),
                 rng.choice([None, None, b.val() or None, b"t&<"]))
            if 3 in b.it.slots:
                b.do("child", 3, 0, 4)               # <error/>
                if rng.random() < 0.5 and 4 in b.it.slots:
                    b.do("child", 4, rng.choice([0, 1, 2]), 5)
                if rng.random() < 0.6:
                    b.do("release", 3)               # the reply goes, parts of it are still held
            b.do("release", 0)
            b.observe_all()
            for k in rng.sample(b.held(), len(b.held())):
                b.do("release", k)
                b.observe_all()
        except Illegal:
            continue
        add(b.ops, "reply")


def fam_errors(rng, add):
    progs = [
        [("new", 0), ("settext", 0, b"t"), ("setname", 0, b"a"), ("setattr", 0, b"k", b"v"), ("delattr", 0, b"k"), ("totext", 0)],
        [("new", 0), ("setname", 0, b"a"), ("settext", 0, b"t"), ("delattr", 0, b"k"), ("setattr", 0, b"k", b"v"),
         ("delattr", 0, b"q"), ("delattr", 0, b"k"), ("delattr", 0, b"k"), ("totext", 0)],
        [("new", 0), ("setattr", 0, b"k", b"v"), ("delattr", 0, b"k"), ("totext", 0), ("walk", 0), ("copy", 0, 1), ("reply", 0, 2),
         ("replyerr", 0, 2, b"cancel", b"gone", None)],
        [("new", 0), ("new", 1), ("addchild", 0, 1, "clone"), ("totext", 0), ("setname", 0, b"a"), ("totext", 0),
         ("settext", 1, b"x"), ("totext", 0), ("copy", 0, 2), ("totext", 2), ("child", 0, 1, 3), ("child", 0, 0, 3), ("child", 1, 0, 4)],
        [("new", 0), ("settext", 0, b""), ("new", 1), ("settext", 1, b"a"), ("addchild", 0, 1, "transfer"), ("totext", 0), ("walk", 0),
         ("copy", 0, 2), ("totext", 2)],
        [("new", 0), ("setname", 0, b"a"), ("setname", 0, b"b"), ("setattr", 0, b"k", b"1"), ("setattr", 0, b"k", b"2"),
         ("setns", 0, NS_CLIENT), ("totext", 0), ("setns", 0, b"urn:x"), ("totext", 0), ("delattr", 0, XMLNS), ("totext", 0)],
    ]
    for p in progs:
        add(p, "error-returns")


def fam_deep_wide(rng, add, depth, width):
    b = PB(rng, 12)
    b.elem(0, b"r", b"urn:x")
    cur = 0
    for d in range(depth):
        nxt = 1 if cur != 1 else 2
        b.elem(nxt, b"d", b"urn:x" if d % 3 else b"urn:y")
        b.do("addchild", cur, nxt, "clone")
        if cur != 0:
            b.do("release", cur)
        cur = nxt
    b.observe(0)
    b.observe(cur)
    b.do("copy", 0, 5)
    b.do("release", 0)          # the deepest node is still held: the whole chain above it goes
    b.observe(cur)
    b.observe(5)
    b.do("release", 5)
    add(b.ops, "deep-chain")
    b = PB(rng, 12)
    b.elem(0, b"r", b"urn:x")
    for i in range(width):
        b.elem(1, b"w", rng.choice([b"urn:x", None]))
        if i in (0, width // 2, width - 1):
            b.do("clone", 1, 2 + (i > 0) + (i == width - 1))
        b.do("addchild", 0, 1, "transfer")
    b.observe(0)
    b.do("child", 0, width - 1, 6)
    b.do("child", 0, width, 7)
    b.do("copy", 0, 8)
    b.do("release", 0)
    b.observe_all()
    add(b.ops, "wide-node")


def fam_exhaustive(add, maxops, nslots=3):
    """small-scope enumeration: all well-owned programs of up to maxops macro-steps over nslots slots, slot choice
    canonical (a new handle always goes to the lowest free slot); every held slot is observed at the end"""
    names = [b"a", b"b", b"c", b"d"]

    def expand(m):
        if m[0] == "N":
            return [("new", m[1]), ("setname", m[1], names[m[1]]), ("setns", m[1], b"urn:x")]
        return [m]

    def rec(prefix, depth):
        b = PB(None, nslots)
        try:
            for m in prefix:
                for op in expand(m):
                    b.do(*op)
        except Illegal:
            return
        if prefix:
            ops = list(b.ops)
            b.observe_all()
            add(b.ops, "exhaustive-%d" % len(prefix))
            b.ops = ops
        if depth == 0:
            return
        held, free = b.held(), b.free()
        cands = []
        if free:
            j = free[0]
            cands.append(("N", j))
            for k in held:
                cands += [("clone", k, j), ("child", k, 0, j), ("copy", k, j)]
        for k in held:
            cands.append(("release", k))
            for c in held:
                cands += [("addchild", k, c, "clone"), ("addchild", k, c, "transfer")]
        for m in cands:
            rec(prefix + [m], depth - 1)
    rec([], maxops)


OOM_PROGRAMS = [
    # (name, prefix ops, target ops, suffix ops)
    ("replyerr-text",
     [("new", 0), ("setname", 0, b"iq"), ("setattr", 0, b"from", b"a@b"), ("setattr", 0, b"to", b"c@d"), ("setattr", 0, b"id", b"1")],
     [("replyerr", 0, 1, b"cancel", b"gone", b"text")],
     [("totext", 1), ("walk", 1), ("child", 1, 0, 2), ("walk", 2), ("totext", 2), ("release", 2), ("release", 1)]),
    ("copy-3-level",
     [("new", 0), ("setname", 0, b"r"), ("setns", 0, b"urn:x"), ("setattr", 0, b"a", b"1"),
      ("new", 1), ("setname", 1, b"m"), ("setattr", 1, b"b", b"2"), ("setattr", 1, b"c", b"3"),
      ("new", 2), ("setname", 2, b"l"), ("setns", 2, b"urn:y"), ("new", 3), ("settext", 3, b"t<"),
      ("addchild", 2, 3, "transfer"), ("addchild", 1, 2, "clone"), ("addchild", 0, 1, "transfer")],
     [("copy", 0, 4)],
     [("totext", 4), ("walk", 2), ("totext", 2), ("walk", 4), ("release", 2), ("release", 0), ("totext", 4)]),
    ("totext",
     [("new", 0), ("setname", 0, b"r"), ("setns", 0, b"urn:x"), ("setattr", 0, b"a", b"1<"),
      ("new", 1), ("setname", 1, b"m"), ("setns", 1, b"urn:x"), ("new", 3), ("settext", 3, b"t<&"),
      ("addchild", 1, 3, "transfer"), ("addchild", 0, 1, "clone")],
     [("totext", 0), ("totext", 1)],
     [("release", 1), ("totext", 0)]),
    ("reply",
     [("new", 0), ("setname", 0, b"iq"), ("setns", 0, NS_CLIENT), ("setattr", 0, b"from", b"a@b"), ("setattr", 0, b"to", b"c@d")],
     [("reply", 0, 1)],
     [("totext", 1), ("release", 0), ("totext", 1)]),
    ("build",
     [],
     [("new", 0), ("setname", 0, b"r"), ("setns", 0, b"urn:x"), ("setattr", 0, b"a", b"1"), ("setattr", 0, b"a", b"2"),
      ("new", 1), ("settext", 1, b"t"), ("addchild", 0, 1, "clone"), ("delattr", 0, b"a")],
     [("totext", 0), ("walk", 1), ("release", 1), ("totext", 0)]),
    # a child that outlives its parent, under allocation failure (the program without allocfail is judged first:
    # on a tree without fixes/C12-1 it already fails there and is not an OOM finding)
    ("survivor",
     [("new", 0), ("setname", 0, b"r"), ("setns", 0, b"urn:x"), ("new", 1), ("setname", 1, b"m"), ("setns", 1, b"urn:x"),
      ("setattr", 1, b"k", b"v"), ("addchild", 0, 1, "clone")],
     [("copy", 0, 2), ("release", 0), ("totext", 1), ("new", 3), ("setname", 3, b"q"), ("addchild", 3, 1, "clone"), ("totext", 3)],
     [("walk", 1), ("release", 3), ("totext", 1)]),
]


def gen_oom(tier):
    """allocfail n directly before the calls under test (and, thorough, before the whole program) for every n up
    to beyond the number of allocation requests; quick: every n <= 12, then every third"""
    ns = list(range(1, 91)) if tier == "thorough" else list(range(1, 13)) + list(range(13, 72, 3))
    out = []
    for name, pre, tgt, suf in OOM_PROGRAMS:
        for n in ns:
            out.append((enc_prog(pre + [("allocfail", n)] + tgt + suf), "oom-" + name))
        if tier == "thorough":
            for n in ns:
                out.append((enc_prog([("allocfail", n)] + pre + tgt + suf), "oom-" + name + "-whole"))
    return out


def gen_cases(chk):
    rng = chk.rng
    thorough = chk.tier == "thorough"
    cases = []
    seen = set()

    def add(ops, kind):
        line = enc_prog(ops)
        if line in seen:
            return
        seen.add(line)
        cases.append((line, kind))

    fam_errors(rng, add)
    fam_transfer_clone(rng, add)
    fam_survivor(rng, add)
    for n in (2, 3, 4):
        fam_release_perm(rng, add, n)
    if thorough:
        fam_release_perm(rng, add, 5)
        fam_release_perm(rng, add, 6, sample=6)
    else:
        fam_release_perm(rng, add, 5, sample=8)
    fam_copy_shared(rng, add, 6000 if thorough else 250)
    fam_reply(rng, add, 6000 if thorough else 250)
    fam_deep_wide(rng, add, 50, 200)
    fam_deep_wide(rng, add, 7, 9)
    fam_exhaustive(add, 6 if thorough else 4)
    target = 100000 if thorough else 3000
    nrandom = max(target - len(cases), 500)
    for _ in range(nrandom):
        add(gen_random(rng, rng.randrange(5, 41), rng.choice([3, 4, 6, 8])), "random")
    return cases


# ---------------------------------------------------------------------------------------------------
# running
# ---------------------------------------------------------------------------------------------------
def build_impl_driver():
    return vlib.build_c_driver("c12", [os.path.join(vlib.ROOT, "harness", "c", "c12_driver.c")])


def load_corpus():
    p = os.path.join(vlib.ROOT, "corpus", "C12.txt")
    if not os.path.exists(p):
        return []
    out = []
    for l in open(p):
        l = l.strip()
        if not l or l.startswith("#") or l.startswith("CONN "):
            continue
        out.append(strip_case(l))
    return out


def _rec_result(rec):
    """the implementation's result line of a failure record (ours carry it as "impl"; otherwise look in "what")"""
    impl = str(rec.get("impl") or "")
    if not impl:
        what = str(rec.get("what") or "")
        k = what.find("CRASH ")
        impl = what[k:] if k >= 0 else what
    return impl


def register_known(chk):
    def oom_crash(rec):
        return "allocfail" in str(rec.get("case", "")) and is_null_deref(_rec_result(rec))

    def oom_leak(rec):
        impl = _rec_result(rec)
        if "allocfail" not in str(rec.get("case", "")) or "CRASH" in impl or "ALLOCERR" in impl:
            return False
        m = re.search(r"END live=(\d+) blocks=(\d+)", impl) or re.search(r"live=(\d+) blocks=(\d+)", impl)
        return bool(m) and (int(m.group(1)) > 0 or int(m.group(2)) > 0)
    for kid, mine in ((KNOWN_OOM_CRASH, oom_crash), (KNOWN_OOM_LEAK, oom_leak)):
        old = chk.known_preds.get(kid)
        if old is None:
            mine._c12stanza = True
            chk.known_preds[kid] = mine
        elif not getattr(old, "_c12stanza", False):
            # another stream of C12 (connection scenarios) registered the same class: either predicate may claim
            def both(rec, old=old, mine=mine):
                return bool(old(rec)) or mine(rec)
            both._c12stanza = True
            chk.known_preds[kid] = both
        if not any(k.get("id") == kid for k in chk.known):
            # known_findings.json is the coordinator's file; until the entry is committed there the check carries it
            chk.known.append(dict(KNOWN_ENTRIES[kid]))


def _crash_summary(rc, err):
    """One line for a dead driver process: the sanitizer's error and the innermost frame that is not the
    sanitizer's own (vlib.run_lines names libsanitizer's interceptor for a use-after-free)."""
    m = re.search(r"(ERROR: AddressSanitizer: [^\n]*|runtime error: [^\n]*|Assertion[^\n]*failed[^\n]*)", err)
    msg = m.group(1) if m else "exit %d" % rc
    msg = re.sub(r" at pc 0x[0-9a-f]+.*| \(pc 0x[0-9a-f]+.*", "", msg)
    fn = None
    for f in re.finditer(r"#\d+ 0x[0-9a-f]+ in (\w+) (\S+)", err):
        path = f.group(2)
        if "libsanitizer" in path or "sysdeps" in path or "/csu/" in path:
            continue
        fn = "%s %s" % (f.group(1), os.path.basename(path))
        break
    return ("CRASH " + msg + (" in " + fn if fn else "")).replace("\n", " ")[:300]


def run_impl(exe, lines, nshards=None, chunk_timeout=120):
    """One result line per program. The driver flushes after every line, so when the process dies the number of
    complete output lines names the program that killed it: that one becomes "CRASH <summary>" and the run
    continues behind it (one process per crash; vlib.run_lines would bisect the batch)."""
    import subprocess
    from concurrent.futures import ThreadPoolExecutor
    env = dict(os.environ)
    env.update(vlib.ASAN_ENV)

    def shard(part):
        res = []
        pos = 0
        while pos < len(part):
            rest = part[pos:pos + 400]
            try:
                p = subprocess.run([exe], input=("\n".join(rest) + "\n").encode(), stdout=subprocess.PIPE,
                                   stderr=subprocess.PIPE, timeout=chunk_timeout, env=env)
                rc, out, err = p.returncode, p.stdout.decode("utf-8", "replace"), p.stderr.decode("utf-8", "replace")
            except subprocess.TimeoutExpired as ex:
                rc, out, err = -999, (ex.stdout or b"").decode("utf-8", "replace"), "runtime error: TIMEOUT after %ss" % chunk_timeout
            done = out.split("\n")[:-1]
            if rc == 0 and len(done) == len(rest):
                res += done
                pos += len(rest)
                continue
            done = done[:len(rest) - 1] if len(done) >= len(rest) else done
            res += done
            res.append(_crash_summary(rc, err) if rc != 0 else "CRASH wrong-output-count")
            pos += len(done) + 1
        return res
    nshards = nshards or min(vlib.NCPU, max(1, len(lines) // 50))
    if nshards <= 1:
        return shard(lines)
    size = (len(lines) + nshards - 1) // nshards
    parts = [lines[k:k + size] for k in range(0, len(lines), size)]
    with ThreadPoolExecutor(max_workers=nshards) as ex:
        outs = list(ex.map(shard, parts))
    return [o for part in outs for o in part]


def crash_site(impl):
    kind, fn = crash_kind(impl)
    if kind == "SEGV" and is_null_deref(impl):
        kind = "SEGV-null"
    return kind, fn


def _fails_on_impl(exe, ops, sigclass):
    line = enc_prog(ops)
    impl = run_impl(exe, [line], chunk_timeout=20)[0]
    return any(s.startswith(sigclass) for s, _ in oracle(ops, impl))


def shrink_prog(exe, ops, sig, max_steps=150):
    """Delta-debug the call list: still fails the oracle on the implementation (same class: for a crash the same
    sanitizer error), still well-owned."""
    f = sig.split(":")
    sigclass = ":".join(f[:2]) if f[0] == "crash" else f[0]

    def still(cand):
        try:
            return well_owned(cand) and _fails_on_impl(exe, cand, sigclass)
        except Exception:
            return False
    try:
        return vlib.shrink_list(ops, still, max_steps=max_steps)
    except Exception:
        return ops


PER_SIG = 5          # failures reported per signature
MAX_REPORTS = 30     # ... and in total
MAX_SHRINKS = 6

RULE = ("stanza stream: programs of xmpp_stanza_* calls over <= 16 reference slots, generated under the guidance of a reference "
        "interpreter so that every call is well-owned: random programs (5-40 calls, 3-8 slots); a child that outlives its "
        "parent (held by clone / add_child clone / get_children+get_next+clone; first, middle, last sibling; with "
        "grandchildren; xmlns equal / different / absent / jabber:client) and is then rendered, walked, re-parented (clone / "
        "transfer), copied, mutated, released; transfer vs clone; every release order of every tree shape with <= 5 nodes "
        "(6 sampled); copies of trees with shared handles; reply / reply_error with and without from / to / text, on text "
        "and unnamed nodes, parts of the reply held beyond it; error returns of the setters; depth-50 chain, 200 children; "
        "all well-owned programs of <= 4 (quick) / 6 (thorough) macro steps over 3 slots; OOM: allocfail n for every n "
        "before reply_error / copy / to_text / reply / tree building. non-trivial = program in which an object is shared "
        "(clone, add_child with clone, or child executed)")
ASSUMPTIONS = [
    "stanza stream: a stanza object is a live allocator block of sizeof(xmpp_stanza_t) bytes (strings are kept shorter than 60 bytes)",
    "stanza stream: the user respects the one structural rule of xmpp_stanza_add_child (the child has no parent and is not an ancestor of the new parent); ill-owned programs are outside the quantifier",
    "stanza stream: the oracle's reference interpreter (checks/c12stanza.py: Interp, 'live <=> referenced') and its reader of the rendered text are independent of the Coq model; for an object attached to a live parent both xmlns readings (parent-relative, top-level) are accepted",
    "stanza stream: use-after-free / double free are observed through ASan and the driver's poisoning allocator, i.e. only on paths the programs execute",
]


def run_stanza_stream(chk):
    """Correspondence + oracle over the corpus and the generated programs, then the OOM stream."""
    stats = {"programs": 0, "oom_lines": 0, "crashes": 0, "disagreements": 0, "oracle_failures": 0, "not_well_owned": 0,
             "oom": {}}
    register_known(chk)
    try:
        exe = build_impl_driver()
    except vlib.BuildError as e:
        chk.broken.append({"kind": "build", "name": "c12_driver", "detail": str(e)[:800]})
        return stats
    mexe = None
    try:
        mexe = vlib.build_ocaml_model("C12")
    except vlib.BuildError as e:
        chk.broken.append({"kind": "extract", "name": "Extract_C12", "detail": str(e)[:500]})

    corpus = load_corpus()
    cases = [(l, "corpus") for l in corpus if "allocfail" not in l] + gen_cases(chk)
    progs = []
    genbugs = 0
    for line, kind in cases:
        try:
            ops = dec_prog(line)
        except (ValueError, IndexError):
            chk.broken.append({"kind": "generator", "name": "c12stanza", "detail": "unreadable program: " + line[:200]})
            continue
        # (a corpus line may be deliberately ill-owned: it is then only compared with the model, not judged)
        if kind != "corpus" and not well_owned(ops):
            genbugs += 1
            if genbugs <= 5:
                chk.broken.append({"kind": "generator", "name": "c12stanza",
                                   "detail": "GENERATOR BUG: program is not well-owned: " + line[:300]})
            continue
        progs.append((line, kind, ops))
    # a slice first (corpus + the targeted families): if the library already dies all over it the failing inputs
    # are there, and the bulk - where every death costs a sanitizer report - is skipped
    SMOKE = 400
    impl = run_impl(exe, [p[0] for p in progs[:SMOKE]])
    died = sum(1 for o in impl if o.startswith("CRASH"))
    if len(progs) > SMOKE and died >= SMOKE // 4:
        stats["skipped_after_smoke_run"] = "%d programs not run: the library died on %d of the first %d" % (len(progs) - SMOKE, died, SMOKE)
        progs = progs[:SMOKE]
    else:
        impl += run_impl(exe, [p[0] for p in progs[SMOKE:]])
    lines = [p[0] for p in progs]
    model = vlib.run_parallel(mexe, lines, timeout=900, args=("fixed",)) if mexe else None

    def model_line(line, variant):
        if not mexe:
            return None
        try:
            return vlib.run_lines(mexe, [line], args=(variant,))[0]
        except Exception as e:      # noqa: BLE001
            return "model run failed: %r" % (e,)

    per_sig = {}
    reported = set()
    wo_reports = 0
    shrinks = 0
    for i, (line, kind, ops) in enumerate(progs):
        chk.evaluations += 1
        chk.count(kind)
        stats["programs"] += 1
        if any(o[0] in ("clone", "child") or (o[0] == "addchild" and o[3] == "clone") for o in ops):
            chk.nontrivial.add(line)
        il = impl[i]
        crashed = il is None or il.startswith("CRASH")
        if crashed:
            stats["crashes"] += 1
        wo = kind != "corpus" or well_owned(ops)
        ml = None
        if model is not None:
            mwo, ml = canon_model(model[i])
            chk.traces_validated += 1
            if wo and mwo is not True:
                stats["not_well_owned"] += 1
                if wo_reports < 5:
                    wo_reports += 1
                    chk.broken.append({"kind": "generator", "name": "c12stanza",
                                       "detail": "GENERATOR BUG: the Coq model's well_owned rejects (or cannot read) a program the "
                                                 "Python interpreter accepts: %s -> %s" % (line[:300], str(model[i])[:120])})
            if canon_impl(il) != ml:
                stats["disagreements"] += 1
                if len(chk.disagreements) < 60:
                    chk.disagree("stanza", "PROG " + line, il, ml)
        if i % 397 == 0:
            chk.sample({"input": line[:300], "impl": str(il)[:300], "model": str(ml)[:300]})
        if not wo:
            continue
        fails = oracle(ops, il)
        if not fails:
            continue
        stats["oracle_failures"] += 1
        sig = fails[0][0]
        per_sig[sig] = per_sig.get(sig, 0) + 1
        if per_sig[sig] > PER_SIG or len(reported) >= MAX_REPORTS:
            continue
        small = ops
        if per_sig[sig] <= 2 and shrinks < MAX_SHRINKS:
            shrinks += 1
            small = shrink_prog(exe, ops, sig, max_steps=100)
        sline = enc_prog(small)
        sil = run_impl(exe, [sline], chunk_timeout=20)[0]
        sf = oracle(small, sil)
        if not sf:
            small, sline, sil, sf = ops, line, il, fails
        if sline in reported:
            continue
        reported.add(sline)
        what = "; ".join(t for _, t in sf)[:1200]
        ssig = sf[0][0]
        chk.fail("PROG " + sline, what, stream="stanza",
                 extra={"sig": ssig, "impl": sil, "model_fixed": model_line(sline, "fixed"),
                        "model_unfixed": model_line(sline, "unfixed"), "kind": kind,
                        "unshrunk": line if sline != line else None})
    stats["failure_signatures"] = per_sig

    # ---- OOM stream (implementation only)
    oom = [(l, "corpus-oom") for l in corpus if "allocfail" in l] + gen_oom(chk.tier)
    olines = [l for l, _ in oom]
    # the same programs without the failing allocation are judged first: what fails there is not an OOM finding
    bases = {}
    for l in olines:
        bases.setdefault(enc_prog([o for o in dec_prog(l) if o[0] != "allocfail"]), None)
    blines = list(bases)
    for bl, bi in zip(blines, run_impl(exe, blines, nshards=1)):
        bops = dec_prog(bl)
        bf = oracle(bops, bi) if well_owned(bops) else []
        bases[bl] = bf
        chk.evaluations += 1
        chk.count("oom-base")
        if bf and bl not in reported:
            reported.add(bl)
            sig = bf[0][0]
            chk.fail("PROG " + bl, "; ".join(t for _, t in bf)[:1200], stream="stanza",
                     extra={"sig": sig, "impl": bi, "model_fixed": model_line(bl, "fixed"),
                            "model_unfixed": model_line(bl, "unfixed"), "kind": "oom-base"})
    oimpl = run_impl(exe, olines, nshards=min(vlib.NCPU, max(1, len(olines) // 8)))
    oom_sig = {}
    oom_classes = {"ok": 0, "null-deref": 0, "leak": 0, "lifetime-crash": 0, "allocerr": 0, "other": 0, "base-fails": 0}
    oom_examples = {}
    for (line, kind), il in zip(oom, oimpl):
        chk.evaluations += 1
        chk.count(kind)
        stats["oom_lines"] += 1
        if bases.get(enc_prog([o for o in dec_prog(line) if o[0] != "allocfail"])):
            oom_classes["base-fails"] += 1
            continue
        fails = oracle_oom(il)
        if not fails:
            oom_classes["ok"] += 1
            continue
        sig = fails[0][0]
        if il.startswith("CRASH"):
            cls = "null-deref" if is_null_deref(il) else "lifetime-crash"
            sig = "oom-crash:%s:%s" % crash_site(il)
        elif "ALLOCERR" in il:
            cls = "allocerr"
        elif sig == "oom-leak":
            cls = "leak"
        else:
            cls = "other"
        oom_classes[cls] += 1
        oom_sig[sig] = oom_sig.get(sig, 0) + 1
        oom_examples.setdefault(sig, line)
        # the known classes (NULL dereference, leak) are filtered by chk.fail through the registered predicates
        before = len(chk.failures)
        chk.fail("PROG " + line, "; ".join(t for _, t in fails)[:800] + " [%s]" % sig, stream="stanza-oom",
                 extra={"sig": sig, "impl": il, "kind": kind})
        if len(chk.failures) > before and oom_sig[sig] > PER_SIG:
            chk.failures.pop()
    stats["oom"] = {"classes": oom_classes, "signatures": oom_sig, "examples": oom_examples}
    chk.extra["stanza_stream"] = stats
    return stats


def replay_stanza(line):
    """Re-run one program on the implementation, both model variants and the oracle. 0 = the property holds."""
    line = strip_case(line)
    ops = dec_prog(line)
    exe = build_impl_driver()
    il = run_impl(exe, [line], chunk_timeout=30)[0]
    print("program      : %s" % line)
    print("impl         : %s" % il)
    try:
        mexe = vlib.build_ocaml_model("C12")
        for v in ("fixed", "unfixed"):
            print("model %-7s: %s" % (v, vlib.run_lines(mexe, [line], args=(v,))[0]))
    except vlib.BuildError:
        print("model        : (unavailable)")
    if any(o[0] == "allocfail" for o in ops):
        fails = oracle_oom(il)
    elif not well_owned(ops):
        print("oracle       : the program is not well-owned (outside the property's quantifier)")
        return 0
    else:
        fails = oracle(ops, il)
    for _, t in fails:
        print("property     : FAILS - %s" % t)
    if not fails:
        print("property     : holds on this input")
    return 1 if fails else 0
