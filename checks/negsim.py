"""Shared machinery of the connection-automaton checks (C01, C02, C03, C13).

An abstract scenario (list of ops over the NegModel alphabet) is rendered twice: as a line for the
extracted model driver and as a simworld scenario.  The simworld trace is canonicalised to the
model's token vocabulary and compared (correspondence); the property oracles in C01/C02/C03/C13
work on the canonical implementation trace and the scenario only (they never look at the model).
"""
import os
import re

import vlib

T0 = 1000000   # simworld's virtual clock start

NS = ["streams", "tls", "sasl", "compress", "sm", "bind", "session", "client", "component", "stanzas", "other", "none"]
NSURI = {
    "streams": "http://etherx.jabber.org/streams", "tls": "urn:ietf:params:xml:ns:xmpp-tls",
    "sasl": "urn:ietf:params:xml:ns:xmpp-sasl", "compress": "http://jabber.org/protocol/compress",
    "sm": "urn:xmpp:sm:3", "bind": "urn:ietf:params:xml:ns:xmpp-bind", "session": "urn:ietf:params:xml:ns:xmpp-session",
    "client": "jabber:client", "component": "jabber:component:accept", "stanzas": "urn:ietf:params:xml:ns:xmpp-stanzas",
    "other": "urn:example:other"}
NAMES = ["stream", "error", "features", "proceed", "failure", "success", "challenge", "compressed", "enabled", "resumed",
         "failed", "r", "a", "handshake", "iq", "message", "presence", "other"]
TYPES = ["none", "result", "error", "other"]
IDS = ["none", "bind", "session", "auth", "other"]
IDSTR = {"bind": "_xmpp_bind1", "session": "_xmpp_session1", "auth": "_xmpp_auth1", "other": "x1"}
CAUSES = ["none", "item-not-found", "feature-not-implemented", "other"]
SCRAM = ["SCRAM-SHA-512-PLUS", "SCRAM-SHA-256-PLUS", "SCRAM-SHA-1-PLUS", "SCRAM-SHA-512", "SCRAM-SHA-256", "SCRAM-SHA-1"]
MECHCHAR = {"PLAIN": "p", "DIGEST-MD5": "d", "ANONYMOUS": "a", "EXTERNAL": "x"}
for _i, _n in enumerate(SCRAM):
    MECHCHAR[_n] = str(_i)
STRONG = set(SCRAM) | {"DIGEST-MD5"}
SE_CONDS = ["bad-format", "bad-namespace-prefix", "conflict", "connection-timeout", "host-gone", "host-unknown",
            "improper-addressing", "internal-server-error", "invalid-from", "invalid-id", "invalid-namespace", "invalid-xml",
            "not-authorized", "policy-violation", "remote-connection-failed", "resource-constraint", "restricted-xml",
            "see-other-host", "system-shutdown", "undefined-condition", "unsupported-encoding", "unsupported-stanza-type",
            "unsupported-version", "xml-not-well-formed"]
ERRNO = {"0": 0, "ECONNRESET": 104, "ECONNABORTED": 103, "ETIMEDOUT": 110, "ECONNREFUSED": 111, "EPIPE": 32, "EPROTO": 71,
         "ENOTCONN": 107, "-1": -1}

DIGEST_OK = 'realm="example.com",nonce="OA6MG9tEQGm2hh",qop="auth",charset=utf-8,algorithm=md5-sess'
DIGEST_NONONCE = 'realm="example.com",qop="auth",charset=utf-8,algorithm=md5-sess'
SCRAM_OK = "r=fyko+d2lbbFgONRv9qkxdawL3rfcNHYJY1ZVvWVs7j,s=QSXCR+Q6sek8bf92,i=64"
SCRAM_BAD = "r=abc,i=64"


def b64(s):
    import base64
    return base64.b64encode(s.encode()).decode()


def H(s):
    return s.encode().hex() if s else "-"


class Elem:
    """An abstract top-level element with its concrete XML."""

    def __init__(self, ns="client", name="message", typ="none", eid="none", childns=(), xml="", **kw):
        self.ns, self.name, self.typ, self.eid, self.childns, self.xml = ns, name, typ, eid, list(childns), xml
        self.f = dict(starttls=0, mechs=[], zlib=0, bind=0, session=0, session_opt=0, sm=0, ch_text=0, ch_ok=0, ch_scram_ok=0, jid=0,
                      sm_resume=0, sm_id=0, previd=0, previd_ok=0, h=-1, cause="none", cond=-1, text=0)
        self.f.update(kw)
        self.kind = kw.get("kind", name)

    def tok(self):
        f = self.f
        cn = "".join("%x" % NS.index(c) for c in self.childns) or "-"
        ms = "".join(MECHCHAR[m] for m in f["mechs"] if m in MECHCHAR) or "-"
        fields = [NS.index(self.ns), NAMES.index(self.name), TYPES.index(self.typ), IDS.index(self.eid), cn,
                  f["starttls"], ms, f["zlib"], f["bind"], f["session"], f["session_opt"], f["sm"], f["ch_text"], f["ch_ok"], f["ch_scram_ok"],
                  f["jid"], f["sm_resume"], f["sm_id"], f["previd"], f["previd_ok"], f["h"], CAUSES.index(f["cause"]),
                  f["cond"], f["text"]]
        return "e=" + "/".join(str(int(x)) if isinstance(x, bool) else str(x) for x in fields)


def features(starttls=False, mechs=(), zlib=False, bind=False, session=None, sm=False, extra_mech_names=(), tls_required=False,
             empty_mech_at=None, methods=None):
    inner, cns = "", []
    if starttls:
        # (<required/> is only in the bytes: the library, and therefore the model, does not look at it)
        inner += ("<starttls xmlns='%s'><required/></starttls>" % NSURI["tls"]) if tls_required else ("<starttls xmlns='%s'/>" % NSURI["tls"])
        cns.append("tls")
    if mechs or extra_mech_names:
        ml = ["<mechanism>%s</mechanism>" % m for m in list(mechs) + list(extra_mech_names)]
        if empty_mech_at is not None:
            # (an empty <mechanism/> is only in the bytes: the library skips it, the model never sees it)
            ml.insert(min(empty_mech_at, len(ml)), "<mechanism/>" if empty_mech_at % 2 == 0 else "<mechanism></mechanism>")
        inner += "<mechanisms xmlns='%s'>%s</mechanisms>" % (NSURI["sasl"], "".join(ml))
        cns.append("sasl")
    if zlib or methods:
        # (methods other than zlib are only in the bytes: the model's `zlib` flag says whether zlib is among them)
        ms = list(methods) if methods is not None else ["zlib"]
        if zlib and "zlib" not in ms:
            ms.append("zlib")
        inner += "<compression xmlns='http://jabber.org/features/compress'>%s</compression>" % "".join("<method>%s</method>" % m for m in ms)
        cns.append("other")
    if bind:
        inner += "<bind xmlns='%s'/>" % NSURI["bind"]
        cns.append("bind")
    if session:
        inner += "<session xmlns='%s'>%s</session>" % (NSURI["session"], "<optional/>" if session == "opt" else "")
        cns.append("session")
    if sm:
        inner += "<sm xmlns='%s'/>" % NSURI["sm"]
        cns.append("sm")
    return Elem("streams", "features", childns=cns, xml="<stream:features>%s</stream:features>" % inner,
                starttls=int(starttls), mechs=list(mechs), zlib=int(zlib), bind=int(bind), session=int(bool(session)),
                session_opt=int(session == "opt"), sm=int(sm), kind="features")


def simple(ns, name, **kw):
    return Elem(ns, name, xml="<%s xmlns='%s'/>" % (name if name != "other" else "foo", NSURI[ns]), **kw)


def challenge(kind):
    if kind == "digest_ok":
        return Elem("sasl", "challenge", xml="<challenge xmlns='%s'>%s</challenge>" % (NSURI["sasl"], b64(DIGEST_OK)), ch_text=1, ch_ok=1, kind="challenge")
    if kind == "digest_nononce":
        return Elem("sasl", "challenge", xml="<challenge xmlns='%s'>%s</challenge>" % (NSURI["sasl"], b64(DIGEST_NONONCE)), ch_text=1, ch_ok=0, kind="challenge")
    if kind == "scram_ok":
        return Elem("sasl", "challenge", xml="<challenge xmlns='%s'>%s</challenge>" % (NSURI["sasl"], b64(SCRAM_OK)), ch_text=1, ch_ok=0, ch_scram_ok=1, kind="challenge")
    if kind == "scram_bad":
        return Elem("sasl", "challenge", xml="<challenge xmlns='%s'>%s</challenge>" % (NSURI["sasl"], b64(SCRAM_BAD)), ch_text=1, ch_ok=0, kind="challenge")
    if kind == "notb64":
        return Elem("sasl", "challenge", xml="<challenge xmlns='%s'>!!!</challenge>" % NSURI["sasl"], ch_text=1, ch_ok=0, kind="challenge")
    return Elem("sasl", "challenge", xml="<challenge xmlns='%s'/>" % NSURI["sasl"], ch_text=0, ch_ok=0, kind="challenge")


def iq(eid, typ, payload=None, name="iq", extra_child_ns=None):
    attrs = ""
    if typ != "none":
        attrs += " type='%s'" % ("get" if typ == "other" else typ)
    if eid != "none":
        attrs += " id='%s'" % IDSTR[eid]
    inner, cns, jid = "", [], 0
    if payload == "bindjid":
        inner = "<bind xmlns='%s'><jid>user@example.com/res</jid></bind>" % NSURI["bind"]
        cns, jid = ["bind"], 1
    elif payload == "bind":
        inner = "<bind xmlns='%s'/>" % NSURI["bind"]
        cns = ["bind"]
    if extra_child_ns:
        inner += "<x xmlns='%s'/>" % NSURI[extra_child_ns]
        cns.append(extra_child_ns)
    tag = name if name in ("iq", "message", "presence") else "foo"
    return Elem("client", name, typ, eid, cns, "<%s%s>%s</%s>" % (tag, attrs, inner, tag), jid=jid, kind="iq:%s:%s" % (eid, typ))


def sm_elem(name, resume=False, smid=False, previd=None, h=None, cause="none"):
    attrs = ""
    f = {}
    if name == "enabled":
        if resume:
            attrs += " resume='true'"
        if smid:
            attrs += " id='SMID'"
        f = dict(sm_resume=int(resume), sm_id=int(smid))
    if previd is not None:
        attrs += " previd='%s'" % ("SMID" if previd else "WRONG")
        f["previd"], f["previd_ok"] = 1, int(previd)
    if h is not None:
        attrs += " h='%s'" % ("zz" if h == "bad" else h)
        f["h"] = -2 if h == "bad" else int(h)
    inner, cns = "", []
    if cause != "none":
        cname = cause if cause != "other" else "bad-request"
        inner = "<%s xmlns='%s'/>" % (cname, NSURI["stanzas"])
        cns = ["stanzas"]
    e = Elem("sm", name, childns=cns, xml="<%s xmlns='%s'%s>%s</%s>" % (name, NSURI["sm"], attrs, inner, name), cause=cause, kind="sm:" + name, **f)
    return e


def stream_error(cond=None, text=False, empty=False, text_first=False):
    inner, cns, c = "", [], 19
    if not empty:
        cpart = tpart = ""
        if cond is not None:
            cpart = "<%s xmlns='urn:ietf:params:xml:ns:xmpp-streams'/>" % SE_CONDS[cond]
            c = cond
            cns.append("other")
        if text:
            tpart = "<text xmlns='urn:ietf:params:xml:ns:xmpp-streams'>bye</text>"
            cns.append("other")
        # (the order of condition and text is only in the bytes: the library accepts both orders, the model has no order)
        inner = (tpart + cpart) if text_first else (cpart + tpart)
    return Elem("streams", "error", childns=cns, xml="<stream:error>%s</stream:error>" % inner, cond=c, text=int(text and not empty), kind="serr")


HEADER_XML = ("<stream:stream xmlns='jabber:client' xmlns:stream='http://etherx.jabber.org/streams' "
              "%sfrom='example.com' version='1.0'>")
CHEADER_XML = ("<stream:stream xmlns='jabber:component:accept' xmlns:stream='http://etherx.jabber.org/streams' "
               "%sfrom='comp.example.com'>")


class Scenario:
    """ops: tuples. ('flags',w) ('jid',node,res) ('pass',b) ('cert',b) ('user',stanza,period|None)
    ('env',tlsnew,cb,[verdicts]) ('connect',kind,[eps]) ('run',rd) with rd = None | ('items',[...]) | 'close' | 'reset'
    ('clock',ms) ('disc',) ('send',) ('sendraw',) ('is',) ('openstream',) ('release',)"""

    def __init__(self, ops, label=""):
        self.ops = ops
        self.label = label
        self.component = any(o[0] == "connect" and o[1] == "component" for o in ops)

    def model_line(self):
        now = T0
        out = []
        for o in self.ops:
            k = o[0]
            if k == "flags":
                out.append("F%d" % o[1])
            elif k == "jid":
                out.append("J%d%d" % (o[1], min(o[2], 1)))
            elif k == "pass":
                out.append("P%d" % o[1])
            elif k == "cert":
                out.append("K%d" % (1 if o[1] else 0))
            elif k == "user":
                out.append("U%d:%d:%s" % (o[1], now, "-" if o[2] is None else o[2]))
            elif k == "env":
                out.append("V%d%d:%s" % (o[1], o[2], "".join(str(int(v)) for v in o[3]) or "-"))
            elif k == "connect":
                out.append("A:%s" % ("".join(e[0] for e in o[2]) or "-"))
                out.append({"client": "Cc", "raw": "Cr", "component": "Cm"}[o[1]] + ":%d" % now)
            elif k == "clock":
                now += o[1]
            elif k == "run":
                rd = o[1]
                if rd is None:
                    out.append("R:%d:n" % now)
                elif rd == "close":
                    out.append("R:%d:c" % now)
                elif rd == "reset":
                    out.append("R:%d:x" % now)
                else:
                    out.append("R:%d:i:%s" % (now, ",".join(item_tok(i) for i in rd[1])))
            elif k == "disc":
                out.append("D:%d" % now)
            elif k in ("send", "sendst"):
                out.append("S")
            elif k == "sendraw":
                out.append("Sr")
            elif k == "is":
                out.append("Q")
            elif k == "openstream":
                out.append("O")
            elif k == "release":
                out.append("L")
        return " ".join(out)

    def sim_line(self):
        cmds = ["conn", "log"]
        comp = self.component
        for o in self.ops:
            k = o[0]
            if k == "flags":
                cmds.append("flags %d" % o[1])
            elif k == "jid":
                if comp:
                    j = "comp.example.com"
                else:
                    j = ("user@" if o[1] else "") + "example.com" + ("/" + RES_SLASH if o[2] == 2 else "/res" if o[2] else "")
                cmds.append("jid " + H(j))
            elif k == "pass":
                if o[1]:
                    cmds.append("pass " + H("secret"))
            elif k == "cert":
                if o[1]:
                    cmds.append("cert p12" if o[1] == 2 else "cert")
                    cmds.append("xaddr " + H("user@example.com"))
            elif k == "user":
                if o[1]:
                    # the user's stanza handler and the user's id handler (for the id "x1" = IdOther) go together
                    cmds += ["hdef 0 s - - - 1", "hadd 0", "hdef 2 i %s 1" % IDSTR["other"], "hadd 2"]
                if o[2] is not None:
                    cmds += ["hdef 1 t %d 1" % o[2], "hadd 1"]
            elif k == "userid":
                pass   # (historic op: the id handler is now registered by ('user', 1, ...))
            elif k == "env":
                if not o[1]:
                    cmds.append("tlsnew fail")
                if o[2]:
                    cmds.append("cb %s %s" % (H("tls-exporter"), "00112233445566778899aabbccddeeff00112233445566778899aabbccddeeff"))
                for v in o[3]:
                    cmds.append("tls " + ("ok" if v else "fail"))
            elif k == "connect":
                cmds.append("gai %s %d" % (H("localhost" if comp else "example.com"), len(o[2])))
                if o[2]:
                    cmds.append("ep " + ",".join(o[2]))
                if o[1] == "component":
                    cmds.append("connect component %s 5347" % H("localhost"))
                else:
                    cmds.append("connect %s" % o[1])
            elif k == "clock":
                cmds.append("clock %d" % o[1])
            elif k == "run":
                rd = o[1]
                if rd == "close":
                    cmds.append("rxclose")
                elif rd == "reset":
                    cmds.append("rxreset")
                elif rd is not None:
                    cmds.append("rx " + H("".join(item_xml(i, comp) for i in rd[1])))
                cmds.append("run")
            elif k == "disc":
                cmds.append("disc")
            elif k == "send":
                cmds.append("send " + H("<message id='u'/>"))
            elif k == "sendraw":
                cmds.append("sendraw " + H("<message id='w'/>"))
            elif k == "sendst":
                cmds.append("sendst " + H("<message id='u'/>"))
            elif k == "starttls":
                cmds.append("starttls")
            elif k == "is":
                cmds.append("is")
            elif k == "openstream":
                cmds.append("openstream")
            elif k == "release":
                cmds.append("release")
        return ";".join(cmds)


def item_tok(i):
    if i == "h1" or i == "h0" or i == "z" or i == "g":
        return i
    return i.tok()


def item_xml(i, comp=False):
    hx = CHEADER_XML if comp else HEADER_XML
    if i == "h1":
        return hx % "id='s1' "
    if i == "h0":
        return hx % ""
    if i == "z":
        return "</stream:stream>"
    if i == "g":
        return "<<"
    return i.xml


# --------------------------------------------------------------------------------------------------
# canonicalisation of the simworld trace
# --------------------------------------------------------------------------------------------------
def split_toplevel(text):
    """Split the client's byte stream into top-level items (header, close, complete elements)."""
    items = []
    i, n = 0, len(text)
    while i < n:
        if text.startswith("<?xml", i):
            j = text.find("?>", i)
            if j < 0:
                items.append(("partial", text[i:]))
                break
            i = j + 2
            continue
        if text.startswith("</stream:stream>", i):
            items.append(("close", ""))
            i += len("</stream:stream>")
            continue
        if text[i] != "<":
            j = text.find("<", i)
            j = n if j < 0 else j
            items.append(("text", text[i:j]))
            i = j
            continue
        if text.startswith("<stream:stream", i):
            j = tag_end(text, i)
            if j < 0:
                items.append(("partial", text[i:]))
                break
            items.append(("header", text[i:j + 1]))
            i = j + 1
            continue
        # a complete element
        depth = 0
        j = i
        ok = False
        while j < n:
            if text[j] == "<":
                e = tag_end(text, j)
                if e < 0:
                    break
                tag = text[j:e + 1]
                if tag.startswith("</"):
                    depth -= 1
                elif tag.endswith("/>"):
                    pass
                else:
                    depth += 1
                j = e + 1
                if depth == 0:
                    ok = True
                    break
            else:
                j += 1
        if not ok:
            items.append(("partial", text[i:]))
            break
        items.append(("elem", text[i:j]))
        i = j
    return items


def tag_end(text, i):
    q = None
    j = i + 1
    while j < len(text):
        c = text[j]
        if q:
            if c == q:
                q = None
        elif c in "\"'":
            q = c
        elif c == ">":
            return j
        j += 1
    return -1


def classify(kind, xml, res_text="res"):
    if kind == "header":
        # the scenarios configure example.com (client, user@example.com[/res]) or comp.example.com (component)
        to = re.search(r'\sto="([^"]*)"', xml)
        if not to or to.group(1) not in ("example.com", "comp.example.com"):
            return "hdr!to(%s)" % (to.group(1) if to else "-")
        fr = re.search(r'\sfrom="([^"]*)"', xml)
        if fr and fr.group(1) != "user@example.com":
            return "hdr!from(%s)" % fr.group(1)
        return "hdr+from" if fr else "hdr"
    if kind == "close":
        return "close"
    if kind != "elem":
        return "junk(%s)" % kind
    m = re.match(r"<([\w:]+)", xml)
    name = m.group(1) if m else "?"
    head = xml[:xml.find(">") + 1]
    if name == "starttls":
        return "starttls"
    if name == "auth":
        mm = re.search(r'mechanism="([^"]+)"', head)
        return "auth=" + (mm.group(1) if mm else "?")
    if name == "response":
        return "response"
    if name == "compress":
        return "compress"
    if name == "iq":
        if '_xmpp_bind1' in head:
            if "<resource>" in xml and ("<resource>%s</resource>" % res_text) not in xml:
                return "bind!res"
            return "bind+res" if "<resource>" in xml else "bind"
        if '_xmpp_session1' in head:
            return "session"
        if '_xmpp_auth1' in head:
            return "legacy"
        return "iq?"
    if name == "enable":
        return "enable+resume" if "resume=" in head else "enable"
    if name == "resume":
        return "resume"
    if name in ("a", "r") and "urn:xmpp:sm:3" in head:
        return name
    if name == "handshake":
        return "handshake"
    if name == "stream:error":
        return "serr"
    if name == "message":
        if "id='u'" in head or 'id="u"' in head:
            return "user"
        if "id='w'" in head:
            return "userraw"
    return "other(%s)" % name


RES_SLASH = "res/x"          # resource of the configuration ("jid", node, 2): everything after the FIRST slash


def res_text_of(sim):
    return RES_SLASH if H("/" + RES_SLASH) in sim else "res"


def canon_trace(line, res_text="res"):
    """-> (tokens, info) ; info: {'end':..., 'anomalies':[...], 'connect_is':[...], ...}"""
    toks = []
    info = {"anomalies": [], "end": None, "crash": None, "events": []}
    if line.startswith("CRASH"):
        info["crash"] = line
        return ["CRASH"], info
    parts = line.split(" ")
    i = 0
    while i < len(parts):
        p = parts[i]
        i += 1
        if not p:
            continue
        m = re.match(r"^([WT])\d+:([0-9a-f]+|-)$", p)
        if m:
            data = bytes.fromhex(m.group(2)).decode("latin1") if m.group(2) != "-" else ""
            for kind, xml in split_toplevel(data):
                toks.append("%s:%s" % (m.group(1), classify(kind, xml, res_text)))
            continue
        if p == "|":
            toks.append("|")
        elif p.startswith("R=") or p.startswith("F=") or p.startswith("S="):
            toks.append(p)
        elif p.startswith("TLS:"):
            toks.append(p)
        elif re.match(r"^X\d+$", p):
            toks.append("X")
        elif re.match(r"^E\d+:connect", p):
            toks.append("E:connect")
            mm = re.search(r"is=(\d+),sec=(\d)", p)
            info["events"].append(("connect", mm.group(1) if mm else "?", mm.group(2) if mm else "?"))
        elif re.match(r"^E\d+:raw_connect", p):
            toks.append("E:raw_connect")
        elif re.match(r"^E\d+:disconnect", p):
            mm = re.match(r"^E\d+:disconnect\(err=([\w-]+),is=(\d+)(?:,se=(\d+),text=(\w+))?\)", p)
            err = mm.group(1)
            e = ERRNO.get(err, int(err[1:]) if err.startswith("E") and err[1:].isdigit() else 9999)
            se = ""
            if mm.group(3) is not None:
                se = ",se=%s,%d" % (mm.group(3), 0 if mm.group(4) == "null" else 1)
            toks.append("E:disconnect(%d%s)" % (e, se))
            info["events"].append(("disconnect", mm.group(2)))
        elif re.match(r"^H0@", p):
            toks.append("H:user")
        elif re.match(r"^H1@", p):
            toks.append("H:timed")
        elif re.match(r"^H2@", p):
            toks.append("H:user")      # the user's id handler: the model's OUserHandler as well
        elif p == "END":
            info["end"] = " ".join(parts[i:])
            break
        elif re.match(r"^(Q:|G:|C\d+:|SM\d+:|O=|ST=|REL=|GETSM|SETSM|RESTORE|B=)", p):
            pass
        elif p == "NOFD":
            pass   # data offered while the connection has no socket
        elif re.match(r"^(CLOSEERR|SENDERR|RECVERR|ALLOCERR|ZERR|NOCONN|BADCMD|SENDST)", p):
            info["anomalies"].append(p)
        else:
            info["anomalies"].append("unknown-token:" + p)
    return toks, info


# --------------------------------------------------------------------------------------------------
# running
# --------------------------------------------------------------------------------------------------
def run_scenarios(chk, pid, scenarios, stream="neg"):
    """Runs model and implementation; records correspondence disagreements in chk.
    Returns list of (scenario, impl_tokens, info, model_tokens)."""
    exe = vlib.build_simworld()
    sim_lines = [s.sim_line() for s in scenarios]
    impl = vlib.run_parallel(exe, sim_lines, timeout=40, per_case_timeout=8)
    model = None
    try:
        mexe = vlib.build_ocaml_model(pid)
        model = vlib.run_parallel(mexe, [s.model_line() for s in scenarios])
    except vlib.BuildError as e:
        chk.broken.append({"kind": "extract", "name": "Extract_%s" % pid, "detail": str(e)[:500]})
    res = []
    for i, sc in enumerate(scenarios):
        toks, info = canon_trace(impl[i], res_text_of(sim_lines[i]))
        mt = model[i].split(" ") if model is not None else None
        if getattr(sc, "impl_only", False):
            mt = None
        if mt is not None:
            mt = [t for t in mt if t]
            if mt and mt[-1].startswith("CHK="):
                info["model_checks"] = mt[-1][4:]
                mt = mt[:-1]
            chk.traces_validated += 1
            if mt != toks:
                chk.disagree(stream, {"label": sc.label, "sim": sim_lines[i], "model_in": sc.model_line()}, " ".join(toks), " ".join(mt))
        res.append((sc, toks, info, mt))
    return res


# --------------------------------------------------------------------------------------------------
# scenario generation
# --------------------------------------------------------------------------------------------------
ALL_MECHS = ["PLAIN", "DIGEST-MD5", "ANONYMOUS", "EXTERNAL"] + SCRAM
FLAG_SETS = [0, 0, 0, 1, 2, 2, 4, 8, 16, 32, 64, 64 + 128, 2 + 8, 16 + 1, 2 + 64, 32 + 16, 4 + 2, 1 + 32 + 64]
DEADLINE_DELTAS = [1, 10, 1999, 2000, 2001, 4999, 5000, 5001, 14999, 15000, 15001, 30000]


def client_choice(cfg, offered, secured):
    """Which mechanism a conforming client would pick (used only to steer generation)."""
    anon = not cfg["node"]
    if anon and "ANONYMOUS" in offered:
        return "ANONYMOUS"
    if "EXTERNAL" in offered and cfg["cert"]:
        return "EXTERNAL"
    if anon or not cfg["pass"]:
        return None
    for m in SCRAM:
        if m in offered:
            return m
    if "DIGEST-MD5" in offered:
        return "DIGEST-MD5"
    if "PLAIN" in offered:
        return "PLAIN"
    return None


def random_elem(rng):
    """Any element of the abstract alphabet (used for deviations)."""
    k = rng.randrange(30)
    if k < 5:
        return features(rng.random() < .5, rng.sample(ALL_MECHS, rng.randrange(0, 4)), rng.random() < .3, rng.random() < .5,
                        rng.choice([None, "req", "opt"]), rng.random() < .4)
    if k == 5:
        return simple("tls", "proceed")
    if k == 6:
        return simple("tls", "failure")
    if k == 7:
        return simple("sasl", "success")
    if k == 8:
        return simple("sasl", "failure")
    if k == 9:
        return challenge(rng.choice(["digest_ok", "digest_nononce", "scram_ok", "scram_bad", "notb64", "empty"]))
    if k == 10:
        return simple("compress", "compressed")
    if k == 11:
        return simple("compress", "failure")
    if k < 15:
        return iq(rng.choice(IDS), rng.choice(TYPES), rng.choice([None, "bindjid", "bind"]),
                  name=rng.choice(["iq", "iq", "message", "presence"]), extra_child_ns=rng.choice([None, None, "sm", "sasl", "tls", "streams", "compress"]))
    if k == 15:
        return sm_elem("enabled", rng.random() < .6, rng.random() < .7)
    if k == 16:
        return sm_elem("resumed", previd=rng.choice([None, True, False]), h=rng.choice([None, 0, 1, 2, 5, "bad"]))
    if k == 17:
        return sm_elem("failed", cause=rng.choice(CAUSES), h=rng.choice([None, 0, 1, 3, "bad"]))
    if k == 18:
        return sm_elem("r")
    if k == 19:
        return sm_elem("a", h=rng.choice([None, 0, 1, 2, 3, 7, "bad"]))
    if k == 20:
        return simple("sm", "other")
    if k == 21:
        return Elem("component", "handshake", xml="<handshake xmlns='jabber:component:accept'/>")
    if k == 22:
        return Elem("client", "handshake", xml="<handshake xmlns='jabber:client'/>")
    if k < 26:
        return stream_error(rng.choice([None, 2, 12, 18]), rng.random() < .5, rng.random() < .25, text_first=rng.random() < .4)
    if k == 26:
        return simple("sasl", "other")
    if k == 27:
        return simple("other", "other")
    return iq("none", "none", name=rng.choice(["message", "presence"]))


def server_script(rng, cfg, comp=False, raw=False):
    """A conforming server script (list of items) for the configuration, to be perturbed afterwards."""
    steps = []
    if comp:
        steps += [["h1"], [Elem("component", "handshake", xml="<handshake xmlns='jabber:component:accept'/>")]]
        return steps
    if raw:
        return [["h1"]]
    secured = bool(cfg["flags"] & 4)
    offer_tls = not (cfg["flags"] & 1) and rng.random() < .8 and not secured
    mechs = rng.sample(ALL_MECHS, rng.randrange(1, 5)) if rng.random() < .85 else []
    if rng.random() < .4 and "PLAIN" not in mechs:
        mechs.append("PLAIN")
    steps.append(["h1"])
    steps.append([features(offer_tls, mechs, tls_required=offer_tls and rng.random() < .3,
                           empty_mech_at=rng.randrange(4) if (mechs and rng.random() < .25) else None)])
    if offer_tls and cfg["tlsnew"]:
        steps.append([simple("tls", "proceed")])
        steps.append(["h1"])
        if rng.random() < .3:
            mechs = rng.sample(ALL_MECHS, rng.randrange(1, 5))
        steps.append([features(False, mechs)])
        secured = True
    offered = list(mechs)
    tried = 0
    while True:
        m = client_choice(cfg, offered, secured)
        if m is None or tried > 4:
            break
        tried += 1
        offered = [x for x in offered if x != m]
        if m != "PLAIN" and m != "ANONYMOUS":
            offered = [x for x in offered if x != "PLAIN"]
        fail = rng.random() < .3
        if m.startswith("SCRAM"):
            steps.append([challenge("scram_ok")])
        elif m == "DIGEST-MD5":
            steps.append([challenge("digest_ok")])
            steps.append([challenge("digest_ok")])
        if fail:
            steps.append([simple("sasl", "failure")])
            continue
        steps.append([simple("sasl", "success")])
        steps.append(["h1"])
        if cfg["flags"] & 64 and rng.random() < .7:
            steps.append([features(zlib=True, bind=True, methods=rng.choice([None, None, ["lzw", "zlib"], ["zlib", "bzip2"]]))])
            steps.append([simple("compress", "compressed")])
            steps.append(["h1"])
        sess = rng.choice([None, None, "req", "opt"])
        sm = rng.random() < .6
        steps.append([features(bind=rng.random() < .9, session=sess, sm=sm)])
        steps.append([iq("bind", "result", "bindjid")])
        if sess == "req":
            steps.append([iq("session", "result")])
        if sm and not (cfg["flags"] & 32):
            steps.append([sm_elem("enabled", rng.random() < .7, rng.random() < .9)])
        break
    return steps


def gen_scenario(rng, profile="mixed"):
    flags = rng.choice(FLAG_SETS) if rng.random() < .9 else rng.randrange(256)
    kind = rng.choice(["client"] * 7 + ["component", "component", "raw"])
    cfg = dict(flags=flags, node=rng.random() < .85, res=rng.random() < .7, **{"pass": rng.random() < .9}, cert=rng.random() < .15,
               tlsnew=rng.random() < .92)
    if kind == "component":
        cfg["pass"] = rng.random() < .95
    ops = []
    if rng.random() < .9:
        ops.append(("flags", flags))
    else:
        cfg["flags"] = 0
    if rng.random() < .97:
        ops.append(("jid", int(cfg["node"]), int(cfg["res"])))
    ops.append(("pass", int(cfg["pass"])))
    if cfg["cert"]:
        ops.append(("cert", 1))
    ops.append(("user", int(rng.random() < .7), rng.choice([None, 1000, 15000, 100])))
    verdicts = [rng.random() < .8 for _ in range(rng.randrange(0, 3))]
    neps = rng.choice([1, 1, 1, 2, 3])
    eps = [rng.choice(["accept", "accept", "accept", "refuse", "late", "hang"]) for _ in range(neps)]
    ops.append(("env", int(cfg["tlsnew"]), int(rng.random() < .5), verdicts))
    ncycles = rng.choice([1, 1, 1, 2, 3])
    for cyc in range(ncycles):
        if cyc > 0 and rng.random() < .3:
            newf = rng.choice(FLAG_SETS)
            ops.append(("flags", newf))
        ops.append(("connect", kind, eps if cyc == 0 else [rng.choice(["accept", "accept", "refuse", "late", "hang"]) for _ in range(rng.choice([1, 1, 2]))]))
        ops.append(("run", None))
        if rng.random() < .3:
            ops.append(("is",))
        steps = server_script(rng, cfg, kind == "component", kind == "raw")
        if kind == "raw" and rng.random() < .8 and any(o[0] == "jid" for o in ops):
            # (xmpp_conn_open_stream_default() on an object that never connected builds the tag from a NULL
            #  domain; user misuse outside the properties, see DESIGN.md)
            ops.append(("openstream",))
            ops.append(("run", None))
        # perturb
        r = rng.random()
        if r < .55 and steps:
            npert = rng.choice([1, 1, 2, 3])
            for _ in range(npert):
                pos = rng.randrange(len(steps) + 1)
                act = rng.randrange(6)
                if act == 0 and pos < len(steps):
                    steps[pos] = [random_elem(rng)]
                elif act == 1 and pos < len(steps):
                    del steps[pos]
                elif act == 2 and pos < len(steps) and isinstance(steps[pos], list):
                    steps.insert(pos, list(steps[pos]))
                elif act == 3:
                    steps.insert(pos, [random_elem(rng)])
                elif act == 4:
                    steps.insert(pos, [rng.choice(["z", "g", "h1", "h0"])])
                else:
                    steps.insert(pos, rng.choice(["close", "reset", "silence", "userop"]))
        # trailing traffic
        for _ in range(rng.randrange(0, 4)):
            steps.append([random_elem(rng)] if rng.random() < .6 else rng.choice(["userop", "silence", ["z"], "close"]))
        # merge some adjacent steps into one chunk
        merged = []
        for st_ in steps:
            if isinstance(st_, list) and merged and isinstance(merged[-1], list) and rng.random() < .25:
                merged[-1] = merged[-1] + st_
            else:
                merged.append(st_)
        for st_ in merged:
            if st_ == "close" or st_ == "reset":
                ops.append(("run", st_))
            elif st_ == "silence":
                ops.append(("clock", rng.choice(DEADLINE_DELTAS)))
                ops.append(("run", None))
                if rng.random() < .5:
                    ops.append(("clock", rng.choice(DEADLINE_DELTAS)))
                    ops.append(("run", None))
            elif st_ == "userop":
                ops.append(rng.choice([("disc",), ("send",), ("sendraw",), ("is",), ("flags", rng.choice(FLAG_SETS)), ("connect", kind, ["accept"]), ("send",), ("sendst",)]))
                ops.append(("run", None))
            else:
                ops.append(("run", ("items", st_)))
                if rng.random() < .8:
                    ops.append(("run", None))
                if rng.random() < .1:
                    ops.append(("clock", rng.choice(DEADLINE_DELTAS)))
            if rng.random() < .08:
                ops.append(("is",))
        ops.append(("is",))
        # end of cycle: make sure the attempt ends
        end = rng.randrange(4)
        if end == 0:
            ops += [("disc",), ("run", None), ("clock", 2000), ("run", None), ("run", None)]
        elif end == 1:
            ops += [("run", "close"), ("run", None)]
        elif end == 2:
            ops += [("run", ("items", ["z"])), ("run", None)]
        else:
            ops += [("run", "reset"), ("run", None)]
        ops.append(("is",))
    ops.append(("release",))
    return Scenario(ops, "gen")


# --------------------------------------------------------------------------------------------------
# property oracles on the implementation trace (independent of the model)
# --------------------------------------------------------------------------------------------------
def split_by_op(sc, toks):
    """Align the canonical trace with the scenario's ops -> list of (op, [tokens])."""
    res = []
    i = 0
    n = len(toks)
    for o in sc.ops:
        k = o[0]
        seg = []
        if k == "flags":
            if i < n and toks[i].startswith("F="):
                seg.append(toks[i]); i += 1
        elif k == "connect":
            while i < n and toks[i] == "X":
                seg.append(toks[i]); i += 1
            if i < n and toks[i].startswith("R="):
                seg.append(toks[i]); i += 1
        elif k == "run":
            while i < n:
                seg.append(toks[i]); i += 1
                if seg[-1] == "|":
                    break
        elif k == "is":
            if i < n and toks[i].startswith("S="):
                seg.append(toks[i]); i += 1
        elif k == "release":
            seg = toks[i:]
            i = n
        res.append((o, seg))
    return res, toks[i:]


class Observer:
    """Replays scenario + implementation trace and records, per connection attempt, what an outside
    observer knows: configuration in force, offers received, notifications, wire elements."""

    def __init__(self, sc, toks):
        self.viol = {"C01": [], "C02": [], "C03": [], "C13": []}
        self.sc = sc
        segs, rest = split_by_op(sc, toks)
        if rest:
            self.viol["C01"].append("trace has tokens no operation accounts for: %s" % " ".join(rest[:6]))
        flags = 0
        cfg = dict(node=0, res=0, cert=0, legacy=0)
        att = None     # current attempt
        kind = None
        for o, seg in segs:
            k = o[0]
            if k == "jid" and att is None:
                cfg["node"], cfg["res"] = o[1], o[2]
                cfg["jid"] = 1
            elif k == "cert" and att is None:
                cfg["cert"] = o[1]
            elif k == "flags":
                m = re.match(r"F=(-?\d+)/(\d+)", seg[0]) if seg else None
                if not m:
                    self.viol["C13"].append("set_flags produced no result")
                    continue
                rc, rb = int(m.group(1)), int(m.group(2))
                w = o[1]
                conflict = (w & 1) and (w & (2 | 4 | 8))
                if att is not None and att["alive"]:
                    if rc == 0 or rb != flags:
                        self.viol["C13"].append("set_flags(%d) while not disconnected: rc=%d readback=%d (was %d)" % (w, rc, rb, flags))
                else:
                    if rc == 0 and rb != w:
                        self.viol["C13"].append("set_flags(%d) accepted but reads back %d" % (w, rb))
                    if (rc == 0) != (not conflict and 0 <= w < 256):
                        self.viol["C13"].append("set_flags(%d): rc=%d but conflict=%s" % (w, rc, bool(conflict)))
                # what the user configured is the accepted word itself (the readback is judged above, not believed)
                if rc == 0 and not (att is not None and att["alive"]):
                    flags = w
            elif k == "connect":
                rc = None
                for t in seg:
                    if t.startswith("R="):
                        rc = int(t[2:])
                if att is not None and att["alive"]:
                    if rc == 0:
                        self.viol["C13"].append("connect accepted while an attempt is in progress")
                    continue
                if rc == 0:
                    if o[1] == "component":
                        flags |= 1
                    kind = o[1]
                    att = dict(kind=o[1], flags=flags, alive=True, connects=0, disconnects=0, rawc=False, cfg=dict(cfg),
                               offers=dict(tls=False, mechs=set(), zlib=False, bind=False, session=False, sm=False),
                               strong=False, feat_seen=False, depth=0, nest=0, dead=False, reading=False, queue=[],
                               success=False, bound=False, resumed=False, legacy_ok=False, hs=False, hdr_rx=False,
                               serr=None, n=len(getattr(self, "attempts", [])))
                    self.attempts = getattr(self, "attempts", []) + [att]
                    if o[1] == "raw":
                        self.rawsticky = True
                    if getattr(self, "rawsticky", False):
                        att["kind"] = "raw"
            elif k == "run":
                if att is None:
                    continue
                self._run(att, o, seg)
            elif k == "is":
                self._is(att, seg)
            elif k == "release":
                if att is not None:
                    self._tokens(att, seg, [])
        for a in getattr(self, "attempts", []):
            if a["alive"]:
                self.viol["C13"].append("attempt %d never ended with a disconnect notification (connects=%d)" % (a["n"], a["connects"]))

    # -- one loop iteration
    def _run(self, att, o, seg):
        rd = o[1]
        if att["alive"] and rd is not None:
            att["queue"].append(rd)
        wrote_hdr = any(t in ("W:hdr", "W:hdr+from", "T:hdr", "T:hdr+from") for t in seg)
        items = []
        if att["alive"] and att["reading"] and att["queue"]:
            # the implementation reads one chunk per iteration once the TCP connection is established
            pass
        self._tokens(att, seg, items, wrote_hdr)

    def _tokens(self, att, seg, items, wrote_hdr=False):
        fl = att["flags"]
        # 1. what is written at the start of the iteration is judged against what was received before
        idx = 0
        for t in seg:
            if t.startswith("W:") or t.startswith("T:"):
                self._wire(att, t[0] == "T", t[2:])
        # 2. parser restart is visible as a new stream header written by the client
        if wrote_hdr:
            att["depth"], att["nest"], att["dead"], att["feat_seen"] = 0, 0, False, False
        # 3. the chunk read in this iteration (one per iteration, in order, once reading has started:
        #    for stream-oriented connections from the iteration in which the first header is written)
        if wrote_hdr:
            att["reading"] = True
        serr_before = att["serr"]
        if att["alive"] and att["reading"] and att["queue"]:
            rd = att["queue"].pop(0)
            if isinstance(rd, tuple):
                self._receive(att, rd[1])
        # a socket closed while the attempt goes on (next connect candidate): what was queued for it is gone
        if "X" in seg and not any(t.startswith("E:disconnect") for t in seg):
            att["queue"] = []
        # raw connections: reading starts in the iteration after the one that reported RAW_CONNECT
        if "E:raw_connect" in seg:
            att["reading"] = True
        if any(t.startswith("TLS:start") for t in seg) and (att["flags"] & 1):
            self.viol["C02"].append("TLS disabled by the user but a TLS handshake was started")
        if "TLS:start=ok" in seg:
            att["tls_up"] = True
        # 4. notifications
        seen_disc = False
        up = att["connects"] > 0 or att["rawc"]
        for t in seg:
            if t == "E:connect":
                if not att["alive"]:
                    self.viol["C13"].append("connect notification after the attempt's disconnect")
                att["connects"] += 1
                up = True
                if att["kind"] != "raw" and att["connects"] > 1:
                    self.viol["C03"].append("connection reported up %d times" % att["connects"])
                    self.viol["C13"].append("more than one 'connected' for one attempt")
                if not self._connect_justified(att):
                    self.viol["C03"].append("reported connected without successful negotiation (kind=%s success=%s bound=%s resumed=%s legacy=%s hs=%s)" %
                                            (att["kind"], att["success"], att["bound"], att["resumed"], att["legacy_ok"], att["hs"]))
            elif t == "E:raw_connect":
                if att["kind"] != "raw":
                    self.viol["C13"].append("raw-connect notification for a %s attempt (no 'connected' can follow from a negotiation that never starts)" % att["kind"])
                att["rawc"] = True
                up = True
            elif t.startswith("E:disconnect"):
                att["disconnects"] += 1
                if att["disconnects"] > 1:
                    self.viol["C13"].append("two disconnect notifications for one attempt")
                    self.viol["C01"].append("two disconnect notifications for one connection")
                att["alive"] = False
                m = re.match(r"E:disconnect\((-?\d+)(?:,se=(\d+),(\d))?\)", t)
                rep = (int(m.group(2)), int(m.group(3))) if m.group(2) is not None else None
                # (a disconnect raised by a timed handler precedes this iteration's read: accept both views)
                if att["kind"] != "raw" and rep != att["serr"] and rep != serr_before:
                    self.viol["C13"].append("stream error reported %s but the server sent %s" % (rep, att["serr"]))
            elif t in ("H:user", "H:timed", "H:userid"):
                if not up or not att["alive"]:
                    self.viol["C03"].append("user handler ran before the connection was reported up")
            elif t in ("W:user", "T:user"):
                pass  # judged in _wire

    def _wire(self, att, tls, w):
        fl, of, cfg = att["flags"], att["offers"], att["cfg"]
        # authentication data: SASL, legacy jabber:iq:auth, and the component handshake digest (XEP-0114)
        cred = w.startswith("auth=") or w in ("response", "legacy", "handshake")
        if cred and (fl & 2) and not tls:
            self.viol["C02"].append("mandatory TLS but %s written in the clear" % w)
        if w == "starttls":
            if fl & 1:
                self.viol["C02"].append("TLS disabled but STARTTLS requested")
            if not of["tls"]:
                self.viol["C03"].append("STARTTLS requested without an offer on this connection")
        if w.startswith("auth="):
            m = w[5:]
            if m not in of["mechs"]:
                self.viol["C03"].append("mechanism %s requested but not offered on this connection (offered %s)" % (m, sorted(of["mechs"])))
            if m == "PLAIN" and att["strong"]:
                self.viol["C02"].append("PLAIN used although a stronger supported mechanism was offered on this connection")
        if w == "legacy" and (not (fl & 16) or att["kind"] != "client"):
            self.viol["C02"].append("legacy authentication without the flag / on a non-client connection")
        if w == "compress" and not of["zlib"]:
            self.viol["C03"].append("compression requested without an offer")
        if w.startswith("bind"):
            if not of["bind"]:
                self.viol["C03"].append("bind requested without an offer")
            if (w == "bind+res") != bool(cfg["res"]):
                self.viol["C03"].append("bind request %s but configured resource present=%s" % (w, cfg["res"]))
        if w == "session" and not of["session"]:
            self.viol["C03"].append("session requested without an offer")
        if w in ("enable", "enable+resume", "resume") and not of["sm"]:
            self.viol["C03"].append("%s requested without a stream-management offer" % w)
        if w.startswith("hdr!"):
            self.viol["C03"].append("stream header does not name the configured domain / address: %s" % w)
        if w == "bind!res":
            self.viol["C03"].append("bind request asks for another resource than the configured one")
        # (a <starttls/> still queued when an unsolicited <proceed/> brings TLS up is written through TLS: that is the
        #  server's reordering, not a request of the client; a request answering features received under TLS is)
        if w == "starttls" and tls and att.get("feat_under_tls"):
            self.viol["C03"].append("STARTTLS requested in answer to features received on a stream that TLS already protects (not the RFC 6120 order)")
        if w == "hdr+from" and not tls:
            self.viol["C03"].append("stream header reveals the user's address on an unprotected stream")
        if w == "user" and not (att["connects"] > 0 or att["rawc"]):
            self.viol["C03"].append("a user stanza reached the wire before the connection was reported up")

    def _receive(self, att, items):
        cert = att["cfg"]["cert"]
        for it in items:
            if att["dead"]:
                return
            if it == "g":
                att["dead"] = True
                return
            if it in ("h1", "h0"):
                if att["depth"] == 0:
                    att["depth"] = 1
                    att["feat_seen"] = False
                    att["hdr_rx"] = True
                else:
                    att["nest"] += 1
                continue
            if it == "z":
                if att["nest"] > 0:
                    att["nest"] -= 1
                elif att["depth"] == 1:
                    att["depth"] = -1   # document closed
                else:
                    att["dead"] = True
                continue
            if att["depth"] == -1:
                att["dead"] = True
                return
            if att["depth"] == 0:
                if it.ns == "streams":
                    att["dead"] = True      # unbound "stream:" prefix
                    return
                att["depth"] = -1
                continue
            if att["nest"] > 0:
                continue
            # a top-level element of the open stream
            f = it.f
            if it.ns == "streams" and it.name == "features":
                if att.get("tls_up"):
                    att["feat_under_tls"] = True
                of = att["offers"]
                of["tls"] |= bool(f["starttls"]); of["mechs"] |= set(f["mechs"]); of["zlib"] |= bool(f["zlib"])
                of["bind"] |= bool(f["bind"]); of["session"] |= bool(f["session"]); of["sm"] |= bool(f["sm"])
                if not att["feat_seen"]:
                    att["feat_seen"] = True
                    if any(m in STRONG or (m == "EXTERNAL" and cert) for m in f["mechs"]):
                        att["strong"] = True
            if it.ns == "sasl" and it.name == "success":
                att["success"] = True
            if it.eid == "bind" and it.typ == "result":
                att["bound"] = True
            if it.eid == "auth" and it.typ == "result" and it.name == "iq":
                att["legacy_ok"] = True
            if it.ns == "sm" and it.name == "resumed":
                att["resumed"] = True
            if it.name == "handshake":
                att["hs"] = True
            if it.ns == "streams" and it.name == "error":
                att["serr"] = (f["cond"], f["text"])

    def _connect_justified(self, att):
        if att["kind"] == "raw":
            return att["hdr_rx"]
        if att["kind"] == "component":
            return att["hs"]
        return (att["success"] and (att["bound"] or att["resumed"])) or att["legacy_ok"]

    def _is(self, att, seg):
        if not seg:
            return
        m = re.match(r"S=(\d)(\d)(\d),sec=(\d)", seg[0])
        cing, ced, dis = int(m.group(1)), int(m.group(2)), int(m.group(3))
        if cing + ced + dis != 1:
            self.viol["C13"].append("state predicates not a partition: %s" % seg[0])
        alive = att is not None and att["alive"]
        up = alive and (att["connects"] > 0 or att["rawc"])
        exp = (int(alive and not up), int(up), int(not alive))
        if (cing, ced, dis) != exp:
            self.viol["C13"].append("state predicates %s disagree with the notifications so far (expected %s%s%s)" % (seg[0], exp[0], exp[1], exp[2]))


def judge(chk, pid, results, stream):
    """Evaluate the oracle for property pid on every result; model-level statement bits too."""
    CHK_NAMES = ["mandatory", "disabled", "plain", "legacy", "offers", "header_bind", "connect", "user", "restart", "outcome",
                 "is", "flags", "stream_error", "nocrash"]
    mine = {"C02": CHK_NAMES[0:4], "C03": CHK_NAMES[4:9], "C13": CHK_NAMES[9:13], "C01": CHK_NAMES[13:]}[pid]
    for sc, toks, info, mt in results:
        chk.evaluations += 1
        chk.count(stream)
        key = " ".join(toks)
        if len(toks) > 12:
            chk.nontrivial.add(hash(key))
        case = {"label": sc.label, "sim": sc.sim_line(), "model_in": sc.model_line()}
        if info["crash"]:
            chk.fail(case, "implementation crashed / hung: %s" % info["crash"][:300], stream)
            continue
        for a in info["anomalies"]:
            chk.fail(case, "harness anomaly %s" % a, stream)
        obs = Observer(sc, toks)
        for v in obs.viol[pid][:3]:
            chk.fail(case, v, stream)
        if pid == "C01":
            end = info["end"] or ""
            m = re.match(r"live=(\d+) allocerr=(\d+) fds=(\d+)/(\d+)", end)
            if not m:
                chk.fail(case, "scenario did not run to its end: %r" % end, stream)
            elif int(m.group(2)) != 0 or m.group(3) != m.group(4):
                chk.fail(case, "allocator/descriptor misuse at the end of the scenario: %s" % end, stream)
        mc = info.get("model_checks")
        if mc:
            for k, nm in enumerate(CHK_NAMES):
                if nm in mine and k < len(mc) and mc[k] == "0":
                    chk.broken.append({"kind": "model-statement", "name": "ok_" + nm,
                                       "detail": "the executable statement is false on the model run of: " + sc.model_line()[:400]})


# --------------------------------------------------------------------------------------------------
# scenario families aimed at particular properties, the corpus, and the common check driver
# --------------------------------------------------------------------------------------------------
SUCCESS = simple("sasl", "success")
PROCEED = simple("tls", "proceed")


def base_ops(flags=0, node=1, res=1, pw=1, cert=0, user=(1, 1000), tlsnew=1, cb=0, verdicts=()):
    ops = [("flags", flags), ("jid", node, res), ("pass", pw)]
    if cert:
        ops.append(("cert", cert))
    ops.append(("user", user[0], user[1]))
    ops.append(("env", tlsnew, cb, list(verdicts)))
    return ops


def runs(*chunks):
    out = []
    for c in chunks:
        if c is None or isinstance(c, str):
            out.append(("run", c))
        else:
            out.append(("run", ("items", list(c))))
        out.append(("run", None))
    return out


def happy_client(tls=True, mechs=("PLAIN",), sm=True, session=None, zlib=False):
    """Server steps of a complete client negotiation (list of chunks)."""
    st = [["h1"], [features(tls, list(mechs))]]
    if tls:
        st += [[PROCEED], ["h1"], [features(False, list(mechs))]]
    st += [[SUCCESS], ["h1"]]
    if zlib:
        st += [[features(zlib=True, bind=True)], [simple("compress", "compressed")], ["h1"]]
    st += [[features(bind=True, session=session, sm=sm)], [iq("bind", "result", "bindjid")]]
    if session == "req":
        st.append([iq("session", "result")])
    if sm:
        st.append([sm_elem("enabled", True, True)])
    return st


def corpus_scenarios():
    """Minimised scenarios of the defects found so far (run first on every run)."""
    S = []
    END = [("run", "close"), ("run", None), ("is",), ("release",)]
    # empty <stream:error/> (fixed d154ddf)
    S.append(Scenario(base_ops() + [("connect", "client", ["accept"]), ("run", None)] + runs(["h1"], [features(False, ["PLAIN"])], [stream_error(empty=True)]) + END, "corpus:empty-stream-error"))
    # stream error layouts: condition first / text first, before and after the negotiation
    for tf in (False, True):
        for cnd in (2, 12, 18):
            S.append(Scenario(base_ops() + [("connect", "client", ["accept"]), ("run", None)] + runs(["h1"], [features(False, ["PLAIN"])], [stream_error(cnd, True, False, text_first=tf)]) + END,
                              "corpus:stream-error-layout-early:%d:%d" % (cnd, tf)))
            S.append(Scenario(base_ops() + [("connect", "client", ["accept"]), ("run", None)] + runs(*(happy_client(tls=False, sm=False) + [[stream_error(cnd, True, False, text_first=tf)]])) + END,
                              "corpus:stream-error-layout-late:%d:%d" % (cnd, tf)))
    # two teardowns in one read chunk (fixed 117b63d)
    S.append(Scenario(base_ops(flags=2) + [("connect", "client", ["accept"]), ("run", None)] + runs(["h1"], [features(False, ["PLAIN"]), "z"]) + [("is",), ("release",)], "corpus:double-disconnect"))
    # stale SASL offers across reconnects (fixed 8f02bf5)
    S.append(Scenario(base_ops() + [("connect", "client", ["accept"]), ("run", None)] + runs(["h1"], [features(False, ["SCRAM-SHA-1", "DIGEST-MD5", "PLAIN"])], "close") +
                      [("connect", "client", ["accept"]), ("run", None)] + runs(["h1"], [features(False, ["PLAIN"])]) + END, "corpus:stale-sasl"))
    # component: first inbound element (fixed 36e561d)
    S.append(Scenario(base_ops(user=(0, None)) + [("connect", "component", ["accept"]), ("run", None)] + runs(["h1"], [Elem("component", "handshake", xml="<handshake xmlns='jabber:component:accept'/>")]) + END, "corpus:component-sm-null"))
    # <resumed/> and <failed/> answering <enable/> (fixed)
    for el in (sm_elem("resumed", previd=True, h=0), sm_elem("failed", cause="item-not-found"), sm_elem("failed", cause="other", h=3)):
        S.append(Scenario(base_ops() + [("connect", "client", ["accept"]), ("run", None)] + runs(*(happy_client(tls=False)[:-1] + [[el]])) + [("is",), ("send",), ("run", None)] + END, "corpus:sm-null-" + el.kind))
    # DIGEST-MD5 challenge without text / nonce (fixed)
    for ch in ("empty", "digest_nononce"):
        S.append(Scenario(base_ops() + [("connect", "client", ["accept"]), ("run", None)] + runs(["h1"], [features(False, ["DIGEST-MD5"])], [challenge(ch)]) + END, "corpus:digest-" + ch))
    # late legacy-auth result after SASL + bind: second 'connected' (fixed a5326b8)
    S.append(Scenario(base_ops(flags=16) + [("connect", "client", ["accept"]), ("run", None), ("run", ("items", ["h1"])), ("clock", 15000), ("run", None), ("run", None)] +
                      runs(*(happy_client(tls=False, sm=False)[1:])) + [("is",)] + runs([iq("auth", "result")]) + END, "corpus:double-connect-legacy"))
    # resume without an SM offer (fixed 7178df9): resumable session, reconnect, features with bind only
    first = runs(*happy_client(tls=False)) + [("send",), ("run", None), ("run", "reset"), ("run", None)]
    S.append(Scenario(base_ops() + [("connect", "client", ["accept"]), ("run", None)] + first + [("connect", "client", ["accept"]), ("run", None)] +
                      runs(["h1"], [features(False, ["PLAIN"])], [SUCCESS], ["h1"], [features(bind=True, sm=False)]) + END, "corpus:resume-without-offer"))
    # negotiation element retained by SM and re-sent (fixed e0ade9b): server pipelines the bind result with the features
    S.append(Scenario(base_ops() + [("connect", "client", ["accept"]), ("run", None)] + runs(["h1"], [features(False, ["PLAIN"])], [SUCCESS], ["h1", features(bind=True, sm=True), iq("bind", "result", "bindjid")],
                                                                                                [sm_elem("enabled", True, True)]) + [("run", None)] + END, "corpus:sm-retains-bind"))
    # element in a foreign namespace with a SASL-namespace child taken for <success/> (fixed 7c00178)
    fake = Elem("other", "success", childns=["sasl"], xml="<success xmlns='urn:example:other'><x xmlns='%s'/></success>" % NSURI["sasl"])
    S.append(Scenario(base_ops() + [("connect", "client", ["accept"]), ("run", None)] + runs(["h1"], [features(False, ["PLAIN"])], [fake], ["h1"], [features(bind=True)], [iq("bind", "result", "bindjid")]) + END, "corpus:childns-success"))
    fake_err = Elem("client", "error", childns=["streams"], xml="<error xmlns='jabber:client'><text xmlns='%s'/></error>" % NSURI["streams"], cond=7, text=1)
    S.append(Scenario(base_ops() + [("connect", "client", ["accept"]), ("run", None)] + runs(["h1"], [fake_err]) + END, "corpus:childns-error"))
    # PLAIN after SCRAM was offered before STARTTLS, via the missing-features time-out of the TLS stream (fixed 074cd09)
    S.append(Scenario(base_ops() + [("connect", "client", ["accept"]), ("run", None)] + runs(["h1"], [features(True, ["SCRAM-SHA-1", "PLAIN"])], [PROCEED], ["h1"]) +
                      [("clock", 15000), ("run", None), ("run", None)] + runs([features(False, ["PLAIN"])]) + END, "corpus:plain-after-tls-timeout"))
    # missing features after SASL success with compression allowed re-authenticated (fixed a1262cf)
    S.append(Scenario(base_ops(flags=64 + 16) + [("connect", "client", ["accept"]), ("run", None)] + runs(["h1"], [features(False, ["PLAIN"])], [SUCCESS], ["h1"]) +
                      [("clock", 15000), ("run", None), ("run", None)] + END, "corpus:reauth-after-success"))
    # xmpp_connect_raw on a live client connection (fixed 7be39ad)
    S.append(Scenario(base_ops() + [("connect", "client", ["accept"]), ("run", None)] + runs(["h1"]) + [("connect", "raw", ["accept"]), ("openstream",), ("run", None)] + runs(["h1"]) + [("is",)] + END, "corpus:raw-hijack"))
    # known finding: xmpp_send_raw during negotiation
    S.append(Scenario(base_ops() + [("connect", "client", ["accept"]), ("run", None)] + runs(["h1"], [features(False, ["PLAIN"])]) + [("sendraw",), ("send",), ("run", None)] + END, "corpus:sendraw-during-negotiation"))
    return S


def shape_vocabulary():
    """Every shape of element the negotiation handlers look at, including the ones missing an optional child,
    attribute or text (deterministic; used by the stage x shape family)."""
    V = [features(), features(False, []), features(True, ["PLAIN"]), features(False, ["SCRAM-SHA-1", "DIGEST-MD5"]),
         features(bind=True), features(bind=True, session="req", sm=True), features(zlib=True), features(sm=True),
         simple("tls", "proceed"), simple("tls", "failure"), simple("sasl", "success"), simple("sasl", "failure"), simple("sasl", "other"),
         simple("compress", "compressed"), simple("compress", "failure"), simple("sm", "other"), simple("other", "other")]
    V += [challenge(k) for k in ("digest_ok", "digest_nononce", "scram_ok", "scram_bad", "notb64", "empty")]
    for eid in ("bind", "session", "auth", "other", "none"):
        for typ in ("result", "error", "none"):
            V.append(iq(eid, typ))
    V += [iq("bind", "result", "bindjid"), iq("bind", "result", "bind"), iq("bind", "error", "bind"), iq("session", "result", "bindjid"),
          iq("bind", "result", "bindjid", name="message"), iq("bind", "result", None, extra_child_ns="sm")]
    for r in (False, True):
        for i in (False, True):
            V.append(sm_elem("enabled", r, i))
    for pv in (None, True, False):
        for h in (None, 0, 2, "bad"):
            V.append(sm_elem("resumed", previd=pv, h=h))
    for c in CAUSES:
        for h in (None, 0, 3, "bad"):
            V.append(sm_elem("failed", cause=c, h=h))
    V += [sm_elem("r"), sm_elem("a"), sm_elem("a", h=0), sm_elem("a", h=7), sm_elem("a", h="bad")]
    V += [Elem("component", "handshake", xml="<handshake xmlns='jabber:component:accept'/>"),
          Elem("client", "handshake", xml="<handshake xmlns='jabber:client'/>")]
    V += [stream_error(None, False, False), stream_error(None, True, False), stream_error(2, False, False), stream_error(12, True, False),
          stream_error(12, True, False, text_first=True), stream_error(empty=True)]
    V += [iq("none", "none", name="message"), "z", "g", "h1", "h0"]
    return V


def stage_sessions():
    """Conforming sessions (flags, connect kind, set-up ops, server steps) whose every stage is a point where some handler waits."""
    S = []
    S.append(("plain", 0, "client", [], happy_client(tls=False, session="req", sm=True)))
    scram = [["h1"], [features(True, ["SCRAM-SHA-1", "PLAIN"])], [PROCEED], ["h1"], [features(False, ["SCRAM-SHA-1", "PLAIN"])], [challenge("scram_ok")],
             [SUCCESS], ["h1"], [features(bind=True, sm=True)], [iq("bind", "result", "bindjid")], [sm_elem("enabled", True, True)]]
    S.append(("scram-tls", 0, "client", [], scram))
    digest = [["h1"], [features(False, ["DIGEST-MD5"])], [challenge("digest_ok")], [challenge("digest_ok")], [SUCCESS], ["h1"],
              [features(bind=True)], [iq("bind", "result", "bindjid")]]
    S.append(("digest", 0, "client", [], digest))
    S.append(("zlib", 64, "client", [], happy_client(tls=False, sm=True, zlib=True)))
    S.append(("legacy", 16, "client", [], [["h1"], [features(False, [])], [iq("auth", "result")]]))
    S.append(("component", 0, "component", [], [["h1"], [Elem("component", "handshake", xml="<handshake xmlns='jabber:component:accept'/>")]]))
    # second connection of an object that holds a resumable session: the client answers the features with <resume/>
    first = ([("connect", "client", ["accept"]), ("run", None)] + runs(*happy_client(tls=False)) +
             [("send",), ("run", None), ("run", "reset"), ("run", None)])
    S.append(("resume", 0, "client", first, [["h1"], [features(False, ["PLAIN"])], [SUCCESS], ["h1"], [features(bind=True, sm=True)],
                                             [sm_elem("resumed", previd=True, h=1)]]))
    return S


def stage_shape_scenarios(rng, thorough=False):
    """C01: every shape of the vocabulary at every stage of every session (the step the server would have sent is
    replaced by the shape, the rest of the conforming script follows, then the object is reconnected and released).
    The quick tier takes every shape at every stage of the plain and resume sessions and a rotating third elsewhere."""
    V = shape_vocabulary()
    out = []
    for name, fl, kind, setup, steps in stage_sessions():
        for k in range(len(steps) + 1):
            for j, shape in enumerate(V):
                if not thorough and name not in ("plain", "resume") and (j + k) % 3 != 0:
                    continue
                ops = base_ops(flags=fl, user=(1, 1000)) + list(setup) + [("connect", kind, ["accept"]), ("run", None)] + runs(*steps[:k])
                ops += [("run", ("items", [shape])), ("run", None), ("is",)]
                ops += runs(*steps[k + 1:k + 3])
                ops += [("send",), ("sendst",), ("run", None), ("is",), ("run", "close"), ("run", None), ("is",)]
                # the object must be reusable
                ops += [("connect", kind, ["accept"]), ("run", None)] + runs(["h1"]) + [("is",), ("run", "close"), ("run", None), ("release",)]
                out.append(Scenario(ops, "shape:%s:%d:%s" % (name, k, shape if isinstance(shape, str) else getattr(shape, "kind", None) or shape.tok())))
    return out


def _session(tls, mech, post, tail=True):
    """Server steps of a conforming client session: pre-auth features (tls?, [mech, PLAIN]), the exchange of `mech`,
    post-auth features `post` (dict for features()), bind / session / enabled answers."""
    mechs = [mech] if mech == "PLAIN" else [mech, "PLAIN"]
    st = [["h1"], [features(tls, mechs)]]
    if tls:
        st += [[PROCEED], ["h1"], [features(False, mechs)]]
    if mech.startswith("SCRAM"):
        st.append([challenge("scram_ok")])
    elif mech == "DIGEST-MD5":
        st += [[challenge("digest_ok")], [challenge("digest_ok")]]
    st += [[SUCCESS], ["h1"], [features(**post)]]
    if tail:
        if post.get("bind"):
            st.append([iq("bind", "result", "bindjid")])
        if post.get("session") == "req":
            st.append([iq("session", "result")])
        if post.get("sm"):
            st.append([sm_elem("enabled", True, True)])
    return st


POSTS = [dict(bind=True), dict(bind=True, session="req"), dict(bind=True, session="opt"), dict(bind=True, sm=True),
         dict(bind=True, session="req", sm=True), dict(bind=True, zlib=True), dict(sm=True), dict(),
         dict(bind=True, methods=["lzw"]), dict(bind=True, methods=["lzw", "bzip2"])]


def reconnect_scenarios(rng, thorough=False):
    """C03: two connections of one object whose offers differ (every ordered pair of post-authentication feature sets,
    with the pre-authentication offers swapped as well): what the second connection requests must answer the second
    connection's offers."""
    S = []
    pres = [(True, "SCRAM-SHA-1"), (False, "PLAIN"), (False, "DIGEST-MD5")]
    for i, a in enumerate(POSTS):
        for j, b in enumerate(POSTS):
            if i == j:
                continue
            for fl in (0, 64, 32):
                if fl == 64 and not (a.get("zlib") or b.get("zlib") or a.get("methods") or b.get("methods")):
                    continue
                if fl == 32 and not (a.get("sm") or b.get("sm")):
                    continue
                pa, pb = pres[(i + j) % 3], pres[(i + j + 1) % 3]
                end1 = "close" if (i + j) % 2 else "reset"
                ops = base_ops(flags=fl) + [("connect", "client", ["accept"]), ("run", None)] + runs(*_session(pa[0], pa[1], a)) + \
                    [("is",), ("send",), ("run", None), ("run", end1), ("run", None), ("is",)] + \
                    [("connect", "client", ["accept"]), ("run", None)] + runs(*_session(pb[0], pb[1], b)) + \
                    [("is",), ("send",), ("run", None), ("run", "close"), ("run", None), ("is",), ("release",)]
                S.append(Scenario(ops, "reconnect:%d:%d:%d" % (i, j, fl)))
    if not thorough:
        S = [x for k, x in enumerate(S) if k % 2 == rng.randrange(2)] if len(S) > 80 else S
    return S


def resume_scenarios(rng, thorough=False):
    """C03: a second connection of an object that holds a resumable session; every post-authentication offer x every
    answer to what the client then asks (<resumed/>, <failed/> with every cause and h, <enabled/>, silence)."""
    S = []
    first = ([("connect", "client", ["accept"]), ("run", None)] + runs(*happy_client(tls=False)) +
             [("send",), ("run", None), ("run", "reset"), ("run", None)])
    answers = [sm_elem("resumed", previd=True, h=1), sm_elem("resumed", previd=False, h=0), sm_elem("resumed", previd=None, h=None),
               sm_elem("enabled", True, True), None]
    for c in CAUSES:
        for h in (None, 0, 1, "bad"):
            answers.append(sm_elem("failed", cause=c, h=h))
    for post in (dict(bind=True, sm=True), dict(sm=True), dict(bind=True), dict(bind=True, session="req", sm=True)):
        for ans in answers:
            tail = [[ans]] if ans is not None else []
            tail += [[iq("bind", "result", "bindjid")], [iq("session", "result")], [sm_elem("enabled", True, True)]]
            ops = base_ops() + first + [("connect", "client", ["accept"]), ("run", None)] + runs(*(_session(False, "PLAIN", post, tail=False) + tail)) + \
                [("is",), ("send",), ("run", None), ("run", "close"), ("run", None), ("is",), ("release",)]
            S.append(Scenario(ops, "resume:%s:%s" % ("+".join(sorted(post)), "silence" if ans is None else ans.xml[:60])))
    return S


def userid_scenarios(rng, thorough=False):
    """C03: a user id handler, a user stanza handler and a user timed handler are registered before connecting; the
    server sends an <iq/> carrying that id at every stage."""
    S = []
    probe = iq("other", "result")
    for name, fl, kind, setup, steps in stage_sessions():
        for k in range(len(steps) + 1):
            ops = base_ops(flags=fl, user=(1, 1)) + list(setup) + [("connect", kind, ["accept"]), ("run", None)] + runs(*steps[:k])
            ops += [("run", ("items", [probe])), ("sendst",), ("send",), ("run", None), ("clock", 5), ("run", None)] + runs(*steps[k:]) + [("run", ("items", [probe])), ("run", None)]
            ops += [("is",), ("run", "close"), ("run", None), ("release",)]
            S.append(Scenario(ops, "userid:%s:%d" % (name, k)))
    return S


def slashres_scenarios(rng, thorough=False):
    """C03: the configured address carries a resource that itself contains a slash (user@example.com/res/x): the bind
    request asks for exactly that resource (everything after the first slash), the header names the bare address."""
    S = []
    for name, fl, kind, setup, steps in stage_sessions():
        if kind != "client":
            continue
        for fl2 in (fl, fl | 1):
            ops = base_ops(flags=fl2, res=2) + list(setup) + [("connect", kind, ["accept"]), ("run", None)] + runs(*steps)
            ops += [("is",), ("run", "close"), ("run", None), ("release",)]
            S.append(Scenario(ops, "slashres:%s:%d" % (name, fl2)))
    return S


def refused_call_scenarios(rng, thorough=False):
    """C13: a second connect call of every kind made on an object whose attempt is in progress -- while the TCP connect
    is still pending (before the first loop iteration) and at every later stage -- is refused and leaves the accepted
    attempt alone: the conforming script goes on to the one 'connected' it would have produced anyway."""
    S = []
    for name, fl, kind, setup, steps in stage_sessions():
        if not thorough and name not in ("plain", "legacy", "component"):
            continue
        for k in range(-1, len(steps) + 1):
            for kind2 in ("client", "raw", "component"):
                for opens in ((False, True) if kind2 == "raw" else (False,)):
                    again = [("connect", kind2, ["accept"])] + ([("openstream",)] if opens else [])
                    ops = base_ops(flags=fl) + list(setup) + [("connect", kind, ["accept"])]
                    if k < 0:
                        ops += again + [("is",), ("run", None)] + runs(*steps)
                    else:
                        ops += [("run", None)] + runs(*steps[:k]) + again + [("is",), ("run", None)] + runs(*steps[k:])
                    ops += [("is",), ("clock", 20000), ("run", None), ("is",), ("run", "close"), ("run", None), ("release",)]
                    sc = Scenario(ops, "refused-call:%s:%d:%s%s" % (name, k, kind2, "+open" if opens else ""))
                    sc.component = kind == "component"      # the JID is the one of the accepted attempt
                    S.append(sc)
    return S


def rawtls_scenarios(rng, thorough=False):
    """C02, implementation only (the model has no op for xmpp_conn_tls_start on a raw connection): the user asks for TLS
    on a raw connection at several moments, under every TLS flag word; with DISABLE_TLS no handshake may start."""
    S = []
    for fl in (1, 1 + 16, 1 + 32, 0, 2, 8):
        for when in (0, 1, 2):
            ops = base_ops(flags=fl) + [("connect", "raw", ["accept"]), ("run", None)]
            if when >= 1:
                ops += [("openstream",), ("run", None)] + runs(["h1"])
            if when >= 2:
                ops += runs([features(True, ["PLAIN"], tls_required=True)], [PROCEED])
            ops += [("starttls",), ("run", None), ("run", None), ("is",), ("run", "close"), ("run", None), ("release",)]
            sc = Scenario(ops, "rawtls:%d:%d" % (fl, when))
            sc.impl_only = True
            S.append(sc)
    return S


def deadline_scenarios(rng, thorough=False):
    """Silence at a stage that has a deadline, with clock steps around it (C13).  Every scenario carries
    `expect = (deadline_ms, strict, give-up tokens)`: everything before the silence happens at one instant, so the
    wait is armed at elapsed 0; a timed wait (fires at elapsed >= D) shows its effect on the wire in the iteration
    after the first one with elapsed >= D, a TCP connect wait (abandoned at elapsed > D) in that iteration itself."""
    S = []
    CLOSE = ("W:close", "T:close")
    hc = happy_client(tls=False, session="req", sm=False)     # h1, features, success, h1, features(bind,session), bind result, session result
    stages = [
        ("client", 0, hc[:1], 15000, CLOSE, "features"),          # stream header received, features missing
        ("client", 16, hc[:1], 15000, ("W:legacy",), "features-then-legacy"),
        ("client", 0, hc[:4], 15000, CLOSE, "features-after-sasl"),
        ("client", 0, hc[:5], 15000, CLOSE, "bind"),
        ("client", 0, hc[:6], 15000, CLOSE, "session"),
        ("component", 0, [["h1"]], 15000, CLOSE, "handshake"),
    ]
    tls = happy_client(tls=True, sm=False)
    stages.append(("client", 0, tls[:4], 15000, CLOSE, "features-after-tls"))
    deltas = ((14999, 1, 1, 1), (15000, 1, 1), (1, 14998, 1, 1, 1), (15001, 1), (7000, 7999, 1, 1, 1), (14999, 2, 1), (30000, 1))
    for kind, fl, pre, d, toks, name in stages:
        for delta in deltas:
            ops = base_ops(flags=fl, user=(1, 15000)) + [("connect", kind, ["accept"]), ("run", None)] + runs(*pre)
            mark = len(ops)
            for dt in delta:
                ops += [("clock", dt), ("run", None), ("is",)]
            ops += [("release",)]
            sc = Scenario(ops, "deadline:%s:%s" % (name, "+".join(map(str, delta))))
            sc.expect = (d, False, toks, mark)
            S.append(sc)
    # TCP connect: 5 s per candidate
    for eps in (["hang"], ["hang", "accept"], ["hang", "hang"]):
        for delta in ((4999, 1, 1, 1), (5000, 1, 1), (5001, 1), (2500, 2500, 1, 1), (4999, 2, 1)):
            ops = base_ops() + [("connect", "client", eps)]
            mark = len(ops)
            for dt in delta:
                ops += [("clock", dt), ("run", None), ("is",)]
            ops += [("release",)]
            sc = Scenario(ops, "deadline:connect:%s:%s" % ("".join(e[0] for e in eps), "+".join(map(str, delta))))
            sc.expect = (5000, True, ("X",), mark)
            S.append(sc)
    # TCP connect, second candidate after a failure that took some time: the 5 s start when that candidate is tried
    for eps in (["late", "hang"], ["late", "hang", "accept"], ["refuse", "late", "hang"]):
        for pre_ms in (3000, 4999):
            for delta in ((4999, 1, 1, 1), (5000, 1, 1), (5001, 1), (2001, 2998, 1, 1, 1)):
                ops = base_ops() + [("connect", "client", eps)]
                ops += [("clock", pre_ms), ("run", None), ("is",)]
                mark = len(ops)
                for dt in delta:
                    ops += [("clock", dt), ("run", None), ("is",)]
                ops += [("release",)]
                sc = Scenario(ops, "deadline:connect-next:%s:%d:%s" % ("".join(e[0] for e in eps), pre_ms, "+".join(map(str, delta))))
                sc.expect = (5000, True, ("X",), mark)
                S.append(sc)
    # graceful close: 2 s
    for delta in ((1999, 1, 1), (2000, 1), (2001, 1), (1000, 999, 1, 1)):
        ops = base_ops() + [("connect", "client", ["accept"]), ("run", None)] + runs(*happy_client(tls=False, sm=False)) + [("is",), ("disc",), ("run", None)]
        mark = len(ops)
        for dt in delta:
            ops += [("clock", dt), ("run", None), ("is",)]
        ops += [("release",)]
        sc = Scenario(ops, "deadline:close:%s" % "+".join(map(str, delta)))
        sc.expect = (2000, "same", ("E:disconnect",), mark)
        S.append(sc)
    # graceful close begun before the negotiation is complete (by the user, or by the library after a refusal)
    pres = [("user-early", runs(["h1"]) + [("disc",), ("run", None)]),
            ("sasl-refused", runs(["h1"], [features(False, ["PLAIN"])], [simple("sasl", "failure")])),
            ("bind-refused", runs(*(happy_client(tls=False, sm=False)[:5] + [[iq("bind", "error")]])))]
    for name, pre in pres:
        for delta in ((1999, 1, 1), (2000, 1), (2001, 1), (1000, 999, 1, 1), (60000,)):
            ops = base_ops() + [("connect", "client", ["accept"]), ("run", None)] + pre
            mark = len(ops)
            for dt in delta:
                ops += [("clock", dt), ("run", None), ("is",)]
            ops += [("release",)]
            sc = Scenario(ops, "deadline:close-%s:%s" % (name, "+".join(map(str, delta))))
            sc.expect = (2000, "same", ("E:disconnect",), mark)
            S.append(sc)
    # a healthy connection is never given up: every wait of the negotiation was disarmed by the answer it waited for
    for delta in ((14999, 1, 1, 1), (16000, 16000, 60000)):
        ops = base_ops(flags=4, user=(1, 1000000)) + [("connect", "client", ["accept"]), ("run", None)] + runs(*happy_client(tls=False, sm=True)) + [("is",)]
        mark = len(ops)
        for dt in delta:
            ops += [("clock", dt), ("run", None), ("is",)]
        ops += [("release",)]
        sc = Scenario(ops, "deadline:healthy-legacy-ssl:%s" % "+".join(map(str, delta)))
        sc.expect = (10 ** 12, "same", ("E:disconnect", "W:close", "T:close"), mark)
        S.append(sc)
    # the user gives up while the TCP connect is still pending: the attempt ends 2 s later
    # (timed waits only run on an established TCP connection: the endpoint accepts, the request is made before the first
    #  loop iteration notices it)
    for eps in (["accept"], ["refuse", "accept"]):
        for delta in ((1999, 1, 1), (2000, 1), (2001, 1), (1000, 999, 1, 1)):
            ops = base_ops() + [("connect", "client", eps), ("disc",)]
            mark = len(ops)
            for dt in delta:
                ops += [("clock", dt), ("run", None), ("is",)]
            ops += [("release",)]
            sc = Scenario(ops, "deadline:close-while-connecting:%s:%s" % ("".join(e[0] for e in eps), "+".join(map(str, delta))))
            sc.expect = (2000, "same", ("E:disconnect",), mark)
            S.append(sc)
    for name, st_ in (("plain", happy_client(tls=False, sm=False)), ("session", happy_client(tls=False, session="req", sm=False)),
                      ("session-sm", happy_client(tls=False, session="req", sm=True)), ("tls-sm", happy_client(tls=True, sm=True)),
                      ("zlib", happy_client(tls=False, sm=True, zlib=True))):
        for delta in ((14999, 1, 1, 1), (16000, 16000, 60000)):
            ops = base_ops(flags=64 if name == "zlib" else 0, user=(1, 1000000)) + [("connect", "client", ["accept"]), ("run", None)] + runs(*st_) + [("is",)]
            mark = len(ops)
            for dt in delta:
                ops += [("clock", dt), ("run", None), ("is",)]
            ops += [("release",)]
            sc = Scenario(ops, "deadline:healthy-%s:%s" % (name, "+".join(map(str, delta))))
            sc.expect = (10 ** 12, "same", ("E:disconnect", "W:close", "T:close"), mark)
            S.append(sc)
    # a slow but healthy server: every single wait stays below its deadline, consecutive waits add up to more than one
    for name, st_, fl in (("tls", happy_client(tls=True, sm=True), 0), ("plain-session", happy_client(tls=False, session="req", sm=True), 0),
                          ("zlib", happy_client(tls=False, sm=False, zlib=True), 64)):
        for gap in (8000, 14999):
            ops = base_ops(flags=fl, user=(1, 1000000)) + [("connect", "client", ["accept"]), ("run", None)]
            mark = len(ops)
            for c in st_:
                ops += [("clock", gap), ("run", ("items", list(c))), ("run", None)]
            ops += [("is",), ("clock", 60000), ("run", None), ("is",), ("release",)]
            sc = Scenario(ops, "deadline:slow-%s:%d" % (name, gap))
            sc.expect = (10 ** 12, "same", ("E:disconnect", "W:close", "T:close"), mark)
            S.append(sc)
    for delta in ((14999, 1, 1, 1), (16000, 60000)):
        ops = base_ops(user=(0, None)) + [("connect", "component", ["accept"]), ("run", None)] + \
            runs(["h1"], [Elem("component", "handshake", xml="<handshake xmlns='jabber:component:accept'/>")]) + [("is",)]
        mark = len(ops)
        for dt in delta:
            ops += [("clock", dt), ("run", None), ("is",)]
        ops += [("release",)]
        sc = Scenario(ops, "deadline:healthy-component:%s" % "+".join(map(str, delta)))
        sc.expect = (10 ** 12, "same", ("E:disconnect", "W:close", "T:close"), mark)
        S.append(sc)
    # the 2 s wait keeps running across a stream restart (the user gives up while the post-SASL header is awaited;
    # the server's new header arrives 1500 ms later)
    for delta in ((499, 1, 1), (500, 1), (501, 1), (3000,)):
        ops = base_ops() + [("connect", "client", ["accept"]), ("run", None)] + runs(["h1"], [features(False, ["PLAIN"])], [SUCCESS]) + [("disc",), ("run", None)]
        mark = len(ops)
        ops += [("clock", 1500), ("run", ("items", ["h1"])), ("run", None), ("is",)]
        for dt in delta:
            ops += [("clock", dt), ("run", None), ("is",)]
        ops += [("release",)]
        sc = Scenario(ops, "deadline:close-across-restart:%s" % "+".join(map(str, delta)))
        sc.expect = (2000, "same", ("E:disconnect",), mark)
        S.append(sc)
    # a second disconnect request while the 2 s wait is pending does not extend it
    for first in (1500, 1999):
        for delta in ((1999 - first, 1, 1), (2000 - first, 1), (2001 - first, 1), (3000,)):
            ops = base_ops() + [("connect", "client", ["accept"]), ("run", None)] + runs(*happy_client(tls=False, sm=False)) + [("is",), ("disc",), ("run", None)]
            mark = len(ops)
            ops += [("clock", first), ("disc",), ("run", None), ("is",)]
            for dt in delta:
                ops += [("clock", dt), ("run", None), ("is",)]
            ops += [("release",)]
            sc = Scenario(ops, "deadline:close-twice:%d:%s" % (first, "+".join(map(str, delta))))
            sc.expect = (2000, "same", ("E:disconnect",), mark)
            S.append(sc)
    return S


def judge_deadline(chk, sc, toks):
    """The wait is given up when, and not before, its deadline has passed (scenario families with `expect`)."""
    d, strict, give, mark = sc.expect
    segs, _ = split_by_op(sc, toks)
    cum = 0
    due_run = None      # index (among the runs after mark) of the first run at which the deadline has passed
    runs_seen = []
    for (o, seg) in segs[mark:]:
        if o[0] == "clock":
            cum += o[1]
        elif o[0] == "run":
            passed = cum > d if strict is True else cum >= d
            if passed and due_run is None:
                due_run = len(runs_seen)
            runs_seen.append(seg)
    if strict is True or strict == "same":
        expected = due_run                     # visible in the iteration that notices it
    else:
        expected = None if due_run is None else due_run + 1    # queued then, written by the next iteration
    observed = None
    for k, seg in enumerate(runs_seen):
        if any(any(t.startswith(g) for g in give) for t in seg):
            observed = k
            break
    if expected is not None and expected >= len(runs_seen):
        expected = None
    if observed != expected:
        chk.fail({"label": sc.label, "sim": sc.sim_line(), "model_in": sc.model_line()},
                 "deadline %d ms: given up in iteration %s after the silence began, expected %s (%s)" % (d, observed, expected, sc.label), "deadlines")


def flag_scenarios(rng, thorough=False):
    """All 256 flag words offline, and set_flags / connect in every state (C13)."""
    S = []
    words = list(range(256)) + [256, 511, 1 << 20]
    for i in range(0, len(words), 16):
        ops = [("jid", 1, 1), ("pass", 1), ("user", 0, None), ("env", 1, 0, [])]
        for w in words[i:i + 16]:
            ops.append(("flags", w))
        ops += [("is",), ("release",)]
        S.append(Scenario(ops, "flags:offline:%d" % i))
    hc = happy_client(tls=False, sm=False)
    for cut in range(0, len(hc) + 1):
        for w in (0, 1, 2, 64, 255):
            ops = base_ops(flags=0) + [("connect", "client", ["accept"]), ("run", None)] + runs(*hc[:cut]) + \
                [("flags", w), ("connect", "client", ["accept"]), ("is",), ("run", None), ("run", "close"), ("run", None), ("flags", w), ("is",), ("release",)]
            S.append(Scenario(ops, "flags:online:%d:%d" % (cut, w)))
    return S


def policy_scenarios(rng, thorough=False):
    """C02: every TLS flag word x what the server offers / answers around STARTTLS and SASL."""
    S = []
    for fl in (0, 1, 2, 4, 8, 2 + 8, 2 + 4, 2 + 16, 16, 1 + 16, 2 + 64):
        for offer_tls in (False, True):
            for mechs in (["PLAIN"], ["SCRAM-SHA-1", "PLAIN"], ["DIGEST-MD5", "PLAIN"], ["ANONYMOUS", "PLAIN"], ["EXTERNAL", "PLAIN"], [],
                          ["PLAIN", "SCRAM-SHA-1"], ["PLAIN", "DIGEST-MD5", "SCRAM-SHA-256"]):
                for answer in ("proceed", "tlsfail", "none", "verdictfail", "tlsnewfail"):
                    if not offer_tls and answer not in ("none",):
                        continue
                    chunks = [["h1"], [features(offer_tls, mechs, tls_required=offer_tls and (len(S) % 3 == 1),
                                                empty_mech_at=(len(S) % 4 if (mechs and len(S) % 2 == 0) else None))]]
                    verdicts, tlsnew = [], 1
                    if answer == "proceed":
                        post = rng.choice([["PLAIN"], mechs, mechs, ["SCRAM-SHA-256", "DIGEST-MD5"], ["PLAIN", "SCRAM-SHA-1"]])
                        chunks += [[PROCEED], ["h1"], [features(False, post)]]
                    elif answer == "tlsfail":
                        chunks += [[simple("tls", "failure")], [features(False, mechs)]]
                    elif answer == "verdictfail":
                        verdicts = [False]
                        chunks += [[PROCEED], ["h1"], [features(False, mechs)]]
                    elif answer == "tlsnewfail":
                        tlsnew = 0
                    # two ways for the server to answer the SASL chain: challenge-then-failure for the mechanisms that have a
                    # challenge, and failure at once (the way EXTERNAL / ANONYMOUS / PLAIN are refused)
                    for chain in ("challenge", "refuse"):
                        if chain == "challenge":
                            tail = [[challenge("scram_ok")], [simple("sasl", "failure")], [challenge("digest_ok")], [simple("sasl", "failure")], [SUCCESS], ["h1"], [features(bind=True)]]
                        else:
                            tail = [[simple("sasl", "failure")], [simple("sasl", "failure")], [simple("sasl", "failure")], [SUCCESS], ["h1"], [features(bind=True)]]
                        cert = int("EXTERNAL" in mechs and (chain == "refuse" or rng.random() < .5))
                        if cert and len(S) % 2 == 1:
                            cert = 2            # PKCS#12: only the certificate argument is set
                        ops = base_ops(flags=fl, cert=cert, tlsnew=tlsnew, verdicts=verdicts) + \
                            [("connect", "client", ["accept"]), ("run", None)] + runs(*(chunks + tail)) + [("clock", 15000), ("run", None), ("run", None), ("is",), ("release",)]
                        S.append(Scenario(ops, "policy:%d:%d:%s:%s:%s" % (fl, offer_tls, "+".join(mechs), answer, chain)))
    if not thorough:
        rng.shuffle(S)
        S = S[:640]
    return S


def run_check(chk, pid, families, n_random):
    """Common driver of C01/C02/C03/C13."""
    chk.assumptions = [
        "elements are abstracted to the alphabet of coq/Model/NegState.v (namespace, name, type, id, payload flags); byte-level parsing is C10's",
        "the transport accepts every write completely in these scenarios (back-pressure is C06's)",
        "TLS is the harness module (verdict scripted); the real tls_openssl.c is C08's",
        "oracle: checks/negsim.py Observer replays the scenario against the canonical implementation trace",
    ]
    chk.prove()
    thorough = chk.tier == "thorough"
    scen = corpus_scenarios()
    labels = ["corpus"] * len(scen)
    for name, fn in families:
        f = fn(chk.rng, thorough)
        scen += f
        labels += [name] * len(f)
    rnd = [gen_scenario(chk.rng) for _ in range(n_random * (12 if thorough else 1))]
    scen += rnd
    labels += ["random"] * len(rnd)
    results = run_scenarios(chk, pid, scen, stream="neg")
    by = {}
    for lab, r in zip(labels, results):
        by.setdefault(lab, []).append(r)
    known = {}
    for lab, rs in by.items():
        judge(chk, pid, rs, lab)
        if pid in ("C13", "C01"):
            for sc, toks, info, mt in rs:
                # C01 looks only at the connections the client has given up on: they must end (not stay wedged)
                if getattr(sc, "expect", None) and not info["crash"] and (pid == "C13" or sc.label.startswith("deadline:close")):
                    judge_deadline(chk, sc, toks)
    for k in range(0, len(results), max(1, len(results) // 6)):
        sc, toks, info, mt = results[k]
        chk.sample({"label": sc.label, "scenario": sc.model_line()[:300], "impl_trace": " ".join(toks)[:400]})
    chk.rule = ("abstract scenarios over the NegModel alphabet: minimised corpus of every defect found, families aimed at the property "
                "(%s), and random scripts (conforming server perturbed by replace/drop/duplicate/insert/close/reset/silence/user-op, "
                "1-3 connect cycles, clock steps around the deadlines); non-trivial = distinct canonical trace longer than 12 tokens"
                % ", ".join(n for n, _ in families))
    return results


def replay_common(pid, path):
    import base64
    import json
    import pickle
    rec = json.load(open(path))
    f = rec.get("failure") or (rec.get("disagreements") or [{}])[0]
    case = f.get("case")
    if not case or "sim" not in case:
        print("replay file names no concrete scenario: %s" % json.dumps(rec.get("broken_obligations"))[:800])
        return 1
    exe = vlib.build_simworld()
    impl = vlib.run_lines(exe, [case["sim"]])[0]
    toks, info = canon_trace(impl, res_text_of(case["sim"]))
    try:
        model = vlib.run_lines(vlib.build_ocaml_model(pid), [case["model_in"]])[0]
    except vlib.BuildError:
        model = "(model unavailable)"
    print("scenario: %s\nimpl    : %s\nmodel   : %s\nend     : %s" % (case["model_in"], " ".join(toks), model, info.get("end")))
    return 0 if " ".join(toks) == model.split(" CHK=")[0] and not info["crash"] else 1
