"""Shared machinery of the C04 / C05 checks (XEP-0198 stream management).

  * scenario language (abstract ops) -> simworld command line + model command line
  * canonicaliser of the simworld trace (per-op token lists)
  * an independent XEP-0198 *server simulator*: it reads what the client wrote on each connection,
    counts stanzas per logical session, produces honest answers (<a h>, <resumed h>, <failed h>, bind result,
    <enabled>) for the symbolic ops of a scenario and judges the property statements on the finished trace.
    It does not use the Coq model.
"""
import re

NS_SM = "urn:xmpp:sm:3"
HDR = ("<?xml version='1.0'?><stream:stream xmlns='jabber:client' xmlns:stream='http://etherx.jabber.org/streams' "
       "id='s1' from='example.com' version='1.0'>")
FEAT1 = ("<stream:features><mechanisms xmlns='urn:ietf:params:xml:ns:xmpp-sasl'><mechanism>PLAIN</mechanism>"
         "</mechanisms></stream:features>")
SUCC = "<success xmlns='urn:ietf:params:xml:ns:xmpp-sasl'/>"
FEAT2 = "<stream:features><bind xmlns='urn:ietf:params:xml:ns:xmpp-bind'/><sm xmlns='urn:xmpp:sm:3'/></stream:features>"
FEAT2_NOSM = "<stream:features><bind xmlns='urn:ietf:params:xml:ns:xmpp-bind'/></stream:features>"
BINDR = ("<iq type='result' id='_xmpp_bind1'><bind xmlns='urn:ietf:params:xml:ns:xmpp-bind'>"
         "<jid>user@example.com/res</jid></bind></iq>")
BIND_REQ = ('<iq id="_xmpp_bind1" type="set"><bind xmlns="urn:ietf:params:xml:ns:xmpp-bind">'
            '<resource>res</resource></bind></iq>')
JID = "user@example.com/res"
PASS = "secret"
STREAM_HDR_OUT = ('<?xml version="1.0"?><stream:stream to="example.com" xml:lang="en" version="1.0" '
                  'xmlns="jabber:client" xmlns:stream="http://etherx.jabber.org/streams">')
U64MAX = (1 << 64) - 1


def hx(s):
    if isinstance(s, str):
        s = s.encode()
    return s.hex() if s else "-"


# ------------------------------------------------------------------------------------------------
# inbound items: (kind, ...) tuples
#   ("st", variant)  ("ot", variant)  ("br",)  ("feat", sm_offered)
#   ("r",)  ("a", h|"bad"|"missing")  ("en", resume_attr, id|None)  ("re", previd|None, h|None|"bad")
#   ("fa", cause in n/i/f/o, h|None|"bad")  ("so",)
# ------------------------------------------------------------------------------------------------
STANZAS_IN = [
    "<message from='peer@example.com/x' id='i%d'><body>hi</body></message>",
    "<presence from='peer@example.com/x' id='i%d'/>",
    "<iq type='get' id='i%d' from='example.com'><ping xmlns='urn:xmpp:ping'/></iq>",
    "<message from='peer@example.com/x' type='chat' id='i%d'><body>a &amp; b</body><x xmlns='urn:example:ext'/></message>",
]
OTHERS_IN = [
    "<foo xmlns='urn:example:foo'/>",
    "<stream:error><policy-violation xmlns='urn:ietf:params:xml:ns:xmpp-streams'/></stream:error>",
    "<stream:unknown a='1'>text</stream:unknown>",
]
CAUSES = {"n": "", "i": "<item-not-found xmlns='urn:ietf:params:xml:ns:xmpp-stanzas'/>",
          "f": "<feature-not-implemented xmlns='urn:ietf:params:xml:ns:xmpp-stanzas'/>",
          "o": "<unexpected-request xmlns='urn:ietf:params:xml:ns:xmpp-stanzas'/>"}


def parse_ul(text):
    """strtoul(text, &end, 10) with *end == 0 as the library's string_to_ul(): the value, or None if the text is not
    entirely a (blank-led, optionally signed) decimal number."""
    m = re.match(r"^[ \t\n\v\f\r]*([+-]?)([0-9]*)$", text)
    if not m or (m.group(2) == "" and text != ""):
        return None
    v = int(m.group(2) or "0")
    if v > U64MAX:
        v = U64MAX
    if m.group(1) == "-":
        v = (-v) % (1 << 64)
    return v


def h_raw(h, legacy_bad):
    """attribute text of an h given as int / "bad" (legacy) / any other str (raw text)"""
    if isinstance(h, int):
        return str(h)
    return legacy_bad if h == "bad" else h


def h_eff(h, legacy_bad="x1"):
    """what a well-behaved parser makes of it: the number, or None when it is not a number"""
    if h is None or h == "missing":
        return None
    if isinstance(h, int):
        return h
    return parse_ul(h_raw(h, legacy_bad))


MALFORMED_H = ["3x", "2 ", "4.0", "1e3", " 2", "+2", "0x2", "1x", "2x", "5 5", "", "3\t"]


def item_xml(it, serial=0):
    k = it[0]
    if k == "st":
        return STANZAS_IN[it[1] % len(STANZAS_IN)] % serial
    if k == "ot":
        return OTHERS_IN[it[1] % len(OTHERS_IN)]
    if k == "br":
        return BINDR
    if k == "feat":
        return FEAT2 if it[1] else FEAT2_NOSM
    if k == "r":
        return "<r xmlns='%s'/>" % NS_SM
    if k == "a":
        if it[1] == "missing":
            return "<a xmlns='%s'/>" % NS_SM
        return "<a xmlns='%s' h='%s'/>" % (NS_SM, h_raw(it[1], "12x"))
    if k == "en":
        return "<enabled xmlns='%s'%s%s/>" % (NS_SM, (" id='%s'" % it[2]) if it[2] is not None else "",
                                              " resume='true'" if it[1] else "")
    if k == "re":
        h = it[2]
        return "<resumed xmlns='%s'%s%s/>" % (NS_SM, (" previd='%s'" % it[1]) if it[1] is not None else "",
                                              "" if h is None else (" h='%s'" % h_raw(h, "x1")))
    if k == "fa":
        h = it[2]
        return "<failed xmlns='%s'%s>%s</failed>" % (NS_SM, "" if h is None else (" h='%s'" % h_raw(h, "x1")),
                                                      CAUSES[it[1]])
    if k == "so":
        return "<foo xmlns='%s'/>" % NS_SM
    raise ValueError(it)


def item_model(it):
    k = it[0]
    if k == "st":
        return "st"
    if k == "ot":
        return "ot"
    if k == "br":
        return "br"
    if k == "feat":
        return "f1" if it[1] else "f0"
    if k == "r":
        return "r"
    if k == "a":
        if it[1] == "missing":
            return "a=missing"
        v = h_eff(it[1], "12x")
        return "a=bad" if v is None else "a=%d" % min(v, (1 << 62) - 1)
    if k == "en":
        return "en=%d=%s" % (1 if it[1] else 0, hx(it[2]) if it[2] is not None else "-")
    if k == "re":
        h = it[2]
        v = h_eff(h)
        return "re=%s=%s" % (hx(it[1]) if it[1] is not None else "-", "-" if v is None else min(v, (1 << 62) - 1))
    if k == "fa":
        h = it[2]
        v = h_eff(h)
        return "fa=%s=%s" % (it[1], "-" if v is None else min(v, (1 << 62) - 1))
    if k == "so":
        return "so"
    raise ValueError(it)


# ------------------------------------------------------------------------------------------------
# ops: ("send", text) ("tx", [items]) ("rx", [items]) ("rxend",) ("rxclose",) ("rxreset",) ("run",)
#      ("connect", cut) with cut in (None, 2, 4, 6) = number of prefix runs executed   ("dump",)
#      ("poke", sent|None, handled|None) smpoke: the harness sets the SM counters (model: CPoke)
#      ("onconnect", [texts]) what the application's connection handler sends on CONNECT (<= 3 short stanzas)
# symbolic ops of the honest stream are resolved to these before a line is produced.
# ------------------------------------------------------------------------------------------------
PREFIX_CMDS = ["connect client", "run", "rx " + hx(HDR), "run", "rx " + hx(FEAT1), "run", "run", "rx " + hx(SUCC), "run", "run",
               "rx " + hx(HDR), "run"]
PREFIX_RUNS = 7
INIT_CMDS = ["conn", "jid " + hx(JID), "pass " + hx(PASS), "smcb"]


def prefix_cmds(cut):
    if cut is None:
        return list(PREFIX_CMDS)
    out, runs = [], 0
    for c in PREFIX_CMDS:
        out.append(c)
        if c == "run":
            runs += 1
            if runs == cut:
                break
    return out


def user_text(n, pad=0):
    return '<message id="m%d" to="peer@example.com"><body>%s</body></message>' % (n, "x" * pad)


def op_sim(op, serial):
    k = op[0]
    if k == "send":
        return ["send " + hx(op[1])]
    if k == "tx":
        return ["tx " + ",".join(op[1])]
    if k == "rx":
        return ["rx " + hx("".join(item_xml(it, serial + i) for i, it in enumerate(op[1])))]
    if k == "rxend":
        return ["rx " + hx("</stream:stream>")]
    if k == "rxclose":
        return ["rxclose"]
    if k == "rxreset":
        return ["rxreset"]
    if k == "run":
        return ["run"]
    if k == "connect":
        return prefix_cmds(op[1])
    if k == "dump":
        return ["dumpq"]
    if k == "onconnect":
        return ["onconnect " + (",".join("send:" + hx(t) for t in op[1]) if op[1] else "-")]
    if k == "poke":
        return ["smpoke %s %s" % ("-" if op[1] is None else op[1], "-" if op[2] is None else op[2])]
    raise ValueError(op)


def op_model(op):
    k = op[0]
    if k == "send":
        return ["S " + hx(op[1])]
    if k == "tx":
        return ["T " + ",".join(op[1])]
    if k == "rx":
        return ["X i:" + ",".join(item_model(it) for it in op[1])]
    if k == "rxend":
        return ["X end"]
    if k == "rxclose":
        return ["X close"]
    if k == "rxreset":
        return ["X reset"]
    if k == "run":
        return ["R"]
    if k == "connect":
        return ["C"]
    if k == "dump":
        return ["D"]
    if k == "onconnect":
        return ["O " + (",".join(hx(t) for t in op[1]) if op[1] else "-")]
    if k == "poke":
        return ["P %s %s" % ("-" if op[1] is None else op[1], "-" if op[2] is None else op[2])]
    raise ValueError(op)


def sim_line(ops):
    cmds = list(INIT_CMDS)
    serial = 0
    for op in ops:
        cmds += op_sim(op, serial)
        serial += 10
        cmds.append("qlen")          # emits L=<n>: one delimiter per op
    return ";".join(cmds)


def model_line(ops):
    cmds = ["B " + hx(BIND_REQ)]
    for op in ops:
        cmds += op_model(op)
        cmds.append("L")
    return ";".join(cmds)


# ------------------------------------------------------------------------------------------------
# canonical trace: list (one per op) of token lists
# ------------------------------------------------------------------------------------------------
_DELIM = re.compile(r"L=-?\d+ ")


def split_impl(trace):
    """Per-op raw segments of a simworld trace (None if the scenario crashed)."""
    if trace.startswith("CRASH"):
        return None
    segs = _DELIM.split(trace)
    return segs[:-1], segs[-1]          # the tail (release at end of scenario) is not part of any op


def canon_impl_seg(op, seg):
    toks = []
    for t in seg.split():
        if t == "|" or t.startswith(("Q:", "G:", "R=")) or re.match(r"C\d+:", t):
            continue
        if re.match(r"X\d+$", t):
            continue
        if t.startswith("E0:connect"):
            toks.append("E:connect")
        elif t.startswith("E0:disconnect"):
            toks.append("E:disconnect")
        elif t.startswith("SM0:"):
            toks.append("SM:" + t[4:])
        elif t.startswith("Q[") or t.startswith("SMQ["):
            toks.append(re.sub(r",wip=\d", "", t))
        elif re.match(r"W\d+:", t):
            toks.append(t)
        else:
            toks.append("?" + t)
    if op[0] == "connect":
        # the fixed negotiation prefix is not modelled: keep only what must not happen silently
        toks = [t for t in toks if t.startswith("E:") or t.startswith("?")]
    return toks


def canon_impl(ops, trace):
    sp = split_impl(trace)
    if sp is None:
        return None
    segs, _tail = sp
    return [canon_impl_seg(op, seg) for op, seg in zip(ops, segs)] + [["?missing-segment"]] * max(0, len(ops) - len(segs))


def canon_model(ops, out):
    segs = out.split("|")
    res = [s.split() for s in segs]
    if res and res[-1] == []:
        res = res[:-1]
    return res


# ------------------------------------------------------------------------------------------------
# wire parsing
# ------------------------------------------------------------------------------------------------
class WireParser:
    """Splits what the client wrote on one connection into top-level elements."""

    def __init__(self):
        self.buf = b""
        self.elements = []        # complete top-level elements (bytes), stream headers as b"<stream>"
        self.depth = 0
        self.start = None

    def feed(self, data):
        self.buf += data
        while True:
            el = self._next()
            if el is None:
                break
            self.elements.append(el)

    def _next(self):
        b = self.buf
        i = 0
        depth = 0
        start = None
        n = len(b)
        while i < n:
            if b[i:i + 1] != b"<":
                i += 1
                continue
            # find the end of the tag, honouring quotes
            j = i + 1
            q = None
            while j < n:
                c = b[j:j + 1]
                if q:
                    if c == q:
                        q = None
                elif c in (b'"', b"'"):
                    q = c
                elif c == b">":
                    break
                j += 1
            if j >= n:
                return None
            tag = b[i:j + 1]
            if tag.startswith(b"<?"):
                if depth == 0:
                    self.buf = b[j + 1:]
                    return self._next()
            elif tag.startswith(b"<stream:stream") and depth == 0:
                self.buf = b[j + 1:]
                return b"<stream>"
            elif tag.startswith(b"</stream:stream") and depth == 0:
                self.buf = b[j + 1:]
                return b"</stream>"
            elif tag.startswith(b"</"):
                depth -= 1
                if depth == 0:
                    el = b[start:j + 1]
                    self.buf = b[j + 1:]
                    return el
            elif tag.endswith(b"/>"):
                if depth == 0:
                    self.buf = b[j + 1:]
                    return b[i:j + 1]
            else:
                if depth == 0:
                    start = i
                depth += 1
            i = j + 1
        return None


def classify_out(el):
    """Kind of an element written by the client."""
    if el in (b"<stream>", b"</stream>"):
        return el.decode()
    m = re.match(rb"<([A-Za-z:_-]+)", el)
    name = m.group(1).decode() if m else "?"
    if NS_SM.encode() in el.split(b">")[0]:
        return "sm:" + name
    if name == "auth":
        return "auth"
    if name == "iq" and b'id="_xmpp_bind1"' in el:
        return "bind"
    return "stanza"


def attr(el, name):
    m = re.search((r'\b%s=["\']([^"\']*)["\']' % name).encode(), el.split(b">")[0])
    return m.group(1).decode() if m else None


def parse_blob(hexs):
    """Decode an SM callback blob into (sent, handled, id, [send queue texts], [(h, text)])."""
    if hexs == "null":
        return None
    b = bytes.fromhex(hexs)
    pos = 0

    def u32(tag):
        nonlocal pos
        assert b[pos] == tag, (pos, b[pos], tag)
        v = int.from_bytes(b[pos + 1:pos + 5], "big")
        pos += 5
        return v

    def st():
        nonlocal pos
        n = u32(0x7a)
        s = b[pos:pos + n]
        pos += n
        return s
    assert u32(0x1a) == 0
    sent = u32(0x1a)
    handled = u32(0x1a)
    sid = st()
    nq = u32(0x9a)
    q = [st() for _ in range(nq)]
    ns = u32(0xba)
    smq = []
    for _ in range(ns):
        h = u32(0x1a)
        smq.append((h, st()))
    assert pos == len(b)
    return sent, handled, sid, q, smq


# ------------------------------------------------------------------------------------------------
# the XEP-0198 server simulator / oracle
# ------------------------------------------------------------------------------------------------
M32 = 1 << 32


def short(el):
    return el[:56].decode("latin1")


class Session:
    """One logical stream-management session as the server sees it."""

    def __init__(self):
        self.sid = None
        self.resumable = False
        self.established = False  # <enabled/> sent
        self.recv = []            # stanzas counted, in order (cut back to h when the server reports <resumed h>/<failed h>)
        self.acked = 0            # highest h this server has reported for the session
        self.out = 0              # stanzas sent to the client since <enabled/>
        self.base = 0             # number of the first stanza of `recv` (non-zero only after `smpoke`)
        self.alive = True         # may still be resumed


class Verdicts:
    def __init__(self):
        self.c04 = []             # (what, detail): C04 fails here
        self.c05 = []
        self.dishonest = []       # the scripted server itself broke XEP-0198: nothing is demanded of the client afterwards
        self.known = []           # losses inside the known class C04-resend-lost-on-reconnect
        self.stats = {}

    def bump(self, k, n=1):
        self.stats[k] = self.stats.get(k, 0) + n


class ServerSim:
    """Replays a scenario and the implementation's trace from the server's side of the wire.

    Client internals are looked at only where the property names them as observable: the counters and
    sm_h values shown by `dumpq` (the same numbers the SM callback blob carries)."""

    def __init__(self):
        self.v = Verdicts()
        self.conn = -1
        self.alive = False               # TCP connection up
        self.parser = None
        self.sm_on = False               # the server counts inbound stanzas on this connection
        self.awaiting = None             # ("bind",) ("enable", resume_requested) ("resume", previd, h)
        self.sess = None                 # logical session the current connection belongs to / last suspended one
        self.sessions = []
        self.r_expected = []             # h values the client has to answer with on this connection
        self.a_seen = 0
        self.plain = []                  # stanzas received outside SM
        self.counted = []                # every stanza ever counted on an SM session, first time only, in order
        self.owed = []                   # counted once, not reported handled, not part of the live session: must come again
        self.expect = []                 # ... and these are due right now, in this order, before anything new
        self.requeued = set()            # owed stanzas the client has been told (by <resumed/>/<enabled/>) to send again
        self.negotiated = False          # client has got <enabled/>, <resumed/> or a non-SM bind result on this connection
        self.binds = 0
        self.stream_closed = False
        self.known_lost = []
        self.last_blob, self.poked = None, False     # newest non-empty blob; counters set behind the library's back since
        self.blob_handled = {0}          # inbound counts the application has been shown in a blob (or that `poke` put there)

    # -- what the client wrote -----------------------------------------------------------------------
    def ingest(self, seg):
        if self.parser is None:
            return
        for t in seg.split():
            if t.startswith("SM0:"):
                # the blob handed to the application is the other place where the property lets `h` be observed
                try:
                    bl = parse_blob(t[4:])
                except (AssertionError, ValueError, IndexError):
                    bl = None
                if bl is not None:
                    self.blob_handled.add(bl[1])
                    self.last_blob, self.poked = bl, False
                continue
            m = re.match(r"W(\d+):([0-9a-f]+)$", t)
            if not m:
                continue
            before = len(self.parser.elements)
            self.parser.feed(bytes.fromhex(m.group(2)))
            for el in self.parser.elements[before:]:
                self.client_element(el)

    def client_element(self, el):
        k = classify_out(el)
        v = self.v
        if k in ("<stream>", "auth", "</stream>"):
            return
        if k == "bind":
            self.binds += 1
            if self.binds > 1 or self.negotiated:
                v.c04.append(("duplicate", "the bind request is written a second time on one connection"))
            self.awaiting = ("bind",)
            if self.sm_on:
                self.count_stanza(el)
            return
        if k == "sm:enable":
            self.awaiting = ("enable", attr(el, "resume") in ("true", "1"))
            self.close_session()             # a client that enables anew has given the old session up
            self.sm_on = True                # the server counts from here on
            self.sess = Session()
            self.sessions.append(self.sess)
            return
        if k == "sm:resume":
            self.awaiting = ("resume", attr(el, "previd"), attr(el, "h"))
            v.bump("resume-requests")
            lb = self.last_blob
            if (lb is not None and not self.poked and not v.dishonest and (attr(el, "h") or "").isdigit()
                    and lb[2].decode("latin1") == attr(el, "previd") and lb[1] != int(attr(el, "h"))):
                v.c05.append(("blob-h", "<resume h=%s/> from the live object, but the newest blob the application was given for that session "
                                        "carries inbound count %d (restored from it, the client would report that)" % (attr(el, "h"), lb[1])))
            s = self.find_session(attr(el, "previd"))
            if s is not None and not v.dishonest:
                if attr(el, "h") != str(s.out % M32):
                    v.c05.append(("resume-h", "<resume h=%s/>, the server has sent %d stanzas on that session" % (attr(el, "h"), s.out)))
            return
        if k == "sm:a":
            h = attr(el, "h")
            if self.a_seen < len(self.r_expected):
                exp = self.r_expected[self.a_seen]
                if h != str(exp % M32) and not v.dishonest:
                    v.c05.append(("a-value", "answer no. %d carries h=%s, the server had sent %d stanzas before that <r/>" % (self.a_seen + 1, h, exp)))
            elif not v.dishonest:
                v.c05.append(("a-unsolicited", "client wrote <a h=%s/> without an outstanding <r/>" % h))
            ss = self.sess         # (only a resumable session has a blob: nothing else could be restored)
            if (not v.dishonest and ss is not None and ss.established and ss.resumable and ss.alive and h is not None and h.isdigit()
                    and int(h) not in self.blob_handled):
                v.c05.append(("blob-h", "client answers <a h=%s/> but no blob given to the application ever carried that inbound count "
                                        "(a session restored from the newest blob would resume with another h)" % h))
            self.a_seen += 1
            v.bump("a-answers")
            return
        if k == "sm:r":
            v.bump("client-r")
            return
        if k == "stanza":
            if self.sm_on and self.sess is not None:
                self.count_stanza(el)
            else:
                self.plain.append(el)
                if el in self.owed:          # delivered after all, on a session without SM
                    self.owed.remove(el)

    def count_stanza(self, el):
        s = self.sess
        v = self.v
        if not v.dishonest:
            if self.expect:
                if el == self.expect[0]:
                    self.expect.pop(0)
                    v.bump("retransmitted")
                else:
                    v.c04.append(("resend-order", "%s is due for retransmission before anything new, the client wrote %s first" % (short(self.expect[0]), short(el))))
                    if el in self.expect:
                        self.expect.remove(el)
            if el in s.recv:
                v.c04.append(("duplicate", "%s is counted twice on one logical session" % short(el)))
            for ses in self.sessions:
                if el in ses.recv[:ses.acked]:
                    v.c04.append(("resent-after-report", "%s had been reported as handled and is written again" % short(el)))
                    break
        if el in self.owed:
            self.owed.remove(el)
        s.recv.append(el)
        if el not in self.counted:
            self.counted.append(el)

    # -- sessions ----------------------------------------------------------------------------------
    def find_session(self, sid):
        for c in reversed(self.sessions):
            if c.alive and c.established and c.resumable and c.sid == sid:
                return c
        return None

    def close_session(self):
        """The current logical session is over: what it never reported is owed to the next one."""
        s = self.sess
        if s is not None and s.alive:
            s.alive = False
            self.owed += [e for e in s.recv[s.acked:] if e not in self.owed]
            s.recv = s.recv[:s.acked]

    def connection_down(self, orderly):
        self.alive = False
        self.sm_on = False
        self.awaiting = None
        self.negotiated = False
        # retransmissions that were due (the client had re-queued them) but did not make it before the connection
        # went away: the next connect frees the send queue, they never come again (known class)
        for e in self.expect:
            if e not in self.known_lost:
                self.known_lost.append(e)
                self.v.known.append(("lost-after-requeue", "%s had been written and was re-queued after <resumed/>/<enabled/>; the "
                                     "connection was lost before it was written again and the next connect discards it" % short(e)))
        self.owed = [e for e in self.owed if e not in self.expect]
        self.expect = []
        s = self.sess
        if s is not None and s.alive and (orderly or not s.resumable or not s.established):
            self.close_session()

    # -- scenario ops ------------------------------------------------------------------------------
    def op(self, op, seg):
        k = op[0]
        if k == "connect":
            if self.alive:
                return
            self.conn += 1
            self.parser = WireParser()
            self.alive = True
            self.sm_on = False
            self.awaiting = None
            self.r_expected = []
            self.a_seen = 0
            self.negotiated = False
            self.binds = 0
            self.stream_closed = False
            self.ingest(seg)
            if "E0:disconnect" in seg:
                self.connection_down(False)
            return
        self.ingest(seg)
        if not self.alive:
            return
        if "E0:disconnect" in seg:
            self.connection_down(self.stream_closed)
            return
        if k == "rxend":
            self.stream_closed = True        # the server closes the stream: the session is over
        if k == "poke":
            self.poked = True
            if op[2] is not None:
                self.blob_handled.add(op[2] % M32)
            s = self.sess
            if self.sm_on and s is not None and s.established and s.alive:
                if op[2] is not None:
                    s.out = op[2]
                if op[1] is not None:
                    s.base = op[1] - len(s.recv)
            return
        if k == "rx":
            for it in op[1]:
                self.server_sends(it)

    def server_sends(self, it):
        v = self.v
        k = it[0]
        s = self.sess
        live = self.sm_on and s is not None and s.established and s.alive
        if k == "br":
            if self.awaiting != ("bind",):
                v.dishonest.append("bind result without request")
            self.awaiting = None
            if live:
                s.out += 1
            return
        if k == "st":
            if live:
                s.out += 1
            elif self.sm_on:
                v.dishonest.append("stanza before <enabled/>")
            return
        if k in ("ot", "feat"):
            return
        if k == "r":
            if live:
                self.r_expected.append(s.out)
            else:
                v.dishonest.append("<r/> outside an established SM session")
            return
        if k == "a":
            h = h_eff(it[1], "12x")
            if not live:
                v.dishonest.append("<a/> outside an established SM session")
            elif h is None or not (0 <= h - s.base <= len(s.recv)):
                v.dishonest.append("<a h=%r/> but the server has counted %d" % (it[1], s.base + len(s.recv)))
            else:
                s.acked = max(s.acked, h - s.base)
                v.bump("acks")
            return
        if k == "en":
            if not (self.awaiting and self.awaiting[0] == "enable") or (it[1] and it[2] is None):
                v.dishonest.append("<enabled/> that no server would send here")
                return
            s.sid = it[2]
            s.resumable = bool(it[1])
            s.established = True
            s.out = 0
            self.awaiting = None
            self.negotiated = True
            self.expect = list(self.owed)          # everything still owed comes first, in order
            self.requeued.update(self.owed)
            v.bump("enabled")
            v.bump("enabled-with-owed" if self.owed else "enabled-clean")
            return
        if k == "re":
            old = self.find_session(self.awaiting[1]) if (self.awaiting and self.awaiting[0] == "resume") else None
            h = h_eff(it[2])
            if h is not None and old is not None:
                h -= old.base
            if old is None or it[1] != self.awaiting[1] or h is None or not (old.acked <= h <= len(old.recv)):
                v.dishonest.append("<resumed previd=%s h=%r/> is not what this server could say" % (it[1], it[2]))
                return
            tail = old.recv[h:]
            old.recv = old.recv[:h]
            old.acked = h
            self.sess = old
            self.sm_on = True
            self.awaiting = None
            self.negotiated = True
            self.expect = tail + [e for e in self.owed if e not in tail]
            self.owed = list(self.expect)
            self.requeued.update(self.expect)
            v.bump("resumed")
            v.bump("resumed-with-tail" if tail else "resumed-no-tail")
            return
        if k == "fa":
            if not self.awaiting or self.awaiting[0] not in ("resume", "enable"):
                v.dishonest.append("<failed/> without request")
                return
            if self.awaiting[0] == "resume":
                old = self.find_session(self.awaiting[1])
                h = h_eff(it[2])          # a text that is not a number reports nothing
                if old is not None:
                    if h is not None:
                        h -= old.base
                        if not (old.acked <= h <= len(old.recv)):
                            v.dishonest.append("<failed h=%r/> outside [%d,%d]" % (it[2], old.acked, len(old.recv)))
                            return
                        old.acked = h
                    self.sess = old
                    self.close_session()
                v.bump("failed")
                v.bump("failed-with-h" if h is not None else ("failed-malformed-h" if it[2] is not None else "failed-without-h"))
            else:
                if s is not None:
                    s.alive = False
                self.sm_on = False
                self.negotiated = True
                v.bump("enable-refused")
            self.awaiting = None
            return
        if k == "so":
            v.dishonest.append("unknown SM element")

    # -- observations named by the property (dumpq) -------------------------------------------------
    def observe(self, toks):
        v = self.v
        if v.dishonest:
            return
        q = [t for t in toks if t.startswith("Q[")]
        sq = [t for t in toks if t.startswith("SMQ[")]
        if not q or not sq:
            return
        m = re.match(r"SMQ\[sent=(\d+),handled=(\d+),en=(\d):(.*)\]$", sq[0])
        sent, handled, en = int(m.group(1)), int(m.group(2)), int(m.group(3))
        hs = [int(x) for x in re.findall(r"\(h=(\d+),", m.group(4))]
        s = self.sess
        if not (en and s is not None and s.established and s.alive and self.sm_on and self.alive and self.negotiated):
            return
        v.bump("observed-live")
        if handled != s.out % M32:
            v.c05.append(("handled-count", "client says handled=%d, the server has sent %d stanzas on the session" % (handled, s.out)))
        if sent != (s.base + len(s.recv)) % M32:
            v.c04.append(("count-out-of-step", "client sm_sent_nr=%d, the server has counted %d on this session" % (sent, s.base + len(s.recv))))
        exp = [(s.base + x) % M32 for x in range(s.acked, len(s.recv))]
        if hs != exp:
            v.c04.append(("retained", "SM queue holds h=%s, the unreported stanzas are no. %s (server reported %d of %d)"
                          % (hs[:12], exp[:12], s.acked, len(s.recv))))

    # -- end of scenario ---------------------------------------------------------------------------
    def finish(self, drained):
        """drained: the scenario ended with an honest drain (live SM session, every write accepted, final <a/>)."""
        v = self.v
        if v.dishonest or not drained:
            return v
        if not (self.sess is not None and self.sess.established and self.sess.alive and self.alive and self.sm_on):
            return v
        v.bump("drained")
        delivered = set(self.plain)
        for s in self.sessions:
            delivered.update(s.recv)
        for el in self.counted:
            if el not in delivered and el not in self.known_lost:
                v.c04.append(("lost", "%s was written on an SM session, not reported as handled, and never comes again" % short(el)))
        if self.a_seen < len(self.r_expected):
            v.c05.append(("r-unanswered", "%d <r/> sent on the connection, %d <a/> received" % (len(self.r_expected), self.a_seen)))
        return v


def judge(ops, trace, drained):
    """Run the server simulator over a finished scenario. Returns Verdicts (None if the implementation crashed)."""
    sp = split_impl(trace)
    if sp is None:
        return None
    segs, _ = sp
    sim = ServerSim()
    for op, seg in zip(ops, segs):
        sim.op(op, seg)
        if op[0] == "dump":
            sim.observe(canon_impl_seg(op, seg))
    return sim.finish(drained), sim


# ------------------------------------------------------------------------------------------------
# scenario generators
# ------------------------------------------------------------------------------------------------
NEG_FIRST = [("connect", None), ("rx", [("feat", True)]), ("run",), ("run",), ("rx", [("br",)]), ("run",), ("run",)]
SCHED = ["all", "all", "all", "k1", "k5", "k20", "k60", "k100", "again", "k0"]


class Gen:
    def __init__(self, rng):
        self.rng = rng
        self.n = 0
        self.sid = 0

    def send(self):
        self.n += 1
        return ("send", user_text(self.n, self.rng.choice([0, 0, 3, 10, 30, 90])))

    def new_id(self):
        self.sid += 1
        return "SM%d" % self.sid

    def onconnect(self, p=0.45):
        """what the application's connection handler submits on the next CONNECT (fresh texts every time)"""
        texts = []
        if self.rng.random() < p:
            for _ in range(self.rng.choice([1, 1, 2, 3])):
                self.cn = getattr(self, "cn", 0) + 1
                texts.append('<message id="c%d" to="p@e"/>' % self.cn)
        return ("onconnect", texts)

    def tx(self, allow_err=False):
        items = [self.rng.choice(SCHED + (["err"] if allow_err and self.rng.random() < 0.08 else [])) for _ in range(self.rng.randrange(1, 4))]
        return ("tx", items)


def gen_honest(rng, max_reconnects=4):
    """Scenario with a well-behaved server; ("sym", ...) ops are resolved against the implementation's own output."""
    g = Gen(rng)
    ops = [g.onconnect()] + list(NEG_FIRST)
    ops += [("rx", [("en", rng.random() < 0.9, g.new_id())]), ("run",)]
    if rng.random() < 0.2:
        # counter values that traffic cannot reach: 10-digit h, the sign bit, the 2^32 wrap of the inbound count
        # (the outbound count is only moved to values below the wrap: the client compares sm_h with h as plain numbers)
        ops += [("poke", rng.choice([None, None, 999999998, 2147483646]), rng.choice([999999998, 2147483646, 4294967290]))]
    nrec = rng.randrange(1, max_reconnects + 1)
    for phase in range(nrec + 1):
        # live phase
        for _ in range(rng.randrange(2, 12)):
            r = rng.random()
            if r < 0.35:
                ops.append(g.send())
            elif r < 0.47:
                ops.append(g.tx())
            elif r < 0.65:
                ops.append(("run",))
            elif r < 0.75:
                ops += [("rx", [rng.choice([("st", rng.randrange(4)), ("st", rng.randrange(4)), ("ot", rng.randrange(3))])
                                for _ in range(rng.choice([1, 1, 2, 3]))]), ("run",)]
            elif r < 0.83:
                ops += [("sym", "r"), ("run",)]
            elif r < 0.95:
                ops += [("sym", "ack", rng.choice([0, 0, 0, 1, 1, 2, 3])), ("run",)]
            else:
                ops.append(("dump",))
        if rng.random() < 0.5:
            ops.append(("dump",))
        if phase == nrec:
            break
        # the connection goes away
        r = rng.random()
        if r < 0.15:
            ops += [("rxend",), ("run",)]
        else:
            if rng.random() < 0.4:
                ops.append(g.send())
                if rng.random() < 0.5:
                    ops.append(("tx", [rng.choice(["k1", "k5", "k20", "again", "all"])]))
            ops += [rng.choice([("rxreset",), ("rxclose",)]), ("run",)]
        if rng.random() < 0.3:
            ops.append(("dump",))
        # reconnect, possibly losing the connection once more during the negotiation
        if rng.random() < 0.12:
            ops += [("connect", rng.choice([2, 4, 6])), ("rxreset",), ("run",)]
        ops += reconnect_ops(rng, g)
        if rng.random() < 0.15:
            # the connection dies right after the server's answer, before what was re-queued is written again
            # (the window of the known class C04-resend-lost-on-reconnect)
            cutpoint = max(i for i, o in enumerate(ops) if o[0] == "sym" and o[1] == "reply")
            first = min(i for i, o in enumerate(ops) if o[0] == "sym" and o[1] == "reply" and i > len(ops) - 16)
            ops = ops[:first + 1] + [("tx", ["again", "again"]), ("run",), rng.choice([("rxreset",), ("rxclose",)]), ("run",)]
            ops += reconnect_ops(rng, g)
    # write schedules queued earlier on this connection are still in force during the drain (one token per send() call):
    # give the drain as many extra iterations as there can be tokens left, so that "every write accepted" is true of it
    last = max(i for i, o in enumerate(ops) if o[0] == "connect")
    pending = sum(len(o[1]) for o in ops[last:] if o[0] == "tx")
    ops += drain_ops(rng, g, pending)
    return ops


def reconnect_ops(rng, g, modes=None):
    sm = rng.random() < 0.93
    ops = [g.onconnect(), ("connect", None), ("rx", [("feat", sm)]), ("run",), ("run",)]
    mode = rng.choice(modes or ["resumed", "resumed", "resumed", "failed_h", "failed", "fni", "failed_o", "failed_badh"])
    # a connection loss right after the answer: the window of the known class
    for i in range(3):
        ops += [("sym", "reply", mode, rng.choice([0, 0, 1, 1, 2, 3, 5]), rng.random() < 0.9, g.new_id())]
        if i == 0 and rng.random() < 0.15:
            ops += [("tx", [rng.choice(["again", "k1", "k30", "all"])] * rng.randrange(1, 3))]
        ops += [("run",)]
        if rng.random() < 0.1:
            ops += [("dump",)]
        ops += [("run",)]
    return ops


def drain_ops(rng, g, extra=0):
    """Bring the session to rest: live SM session, every write accepted, final acknowledgement."""
    ops = [("sym", "ensure-live", g.new_id())]
    ops += [("run",)] * extra
    ops += [("run",), ("run",), ("run",), ("dump",), ("sym", "ack", 0), ("run",), ("run",), ("dump",)]
    return ops


def resolve_sym(op, sim, rng_unused=None):
    """Concrete ops for a symbolic op, given the server simulator's state after everything before it."""
    kind = op[1]
    s = sim.sess
    live = sim.alive and sim.sm_on and s is not None and s.established and s.alive and sim.negotiated
    if kind == "r":
        return [("rx", [("r",)])] if live else [("run",)]
    if kind == "ack":
        return [("rx", [("a", s.base + max(s.acked, len(s.recv) - op[2]))])] if live else [("run",)]
    if kind == "reply":
        mode, delta, resumable, new_id = op[2], op[3], op[4], op[5]
        aw = sim.awaiting
        if not sim.alive or aw is None:
            return [("run",)]
        if aw[0] == "bind":
            return [("rx", [("br",)])]
        if aw[0] == "enable":
            return [("rx", [("en", resumable, new_id)])]
        if aw[0] == "resume":
            old = sim.find_session(aw[1])
            if old is None:
                return [("rx", [("fa", "i", None)])]
            h = old.base + max(old.acked, len(old.recv) - delta)
            if mode == "resumed":
                return [("rx", [("re", aw[1], h)])]
            if mode == "failed_h":
                return [("rx", [("fa", "i", h)])]
            if mode == "failed_badh":        # a text with a plausible numeric prefix: it reports nothing
                return [("rx", [("fa", "i", "%d%s" % (max(1, h - old.base), ["x", " ", ".0", "e3", "x2"][delta % 5]))])]
            if mode == "fni":
                return [("rx", [("fa", "f", None)])]
            if mode == "failed_o":
                return [("rx", [("fa", "o", None)])]
            return [("rx", [("fa", "i", None)])]
        return [("run",)]
    if kind == "ensure-live":
        if live:
            return [("run",)]
        out = []
        if sim.alive:
            out += [("rxreset",), ("run",)]
        out += [("onconnect", []), ("connect", None), ("rx", [("feat", True)]), ("run",), ("run",)]
        for i in range(3):
            out += [("sym", "reply", "resumed", 0, True, "%s-%d" % (op[2], i)), ("run",), ("run",)]
        return out
    raise ValueError(op)


def first_sym(ops):
    for i, op in enumerate(ops):
        if op[0] == "sym":
            return i
    return None


def resolve_all(scenarios, run_impl, max_rounds=80):
    """Lock-step resolution of the symbolic ops: run the concrete prefix on the implementation, let the server
    simulator look at what the client wrote, fill in the next server action."""
    scenarios = [list(o) for o in scenarios]
    rounds = 0
    runs = 0
    while rounds < max_rounds:
        todo = [(k, first_sym(o)) for k, o in enumerate(scenarios)]
        todo = [(k, i) for k, i in todo if i is not None]
        if not todo:
            break
        rounds += 1
        traces = run_impl([sim_line(scenarios[k][:i]) for k, i in todo])
        runs += len(todo)
        for (k, i), tr in zip(todo, traces):
            ops = scenarios[k]
            sp = split_impl(tr)
            if sp is None:
                # the implementation crashed on the prefix: drop the rest, the concrete prefix is the case
                scenarios[k] = ops[:i]
                continue
            sim = ServerSim()
            for op, seg in zip(ops[:i], sp[0]):
                sim.op(op, seg)
            scenarios[k] = ops[:i] + resolve_sym(ops[i], sim) + ops[i + 1:]
    for k, o in enumerate(scenarios):
        i = first_sym(o)
        if i is not None:
            scenarios[k] = o[:i]
    return scenarios, rounds, runs


def gen_adversarial(rng, nops=40):
    """Anything goes: every kind of element with any h at any time, write errors, losses everywhere."""
    g = Gen(rng)
    ids = ["SM1", "S2", "X3"]
    ops = list(NEG_FIRST) + [("rx", [("en", True, rng.choice(ids))]), ("run",)] if rng.random() < 0.8 else [("connect", None)]

    def rand_h():
        if rng.random() < 0.2:
            return rng.choice(MALFORMED_H + ["%d%s" % (rng.randrange(0, 7), rng.choice(["x", " ", ".0", "e3"]))])
        return rng.choice([0, 1, 2, 3, 4, 5, 6, 8, 10, 4294967295, 4294967296, 4294967297, 4294967290, (1 << 62) - 1, rng.randrange(0, 12)])

    def rand_item():
        r = rng.random()
        if r < 0.25:
            return ("st", rng.randrange(4))
        if r < 0.32:
            return ("ot", rng.randrange(3))
        if r < 0.45:
            return ("r",)
        if r < 0.62:
            return ("a", rng.choice([rand_h(), rand_h(), rand_h(), "bad", "missing"]))
        if r < 0.68:
            return ("br",)
        if r < 0.73:
            return ("feat", rng.random() < 0.8)
        if r < 0.80:
            return ("en", rng.random() < 0.8, rng.choice(ids + [None]))
        if r < 0.88:
            return ("re", rng.choice(ids + ids + [None]), rng.choice([rand_h(), rand_h(), None, "bad"]))
        if r < 0.97:
            return ("fa", rng.choice("niifo"), rng.choice([rand_h(), None, None, "bad"]))
        return ("so",)
    connected = True
    for _ in range(nops):
        r = rng.random()
        if rng.random() < 0.06:
            ops.append(g.onconnect(0.8))
        if not connected:
            if r < 0.7:
                cut = rng.choice([None, None, None, None, 2, 4, 6])
                ops.append(("connect", cut))
                connected = True
                if cut is not None:
                    ops += [rng.choice([("rxreset",), ("rxclose",)]), ("run",)]
                    connected = False
                elif rng.random() < 0.8:
                    ops += [("rx", [("feat", rng.random() < 0.85)]), ("run",), ("run",)]
            elif r < 0.85:
                ops.append(g.send())
            else:
                ops.append(("dump",))
            continue
        if r < 0.25:
            ops.append(g.send())
        elif r < 0.40:
            ops.append(g.tx(allow_err=True))
        elif r < 0.60:
            ops.append(("run",))
        elif r < 0.85:
            ops += [("rx", [rand_item() for _ in range(rng.choice([1, 1, 1, 2, 3]))]), ("run",)]
        elif r < 0.90:
            ops += [rng.choice([("rxreset",), ("rxclose",), ("rxend",)]), ("run",)]
            connected = False
        else:
            ops.append(("dump",))
        if rng.random() < 0.15:
            ops.append(("dump",))
    ops.append(("dump",))
    return ops


def scenario_key(ops):
    """What makes a scenario distinct and non-trivial: the sequence of op kinds / server actions (texts aside)."""
    out = []
    for op in ops:
        if op[0] == "rx":
            out.append("rx:" + ",".join("%s%s" % (it[0], "" if len(it) < 2 else ":" + str(it[1])[:6]) for it in op[1]))
        elif op[0] == "tx":
            out.append("tx:" + ",".join(op[1]))
        elif op[0] == "send":
            out.append("s%d" % len(op[1]))
        elif op[0] == "onconnect":
            out.append("oc%d" % len(op[1]))
        elif op[0] == "poke":
            out.append("poke%s/%s" % (op[1], op[2]))
        else:
            out.append(op[0] + (str(op[1]) if len(op) > 1 else ""))
    return " ".join(out)


def ops_to_text(ops):
    import json
    return json.dumps(ops)


def ops_from_text(t):
    import json

    def tup(x):
        if isinstance(x, list):
            return [tup(y) for y in x]
        return x
    raw = json.loads(t)
    ops = []
    for op in raw:
        if op[0] == "rx":
            ops.append(("rx", [tuple(it) for it in op[1]]))
        elif op[0] in ("tx", "onconnect"):
            ops.append((op[0], list(op[1])))
        else:
            ops.append(tuple(op))
    return ops


# ------------------------------------------------------------------------------------------------
# the check (shared by C04.py and C05.py; `pid` selects which verdicts count)
# ------------------------------------------------------------------------------------------------
KNOWN_ID = "C04-resend-lost-on-reconnect"
KNOWN_ENTRY = {
    "property": "C04", "id": KNOWN_ID, "status": "known", "class": "lost-after-requeue",
    "what": ("stanzas re-queued by _sm_queue_resend (after <resumed/> or <enabled/>) exist only in the send queue; if the "
             "connection is lost before they are written again, the next connect (_conn_reset) frees the send queue and "
             "these written-but-unacknowledged stanzas are lost"),
    "witness": "corpus/C04.txt: known-requeue-loss",
}


def load_corpus(pid):
    import os
    import vlib
    p = os.path.join(vlib.ROOT, "corpus", "%s.txt" % pid)
    out = []
    if os.path.exists(p):
        for l in open(p):
            l = l.strip()
            if l and not l.startswith("#"):
                drained = l.startswith("D ")
                out.append((ops_from_text(l[2:] if l[:2] in ("D ", "N ") else l), drained))
    return out


def build_exes(pid):
    import time
    import vlib
    last = None
    for attempt in range(4):
        try:
            exe = vlib.build_simworld()
            mexe = vlib.build_ocaml_model(pid)
            return exe, mexe
        except vlib.BuildError as e:       # another check may be pruning the shared build directory: retry
            last = e
            if "extracted model" in str(e) and attempt < 3:
                # /repo changed between the Coq step and now (the snapshot is keyed by the tree's hash): take it again
                vlib.coq_property(pid)
                continue
            if "does not compile" in str(e) or "OCaml" in str(e) or "extracted model" in str(e):
                raise
            time.sleep(1.5)
    raise last


def evaluate(pid, ops, impl, drained):
    """(list of (class, what)) the property `pid` fails with on this finished scenario, stats."""
    fails = []
    if impl.startswith("CRASH"):
        return [("crash", "the implementation crashed: " + impl[:200])], {}, None
    res = judge(ops, impl, drained)
    v, sim = res
    mine = v.c04 if pid == "C04" else v.c05
    fails += list(mine)
    if pid == "C04":
        fails += [("lost-after-requeue", w) for (_k, w) in v.known]
    return fails, v.stats, v


def run_check(chk, pid):
    import vlib
    thorough = chk.tier == "thorough"
    chk.rule = ("simworld scenarios: fixed negotiation to an SM session, then (a) 'honest' stream: random user sends, partial-write "
                "schedules, inbound stanzas / other elements / <r/>, acknowledgements and resume outcomes computed by an independent "
                "XEP-0198 server simulator from what the client really wrote (lock-step resolution), 1-4 reconnects with "
                "resumed / failed(h) / failed / feature-not-implemented / new session / no SM offered / loss during negotiation, the "
                "application's connection handler submitting 0-3 stanzas on CONNECT (first connect, resumed and re-enabled sessions "
                "with retransmissions pending), final drain; (b) 'adversarial' stream: every element kind with any h (below/at/above the queue head, > 2^32, unparsable, "
                "missing) at any time, write errors, stream end, losses everywhere; (c) corpus. Every scenario: implementation trace "
                "(wire bytes per connection, every SM-callback blob, dumpq, connect/disconnect events) == model trace; streams (a),(c): "
                "server simulator's verdict. distinct & non-trivial = distinct op/answer sequence containing at least one ack, resume "
                "outcome or second session")
    chk.assumptions = [
        "everything before the post-authentication <stream:features/> is the fixed prefix of the scenarios (PLAIN, no TLS); the model starts there",
        "stanza-aligned read chunks (expat reparse deferral is C10's subject); the virtual clock never moves (no timed handler fires)",
        "the server simulator (checks/smcommon.py ServerSim) is the reference for 'what a XEP-0198 server counts and reports'",
        "theorems with the `all_honest` hypothesis (sm_retained, sm_resends_first, third part of sm_no_loss_no_dup) assume one thing "
        "of the server: an accepted <resumed h> has reported <= h <= written by the client, and the session carried < 2^32 stanzas "
        "(Spec/SmSpec.v honest); all other theorems hold for every history",
        "the ghost server of Spec/SmSpec.v counts a stanza when the client has written it completely while SM is on and cuts the "
        "count back to h at <resumed h> (stanzas lost in flight); it changes state at the client's protocol points (marks OG _)",
        "`smpoke` (harness sets sm_sent_nr / sm_handled_nr directly, to reach 10-digit h and the 2^32 wrap of the inbound count) "
        "is a command of the scripted world only (model: CPoke in `exec`); the theorems over `action` histories do not range over it, "
        "the single-step theorems (any state) and the model/implementation comparison do; the outbound count is only poked below the "
        "wrap (open problem: sm_h < h is a plain comparison)",
        "a malformed h ('3x', '2 ', '4.0' ...) is 'no usable h' (strtoul with the whole text consumed is the reference: ' 2', '+2' are 2)",
        "sm_disable flag, session-establishment iq, stream features without <bind/>, user stanza handlers, xmpp_send_raw during "
        "negotiation and xmpp_conn_send_queue_drop_element (C06) are not part of the model",
    ]
    # (the entry itself lives in known_findings.json; nothing is added to the list at run time)
    chk.known_preds[KNOWN_ID] = lambda rec: rec.get("class") == "lost-after-requeue"
    chk.prove()
    try:
        exe, mexe = build_exes(pid)
    except vlib.BuildError as e:
        if "extracted model" in str(e) or "OCaml" in str(e):
            chk.broken.append({"kind": "extract", "name": "Extract_" + pid, "detail": str(e)[:500]})
            exe, mexe = vlib.build_simworld(), None
        else:
            raise
    rng = chk.rng
    n_honest = 1500 if thorough else 160
    n_adv = 12000 if thorough else 1200
    corpus = load_corpus(pid)
    honest = [gen_honest(rng) for _ in range(n_honest)]
    honest, rounds, runs = resolve_all(honest, lambda lines: vlib.run_parallel(exe, lines))
    adv = [gen_adversarial(rng, rng.randrange(8, 70)) for _ in range(n_adv)]
    cases = [(o, "corpus", d) for (o, d) in corpus] + [(o, "honest", True) for o in honest] + [(o, "adversarial", False) for o in adv]
    impl = vlib.run_parallel(exe, [sim_line(o) for o, _, _ in cases])
    model = vlib.run_parallel(mexe, [model_line(o) for o, _, _ in cases]) if mexe else None
    totals = {}
    seen_fail = set()
    for idx, (ops, stream, drained) in enumerate(cases):
        chk.evaluations += 1
        chk.count(stream)
        text = ops_to_text(ops)
        ci = canon_impl(ops, impl[idx])
        if model is not None:
            chk.traces_validated += 1
            cm = canon_model(ops, model[idx])
            if ci is None:
                chk.disagree(stream, text, impl[idx][:300], "(model does not crash)")
            elif ci != cm:
                k = next((j for j, (a, b) in enumerate(zip(ci, cm + [[]] * len(ci))) if a != b), -1)
                chk.disagree(stream, text, "op %d %s: %s" % (k, ops[k][0], " ".join(ci[k])[:400]),
                             "op %d: %s" % (k, " ".join(cm[k])[:400] if k < len(cm) else "-"))
        if stream == "adversarial":
            if impl[idx].startswith("CRASH"):
                chk.fail(text, "the implementation crashed: " + impl[idx][:200], stream=stream, extra={"class": "crash"})
            continue
        fails, stats, v = evaluate(pid, ops, impl[idx], drained)
        for k2, n in stats.items():
            totals[k2] = totals.get(k2, 0) + n
        if v is not None and v.dishonest:
            chk.count(stream + "-server-went-dishonest")
        if stats.get("acks") or stats.get("resumed") or stats.get("failed") or stats.get("enabled", 0) > 1:
            chk.nontrivial.add(scenario_key(ops))
        for cls, what in fails:
            if (cls,) in seen_fail and len(chk.failures) > 12:
                continue
            seen_fail.add((cls,))
            case = text
            if len([f for f in chk.failures if f.get("class") == cls]) == 0 and cls != "lost-after-requeue":
                small = shrink(pid, ops, drained, cls, exe)
                try:                      # describe the minimised scenario, not the one it was found in
                    out = vlib.run_lines(exe, [sim_line(small)])[0]
                    again = [w for c, w in evaluate(pid, small, out, drained)[0] if c == cls]
                    if again:
                        case, what = ops_to_text(small), again[0]
                except Exception:
                    pass
            chk.fail(case, "%s: %s" % (cls, what), stream=stream, extra={"class": cls})
        if idx % 211 == 0:
            chk.sample({"stream": stream, "ops": text[:600], "verdict": "ok" if not fails else fails[0][1][:200]})
    chk.extra["server_simulator_events"] = totals
    chk.extra["lockstep"] = {"rounds": rounds, "prefix_runs": runs}


def shrink(pid, ops, drained, cls, exe):
    import vlib

    def still(cand):
        if first_sym(cand) is not None:
            return False
        try:
            out = vlib.run_lines(exe, [sim_line(cand)])[0]
            fails, _, v = evaluate(pid, cand, out, drained)
        except Exception:
            return False
        return any(c == cls for c, _ in fails)
    try:
        return vlib.shrink_list(ops, still, max_steps=120)
    except Exception:
        return ops


def replay_check(pid, path):
    import json
    import vlib
    rec = json.load(open(path))
    f = rec.get("failure") or (rec.get("disagreements") or [{}])[0]
    case = f.get("case")
    if not case:
        print("replay file names no concrete input: %s" % json.dumps(rec.get("broken_obligations"))[:800])
        return 1
    ops = ops_from_text(case)
    exe = vlib.build_simworld()
    impl = vlib.run_lines(exe, [sim_line(ops)])[0]
    try:
        model = vlib.run_lines(vlib.build_ocaml_model(pid), [model_line(ops)])[0]
    except vlib.BuildError:
        model = None
    ci = canon_impl(ops, impl)
    cm = canon_model(ops, model) if model is not None else None
    print("scenario (%d ops):" % len(ops))
    for k, op in enumerate(ops):
        a = ci[k] if ci and k < len(ci) else ["(crash)"]
        b = cm[k] if cm and k < len(cm) else ["-"]
        print(" %s %2d %-60s" % ("  " if a == b or cm is None else "!=", k, str(op)[:60]))
        if a != b and cm is not None:
            print("        impl : %s\n        model: %s" % (" ".join(a)[:500], " ".join(b)[:500]))
    fails, stats, v = evaluate(pid, ops, impl, True)
    print("implementation: %s" % ("CRASH " + impl[:200] if impl.startswith("CRASH") else "ran"))
    print("server simulator: %s" % (stats,))
    if v is not None and v.dishonest:
        print("the scripted server is not a XEP-0198 server here: %s" % v.dishonest[:3])
    for cls, what in fails:
        print("property %s fails: %s: %s" % (pid, cls, what))
    bad = bool(fails) or (cm is not None and ci != cm)
    print("verdict: %s" % ("FAILS" if bad else "holds"))
    return 1 if bad else 0
