(* Shared conventions: bytes and byte strings are Z / list Z. *)
From Coq Require Export List ZArith Lia Bool.
Export ListNotations.
Local Open Scope Z_scope.

Definition is_byte (b : Z) : Prop := 0 <= b < 256.
Definition bytes (l : list Z) : Prop := Forall is_byte l.
Definition is_byteb (b : Z) : bool := (0 <=? b) && (b <? 256).
Definition bytesb (l : list Z) : bool := forallb is_byteb l.
Definition zlen {A} (l : list A) : Z := Z.of_nat (length l).

Definition is_Some {A} (o : option A) : Prop := match o with Some _ => True | None => False end.
