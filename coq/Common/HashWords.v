(* Machine-word and byte-order primitives shared by the digest specification and model
   (definitions only).  A w-bit word is a Z in [0, 2^w); the operations mask their result. *)
Require Import LV.Common.Bytes.
Local Open Scope Z_scope.

(* w = width in bits, m = the all-ones word 2^w - 1 *)
Definition m32 : Z := 0xFFFFFFFF.
Definition m64 : Z := 0xFFFFFFFFFFFFFFFF.
Definition wadd (m a b : Z) : Z := Z.land (a + b) m.
Definition wnot (m x : Z) : Z := Z.lxor x m.
Definition wrotr (w m x k : Z) : Z := Z.lor (Z.shiftr x k) (Z.land (Z.shiftl x (w - k)) m).
Definition wrotl (w m x k : Z) : Z := Z.lor (Z.land (Z.shiftl x k) m) (Z.shiftr x (w - k)).
Definition wshr (x k : Z) : Z := Z.shiftr x k.

(* big-endian / little-endian value of a byte group *)
Definition be_word (bs : list Z) : Z := fold_left (fun acc b => acc * 256 + b) bs 0.
Definition le_word (bs : list Z) : Z := be_word (rev bs).

(* n-byte big-endian / little-endian representation of a number *)
Fixpoint be_bytes (n : nat) (x : Z) : list Z :=
  match n with
  | O => []
  | S k => (x / 256 ^ Z.of_nat k) mod 256 :: be_bytes k x
  end.
Definition le_bytes (n : nat) (x : Z) : list Z := rev (be_bytes n x).

(* cut a list into groups of n elements (the last one may be short) *)
Fixpoint group_fuel (fuel n : nat) (l : list Z) : list (list Z) :=
  match fuel with
  | O => []
  | S f => match l with [] => [] | _ => firstn n l :: group_fuel f n (skipn n l) end
  end.
Definition group (n : nat) (l : list Z) : list (list Z) := group_fuel (length l) n l.

Fixpoint map2 {A B C} (f : A -> B -> C) (l : list A) (m : list B) : list C :=
  match l, m with
  | a :: l', b :: m' => f a b :: map2 f l' m'
  | _, _ => []
  end.

Definition nthz (l : list Z) (i : Z) : Z := nth (Z.to_nat i) l 0.

(* lower-case hexadecimal rendering of bytes, as character codes *)
Definition hexdigit (upper : bool) (d : Z) : Z := if d <? 10 then 48 + d else (if upper then 55 else 87) + d.
Definition hex_of_bytes (upper : bool) (bs : list Z) : list Z :=
  flat_map (fun b => [hexdigit upper (b / 16); hexdigit upper (b mod 16)]) bs.
