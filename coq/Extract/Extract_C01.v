Require Import LV.Model.NegState LV.Model.NegModel LV.Gen.Gen_neg LV.Spec.NegSpec.
Require Import ExtrOcamlBasic.
Extraction "c01_model" init_state step run scram_order check_all_init.
