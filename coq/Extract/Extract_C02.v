Require Import LV.Model.NegState LV.Model.NegModel LV.Gen.Gen_neg LV.Spec.NegSpec.
Require Import ExtrOcamlBasic.
Extraction "c02_model" init_state step run scram_order check_all_init.
