Require Import LV.Model.SmModel.
Require Import ExtrOcamlBasic.
Extraction "c04_model" exec dinit step run init d_st d_tx d_rx
  connected neg_done sm_enabled sm_support can_resume r_sent sent_nr handled_nr sq smq sm_id previd nconn
  q_gid q_owner q_text q_written q_resend s_gid s_h s_owner s_text b_sent b_handled b_id b_sq b_smq.
