Require Import LV.Model.SendQueueModel.
Require Import ExtrOcamlBasic.
Extraction "c06_model" init step run queue_of smq_of.
