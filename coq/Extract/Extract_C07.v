Require Import LV.Model.SaslModel.
Require Import ExtrOcamlBasic.
Extraction "c07_model" sasl_plain make_scram_init_msg scram_auth_payload scram_first_bare
  sasl_scram_sha1 sasl_scram_sha256 sasl_scram_sha512
  client_key_sha1 client_key_sha256 client_key_sha512
  sasl_digest_md5 rand_nonce external_payload legacy_payload component_handshake run_attempts.
