Require Import LV.Model.TlsPolicyModel LV.Spec.TlsPolicySpec.
Require Import ExtrOcamlBasic.
Extraction "c08_model" run is_secured tls_new effective_cb cell_scenario table_secured cert_verifies policy_ok.
