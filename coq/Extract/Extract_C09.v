Require Import LV.Gen.Gen_stanza LV.Model.StanzaModel LV.Spec.XmlSubsetSpec.
Require Import ExtrOcamlBasic.
Extraction "c09_model" run cstring spec_parse ns_client.
