Require Import LV.Model.ParserLayerModel.
Require Import ExtrOcamlBasic.
Extraction "c10_model" step init_state run run_unfixed.
