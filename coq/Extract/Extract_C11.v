Require Import LV.Model.HandlerModel.
Require Import ExtrOcamlBasic.
Extraction "c11_model" init_state run_op run_ops get_head rd heap nextp h_stanza h_ids h_timed h_global
  neg connected clock sendq log id_get.
