Require Import LV.Gen.Gen_stanza LV.Model.StanzaHeapModel.
Require Import ExtrOcamlBasic.
(* stanza stream (harness/ocaml/c12_driver.ml): run run_from well_owned release_all_ops init_state live_count
   st_heap xmlns_key; connection scenarios: crun clive *)
Extraction "c12_model" run run_from well_owned release_all_ops init_state live_count st_heap xmlns_key crun crun_from cinit clive w_user_sm w_user_conn.
