Require Import LV.Model.StanzaHeapModel.
Require Import ExtrOcamlBasic.
Extraction "c12_model" run run_from well_owned release_all_ops init_state live_count st_heap crun clive.
