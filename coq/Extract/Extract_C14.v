Require Import LV.Model.ResolverModel LV.Gen.Gen_srv LV.Spec.SrvSpec LV.Model.SrvModel.
Require Import ExtrOcamlBasic.
Extraction "c14_model" scenario lookup cstr FLAG_LEGACY_SSL srv_service srv_proto.
