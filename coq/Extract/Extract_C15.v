Require Import LV.Model.ResolverModel.
Require Import ExtrOcamlBasic.
Extraction "c15_model" lookup lookup_unsorted srv_sort cstr.
