Require Import LV.Model.SmBlobModel.
Require Import ExtrOcamlBasic.
Extraction "c16_model" restore restore_v gen_variant fixed_variant orig_variant fresh_conn serialize
  native source_conn step release live_count cstr rdn.
