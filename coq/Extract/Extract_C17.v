Require Import LV.Model.HashModel LV.Model.HmacModel.
Require Import ExtrOcamlBasic.
Extraction "c17_model" sha1_run sha256_run sha512_run md5_run
  sha1_oneshot sha256_oneshot sha512_oneshot md5_oneshot
  hmac_sha1 hmac_sha256 hmac_sha512
  xmpp_sha1_run xmpp_sha1 xmpp_sha1_digest.
