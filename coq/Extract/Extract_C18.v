Require Import LV.Model.Base64Model.
Require Import ExtrOcamlBasic.
Extraction "c18_model" encode decode_bin decode_str.
