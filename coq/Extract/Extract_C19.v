Require Import LV.Model.JidModel.
Require Import ExtrOcamlBasic.
Extraction "c19_model" jid_new jid_bare jid_node jid_domain jid_resource.
