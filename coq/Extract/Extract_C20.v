Require Import LV.Model.CompressionModel.
Require Import ExtrOcamlBasic.
Extraction "c20_model" stored_init stored_run replay_init replay_run stored_dec
  w_log w_fault w_wire w_fed w_q w_out w_in w_error w_disc w_sub.
