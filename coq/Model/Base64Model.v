(* Executable model of the base64 codec of src/crypto.c (definitions only, no proofs).
   Tables come from Gen_base64 (regenerated from the C source on every run). *)
Require Import LV.Common.Bytes LV.Gen.Gen_base64.
Local Open Scope Z_scope.

(* _base64_invcharmap[(unsigned char)c] and _base64_charmap[h] *)
Definition inv (c : Z) : Z := nth (Z.to_nat c) b64_inv 65.
Definition chr (h : Z) : Z := nth (Z.to_nat h) b64_chr (-1).
Definition PAD : Z := chr 64.

(* base64_encode: main loop over 3-byte groups, then the 0/1/2-byte tail. *)
Fixpoint encode (bs : list Z) : list Z :=
  match bs with
  | b0 :: b1 :: b2 :: rest =>
      let word := b0 * 65536 + b1 * 256 + b2 in
      chr (word / 262144 mod 64) :: chr (word / 4096 mod 64) ::
      chr (word / 64 mod 64) :: chr (word mod 64) :: encode rest
  | [b0] => [chr (b0 / 4); chr ((b0 mod 4) * 16); PAD; PAD]
  | [b0; b1] => [chr (b0 / 4); chr ((b0 mod 4) * 16 + b1 / 16); chr ((b1 mod 16) * 4); PAD]
  | [] => []
  end.

(* base64_decoded_len: the backwards scan over the reversed buffer.
   None models "return 0". *)
Fixpoint scan_pad (r : list Z) (nudge : Z) : option Z :=
  match r with
  | [] => Some nudge
  | c :: r' =>
      let v := inv c in
      if v <? 64 then Some nudge
      else if v =? 64 then scan_pad r' (nudge + 1)
      else None
  end.

Definition decoded_len (s : list Z) : Z :=
  let len := zlen s in
  if len <? 4 then 0
  else match scan_pad (rev s) 0 with
       | None => 0
       | Some nudge => if 2 <? nudge then 0 else 3 * (len / 4) - nudge
       end.

(* main quartet loop of base64_decode: returns the bytes written so far (in order) and
   the value left in `hextet` when the loop ends (by exhaustion or by `break`). *)
Fixpoint dloop (s : list Z) (out : list Z) (h : Z) : list Z * Z :=
  match s with
  | c0 :: c1 :: c2 :: c3 :: rest =>
      let h0 := inv c0 in
      if 64 <=? h0 then (out, h0) else
      let h1 := inv c1 in
      if 64 <=? h1 then (out, h1) else
      let h2 := inv c2 in
      if 64 <=? h2 then (out, h2) else
      let h3 := inv c3 in
      if 64 <=? h3 then (out, h3) else
      let word := h0 * 262144 + h1 * 4096 + h2 * 64 + h3 in
      dloop rest (out ++ [word / 65536 mod 256; word / 256 mod 256; word mod 256]) h3
  | _ => (out, h)
  end.

Inductive dres : Type :=
| DOk (buf : list (option Z)) (n : Z)   (* buffer cells (None = never written), reported length *)
| DReject                               (* *out = NULL, *outlen = 0 *)
| DOOB.                                 (* a write beyond the dlen+1 allocated cells *)

(* the `switch (dlen % 3)` tail on the last four characters; None = decode error *)
Definition dtail (s : list Z) (dlen : Z) : option (list Z) :=
  match skipn (length s - 4) s with
  | [c0; c1; c2; c3] =>
      let h0 := inv c0 in let h1 := inv c1 in let h2 := inv c2 in let h3 := inv c3 in
      if dlen mod 3 =? 0 then Some []
      else if dlen mod 3 =? 1 then
        if 64 <=? h0 then None else
        if 64 <=? h1 then None else
        if negb (h2 =? 64) then None else
        if negb (h3 =? 64) then None else
        Some [(h0 * 4 + h1 / 16) mod 256]
      else
        if 64 <=? h0 then None else
        if 64 <=? h1 then None else
        if 64 <=? h2 then None else
        if negb (h3 =? 64) then None else
        let word := h0 * 1024 + h1 * 16 + h2 / 4 in
        Some [word / 256 mod 256; word mod 256]
  | _ => None
  end.

Definition decode (s : list Z) : dres :=
  let len := zlen s in
  if negb (len mod 4 =? 0) then DReject else
  let dlen := decoded_len s in
  if dlen =? 0 then DReject else
  let '(out, h) := dloop s [] 0 in
  if (64 <? h) || negb (zlen out =? dlen - dlen mod 3) then DReject else
  match dtail s dlen with
  | None => DReject
  | Some t =>
      let written := out ++ t ++ [0] in
      if dlen + 1 <? zlen written then DOOB
      else DOk (map Some written ++ repeat None (Z.to_nat (dlen + 1 - zlen written))) dlen
  end.

(* xmpp_base64_decode_bin: the first n cells of the buffer as the caller sees them. *)
Definition decode_bin (s : list Z) : dres := decode s.

(* strlen over the cells; an unwritten cell is treated as "unknown": None *)
Fixpoint cstrlen (buf : list (option Z)) : option Z :=
  match buf with
  | [] => None
  | None :: _ => None
  | Some 0 :: _ => Some 0
  | Some _ :: r => match cstrlen r with Some k => Some (k + 1) | None => None end
  end.

Inductive sres : Type :=
| SOk (str : list Z)       (* the returned C string, without its terminator *)
| SNull                    (* NULL *)
| SBad.                    (* OOB / read of an unwritten cell *)

Fixpoint cells_prefix (buf : list (option Z)) (n : nat) : option (list Z) :=
  match n, buf with
  | O, _ => Some []
  | S k, Some b :: r => match cells_prefix r k with Some l => Some (b :: l) | None => None end
  | S _, _ => None
  end.

(* xmpp_base64_decode_str *)
Definition decode_str (s : list Z) : sres :=
  if zlen s =? 0 then SOk []
  else match decode s with
       | DReject => SNull
       | DOOB => SBad
       | DOk buf n =>
           match cstrlen buf with
           | None => SBad
           | Some k => if k =? n then
                         match cells_prefix buf (Z.to_nat n) with Some l => SOk l | None => SBad end
                       else SNull
           end
       end.

(* what decode_bin hands to the caller when it succeeds: exactly n initialised bytes *)
Definition decode_bin_value (s : list Z) : option (list Z) :=
  match decode s with
  | DOk buf n => cells_prefix buf (Z.to_nat n)
  | _ => None
  end.
