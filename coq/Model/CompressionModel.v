(* CompressionModel (property C20): src/compression.c and the statements of src/event.c that drive it.
   Definitions only.  The code mirrored is the one in which every fact of Gen_compression is `true`
   (fixes C20-1 .. C20-6 applied).

   zlib is not modelled: deflate()/inflate() are Section variables (one call = one `*_step`), the contract
   they are assumed to satisfy is in Spec/CompressionSpec.v.  Two concrete codecs instantiate the section
   for extraction: the "stored" codec (identity with a flush marker; it satisfies the contract, proved in
   Proofs/CompressionProofs.v) and the "replay" codec (answers every call from a script recorded from the
   real zlib run; used by the correspondence check to run the staging logic on zlib's actual answers).

   C objects and their counterparts:
     comp->compression.buffer[0 .. next_out)      w_out   (avail_out = bufsz - length w_out)
     comp->compression.stream                     w_z     (opaque)
     comp->decompression.stream                   w_i     (opaque)
     decompression.stream.next_in .. buffer_end   w_in    (None = next_in == NULL)
     conn->send_queue (data + written)            w_q     (per element: the bytes not yet taken, data[written..])
     the transport under the layer                w_tx (write schedule), w_wire (bytes accepted), w_rx (what recv returns)
     parser_feed                                  w_fed
     conn->error, conn->state == DISCONNECTED     w_error, w_disc
     errno                                        w_errno *)
From Coq Require Import List ZArith Bool.
Import ListNotations.
Require Import LV.Gen.Gen_compression.
Local Open Scope Z_scope.

Inductive flush_mode : Type := NoFlush | SyncFlush | FullFlush | OtherFlush.
Definition flush_of_code (c : Z) : flush_mode :=
  if c =? 0 then NoFlush else if c =? 2 then SyncFlush else if c =? 3 then FullFlush else OtherFlush.
Definition is_flush (f : flush_mode) : bool := match f with NoFlush => false | _ => true end.

(* return value of deflate()/inflate(): Z_OK, Z_STREAM_END, Z_BUF_ERROR, anything else (with its code) *)
Inductive zstatus : Type := ZOk | ZStreamEnd | ZBufError | ZErr (code : Z).
Definition Z_STREAM_END : Z := 1.
Definition Z_BUF_ERROR : Z := -5.

Inductive txo : Type := TAll | TK (n : Z) | TAgain | TErr.          (* what one send() does *)
Inductive rxo : Type := RData (bs : list Z) | RClose | RReset.     (* what recv() finds *)
Inductive fault : Type := NoFault | FOOB | FFuel.
Inductive ev : Type :=
| EvW (towrite ret : Z)            (* conn_interface_write on the top interface (event loop) *)
| EvN (bs : list Z) (ret : Z)      (* conn_interface_write of the layer to the transport *)
| EvP (bs : list Z)                (* parser_feed *)
| EvDisc (err : Z)                 (* disconnect notification *)
| EvIter.

Definition EAGAIN : Z := 11.
Definition EINTR : Z := 4.
Definition EBADF : Z := 9.
Definition EPIPE : Z := 32.
Definition ECONNRESET : Z := 104.
Definition ECONNABORTED : Z := 103.
Definition recoverable (e : Z) : bool := (e =? EAGAIN) || (e =? EINTR).     (* sock_is_recoverable *)

Definition is_nil {A} (l : list A) : bool := match l with [] => true | _ => false end.
Definition is_none {A} (o : option A) : bool := match o with None => true | _ => false end.

Section Codec.
  Variables zst ist : Type.
  Variable deflate_step : zst -> list Z -> nat -> flush_mode -> zst * nat * list Z * zstatus.
  Variable inflate_step : ist -> list Z -> nat -> ist * nat * list Z * zstatus.
  Variable bufsz : nat.      (* STROPHE_COMPRESSION_BUFFER_SIZE *)
  Variable msgsz : nat.      (* STROPHE_MESSAGE_BUFFER_SIZE *)
  Variable loopfuel : nat.   (* allowance for deflate calls that only drain pending output *)

  Record world : Type := mkW {
    w_z : zst; w_out : list Z; w_i : ist; w_in : option (list Z); w_dont_reset : bool;
    w_q : list (list Z); w_tx : list txo; w_wire : list Z; w_rx : list rxo; w_fed : list Z;
    w_error : Z; w_errno : Z; w_disc : bool; w_fault : fault;
    w_sub : list Z;        (* ghost: everything accepted by xmpp_send_raw, in order *)
    w_log : list ev        (* trace, newest first *)
  }.

  Definition set_z v w := mkW v (w_out w) (w_i w) (w_in w) (w_dont_reset w) (w_q w) (w_tx w) (w_wire w) (w_rx w) (w_fed w) (w_error w) (w_errno w) (w_disc w) (w_fault w) (w_sub w) (w_log w).
  Definition set_out v w := mkW (w_z w) v (w_i w) (w_in w) (w_dont_reset w) (w_q w) (w_tx w) (w_wire w) (w_rx w) (w_fed w) (w_error w) (w_errno w) (w_disc w) (w_fault w) (w_sub w) (w_log w).
  Definition set_i v w := mkW (w_z w) (w_out w) v (w_in w) (w_dont_reset w) (w_q w) (w_tx w) (w_wire w) (w_rx w) (w_fed w) (w_error w) (w_errno w) (w_disc w) (w_fault w) (w_sub w) (w_log w).
  Definition set_in v w := mkW (w_z w) (w_out w) (w_i w) v (w_dont_reset w) (w_q w) (w_tx w) (w_wire w) (w_rx w) (w_fed w) (w_error w) (w_errno w) (w_disc w) (w_fault w) (w_sub w) (w_log w).
  Definition set_q v w := mkW (w_z w) (w_out w) (w_i w) (w_in w) (w_dont_reset w) v (w_tx w) (w_wire w) (w_rx w) (w_fed w) (w_error w) (w_errno w) (w_disc w) (w_fault w) (w_sub w) (w_log w).
  Definition set_tx v w := mkW (w_z w) (w_out w) (w_i w) (w_in w) (w_dont_reset w) (w_q w) v (w_wire w) (w_rx w) (w_fed w) (w_error w) (w_errno w) (w_disc w) (w_fault w) (w_sub w) (w_log w).
  Definition set_wire v w := mkW (w_z w) (w_out w) (w_i w) (w_in w) (w_dont_reset w) (w_q w) (w_tx w) v (w_rx w) (w_fed w) (w_error w) (w_errno w) (w_disc w) (w_fault w) (w_sub w) (w_log w).
  Definition set_rx v w := mkW (w_z w) (w_out w) (w_i w) (w_in w) (w_dont_reset w) (w_q w) (w_tx w) (w_wire w) v (w_fed w) (w_error w) (w_errno w) (w_disc w) (w_fault w) (w_sub w) (w_log w).
  Definition set_fed v w := mkW (w_z w) (w_out w) (w_i w) (w_in w) (w_dont_reset w) (w_q w) (w_tx w) (w_wire w) (w_rx w) v (w_error w) (w_errno w) (w_disc w) (w_fault w) (w_sub w) (w_log w).
  Definition set_error v w := mkW (w_z w) (w_out w) (w_i w) (w_in w) (w_dont_reset w) (w_q w) (w_tx w) (w_wire w) (w_rx w) (w_fed w) v (w_errno w) (w_disc w) (w_fault w) (w_sub w) (w_log w).
  Definition set_errno v w := mkW (w_z w) (w_out w) (w_i w) (w_in w) (w_dont_reset w) (w_q w) (w_tx w) (w_wire w) (w_rx w) (w_fed w) (w_error w) v (w_disc w) (w_fault w) (w_sub w) (w_log w).
  Definition set_disc v w := mkW (w_z w) (w_out w) (w_i w) (w_in w) (w_dont_reset w) (w_q w) (w_tx w) (w_wire w) (w_rx w) (w_fed w) (w_error w) (w_errno w) v (w_fault w) (w_sub w) (w_log w).
  Definition set_fault v w := mkW (w_z w) (w_out w) (w_i w) (w_in w) (w_dont_reset w) (w_q w) (w_tx w) (w_wire w) (w_rx w) (w_fed w) (w_error w) (w_errno w) (w_disc w) v (w_sub w) (w_log w).
  Definition set_sub v w := mkW (w_z w) (w_out w) (w_i w) (w_in w) (w_dont_reset w) (w_q w) (w_tx w) (w_wire w) (w_rx w) (w_fed w) (w_error w) (w_errno w) (w_disc w) (w_fault w) v (w_log w).
  Definition set_log v w := mkW (w_z w) (w_out w) (w_i w) (w_in w) (w_dont_reset w) (w_q w) (w_tx w) (w_wire w) (w_rx w) (w_fed w) (w_error w) (w_errno w) (w_disc w) (w_fault w) (w_sub w) v.

  Definition log (e : ev) (w : world) : world := set_log (e :: w_log w) w.
  (* a fault is sticky: the first one is kept *)
  Definition raise (f : fault) (w : world) : world :=
    match w_fault w with NoFault => set_fault f w | _ => w end.

  (* conn_disconnect: nothing to do if the connection has already been torn down *)
  Definition conn_disconnect (w : world) : world :=
    if w_disc w then w else log (EvDisc (w_error w)) (set_disc true w).

  (* ------------------------------------------------------------------ the transport under the layer *)
  (* send(): the write schedule decides; an exhausted schedule accepts everything *)
  Definition sock_write (bs : list Z) (w : world) : Z * world :=
    let len := Z.of_nat (length bs) in
    if w_disc w then (-1, set_errno EBADF w) else
    let accept n w' := (n, set_wire (w_wire w' ++ firstn (Z.to_nat n) bs) w') in
    match w_tx w with
    | [] => accept len w
    | t :: rest =>
        let w1 := set_tx rest w in
        match t with
        | TAll => accept len w1
        | TK n => if n <=? 0 then (-1, set_errno EAGAIN w1) else accept (Z.min n len) w1
        | TAgain => (-1, set_errno EAGAIN w1)
        | TErr => (-1, set_errno EPIPE w1)
        end
    end.

  (* conn_interface_write(&comp->next, ...) *)
  Definition next_write (bs : list Z) (w : world) : Z * world :=
    let '(ret, w1) := sock_write bs w in
    let w2 := if (ret <? 0) && negb (recoverable (w_errno w1)) then set_error (w_errno w1) w1 else w1 in
    (ret, log (EvN bs ret) w2).

  (* recv(fd, buf, n): at most one chunk *)
  Definition sock_read (n : nat) (w : world) : Z * list Z * world :=
    if w_disc w then (-1, [], set_errno EBADF w) else
    match w_rx w with
    | [] => (-1, [], set_errno EAGAIN w)
    | RData bs :: rest =>
        let got := firstn n bs in
        let left := skipn n bs in
        (Z.of_nat (length got), got, set_rx (if is_nil left then rest else RData left :: rest) w)
    | RClose :: rest => (0, [], set_errno EAGAIN (set_rx rest w))
    | RReset :: rest => (-1, [], set_errno ECONNRESET (set_rx rest w))
    end.

  (* ------------------------------------------------------------------ compression.c, write side *)
  (* _try_compressed_write_to_network *)
  Definition try_write (force : bool) (w : world) : Z * world :=
    let len := length (w_out w) in
    let buffer_full := Nat.eqb len bufsz in
    if (buffer_full || force) && negb (Nat.eqb len 0) then
      let '(ret, w1) := next_write (w_out w) w in
      if ret <? 0 then (ret, w1)
      else (ret, set_out (skipn (Z.to_nat ret) (w_out w)) w1)   (* what was not accepted stays at the front *)
    else (0, w).

  (* the do-while of _compression_write: (true, r) = `return r`, (false, r) = loop left with ret = r *)
  Fixpoint cw_loop (fuel : nat) (buff : list Z) (off : nat) (fl : flush_mode) (w : world) : bool * Z * world :=
    match fuel with
    | O => (true, -1, raise FFuel w)
    | S f =>
        let '(r, w1) := try_write false w in
        if r <? 0 then (true, if Nat.eqb off 0 then r else Z.of_nat off, w1)
        else
          let inp := skipn off buff in
          let room := (bufsz - length (w_out w1))%nat in
          let '(z', k, outp, st) := deflate_step (w_z w1) inp room fl in
          if (Nat.ltb room (length outp)) || (Nat.ltb (length inp) k) then (true, -1, raise FOOB w1)
          else
            let w2 := set_out (w_out w1 ++ outp) (set_z z' w1) in
            let fail c := (true, c, conn_disconnect (set_error c w2)) in
            match st with
            | ZStreamEnd => (false, Z_STREAM_END, w2)
            | ZBufError => if is_flush fl then (false, Z_BUF_ERROR, w2) else fail Z_BUF_ERROR
            | ZErr c => fail c
            | ZOk =>
                let off' := (off + k)%nat in
                if (Nat.ltb off' (length buff)) || (is_flush fl && Nat.eqb (length (w_out w2)) bufsz)
                then cw_loop f buff off' fl w2
                else (false, Z.of_nat off', w2)
            end
    end.

  (* _compression_write *)
  Definition compression_write_raw (buff : list Z) (fl : flush_mode) (w : world) : Z * world :=
    let '(returned, r, w1) := cw_loop (length buff + loopfuel) buff 0 fl w in
    if returned then (r, w1)
    else if is_flush fl then
      let '(r2, w2) := try_write true w1 in (r2, w2)
    else (r, w1).

  Definition compression_write (buff : list Z) (w : world) : Z * world :=
    if is_nil buff then (0, w) else compression_write_raw buff (flush_of_code flush_code_write) w.

  Definition compression_flush (w : world) : Z * world :=
    compression_write_raw [] (flush_of_code (if w_dont_reset w then flush_code_dont_reset else flush_code_reset)) w.

  (* conn_interface_write(&conn->intf, ...) with the layer on top *)
  Definition top_write (buff : list Z) (w : world) : Z * world :=
    let '(ret, w1) := compression_write buff w in
    let w2 := if (ret <? 0) && negb (recoverable (w_errno w1)) then set_error (w_errno w1) w1 else w1 in
    (ret, log (EvW (Z.of_nat (length buff)) ret) w2).

  (* ------------------------------------------------------------------ compression.c, read side *)
  (* _conn_decompress(comp, c_len, buff, len): fresh = the c_len bytes just read into the staging buffer *)
  Definition conn_decompress (fresh : list Z) (len : nat) (w : world) : Z * list Z * world :=
    let inp := match w_in w with Some rest => rest | None => fresh end in
    let '(i', k, outp, st) := inflate_step (w_i w) inp len in
    if (Nat.ltb len (length outp)) || (Nat.ltb (length inp) k) then (0, [], raise FOOB w)
    else
      let rest := skipn k inp in
      let w1 := set_in (Some rest) (set_i i' w) in
      match st with
      | ZOk | ZStreamEnd =>
          (Z.of_nat (length outp), outp, if is_nil rest then set_in None w1 else w1)
      | ZBufError => (0, [], w1)
      | ZErr c => (0, [], conn_disconnect (set_error c w1))
      end.

  Fixpoint rx_weight (l : list rxo) : nat :=
    match l with
    | [] => O
    | RData bs :: t => (length bs + rx_weight t)%nat
    | _ :: t => rx_weight t
    end.

  (* the do-while of compression_read *)
  Fixpoint read_loop (fuel : nat) (len : nat) (w : world) : Z * list Z * world :=
    match fuel with
    | O => (-1, [], raise FFuel w)
    | S f =>
        let '(n, bs, w1) := sock_read bufsz w in
        if n <=? 0 then (n, [], w1)
        else
          let '(ret, outp, w2) := conn_decompress bs len w1 in
          if (ret =? 0) && negb (w_disc w2) && is_none (w_in w2) then read_loop f len w2
          else (ret, outp, w2)
    end.

  Definition compression_read (len : nat) (w : world) : Z * list Z * world :=
    match w_in w with
    | Some _ => conn_decompress [] len w
    | None => read_loop (S (rx_weight (w_rx w))) len w
    end.

  Definition compression_pending (w : world) : bool := negb (is_none (w_in w)).

  (* ------------------------------------------------------------------ event.c *)
  (* the write loop over the send queue; `es` is the queue, the result's w_q what is left of it *)
  Fixpoint send_elems (es : list (list Z)) (w : world) : world :=
    match es with
    | [] => set_q [] w
    | e :: rest =>
        let towrite := Z.of_nat (length e) in
        let '(ret, w1) := top_write e w in
        if ret =? towrite then send_elems rest w1
        else if (0 <? ret) && (ret <? towrite) then set_q (skipn (Z.to_nat ret) e :: rest) w1
        else set_q (e :: rest) w1
    end.

  Definition read_phase (w : world) : world :=
    if w_disc w then w
    else if negb (is_nil (w_rx w)) || compression_pending w then
      let '(ret, bs, w1) := compression_read msgsz w in
      if 0 <? ret then log (EvP bs) (set_fed (w_fed w1 ++ bs) w1)
      else
        let err := w_errno w1 in
        if negb (recoverable err) then conn_disconnect (set_error err w1)
        else if ret =? 0 then conn_disconnect (set_error ECONNRESET w1)
        else w1
    else w.

  Definition send_phase (w : world) : world :=
    if w_disc w then w
    else
      let w1 := send_elems (w_q w) w in
      let '(_, w2) := compression_flush w1 in
      if w_error w2 =? 0 then w2 else conn_disconnect (set_error ECONNABORTED w2).

  (* xmpp_run_once for one connected client with the layer installed *)
  Definition run_once (w : world) : world := log EvIter (read_phase (send_phase w)).

  (* ------------------------------------------------------------------ the user program and the peer *)
  Inductive op : Type :=
  | OEnq (bs : list Z)        (* xmpp_send_raw *)
  | OTx (ts : list txo)       (* the transport's answers to the next send() calls *)
  | ORx (r : rxo)             (* the peer's next bytes (already compressed) / close / reset *)
  | ORun.                     (* xmpp_run_once *)

  Definition step (w : world) (o : op) : world :=
    match o with
    | OEnq bs => if w_disc w then w else set_sub (w_sub w ++ bs) (set_q (w_q w ++ [bs]) w)
    | OTx ts => set_tx (w_tx w ++ ts) w
    | ORx r => set_rx (w_rx w ++ [r]) w
    | ORun => run_once w
    end.

  Definition run (w : world) (ops : list op) : world := fold_left step ops w.

  Definition init_world (z0 : zst) (i0 : ist) (dont_reset : bool) (errno0 : Z) : world :=
    mkW z0 [] i0 None dont_reset [] [] [] [] [] 0 errno0 false NoFault [] [].
End Codec.
Arguments w_z {zst ist}.
Arguments w_out {zst ist}.
Arguments w_i {zst ist}.
Arguments w_in {zst ist}.
Arguments w_dont_reset {zst ist}.
Arguments w_q {zst ist}.
Arguments w_tx {zst ist}.
Arguments w_wire {zst ist}.
Arguments w_rx {zst ist}.
Arguments w_fed {zst ist}.
Arguments w_error {zst ist}.
Arguments w_errno {zst ist}.
Arguments w_disc {zst ist}.
Arguments w_fault {zst ist}.
Arguments w_sub {zst ist}.
Arguments w_log {zst ist}.
Arguments set_z {zst ist}.
Arguments set_out {zst ist}.
Arguments set_i {zst ist}.
Arguments set_in {zst ist}.
Arguments set_q {zst ist}.
Arguments set_tx {zst ist}.
Arguments set_wire {zst ist}.
Arguments set_rx {zst ist}.
Arguments set_fed {zst ist}.
Arguments set_error {zst ist}.
Arguments set_errno {zst ist}.
Arguments set_disc {zst ist}.
Arguments set_fault {zst ist}.
Arguments set_sub {zst ist}.
Arguments set_log {zst ist}.
Arguments mkW {zst ist}.
Arguments log {zst ist}.
Arguments raise {zst ist}.
Arguments conn_disconnect {zst ist}.
Arguments sock_write {zst ist}.
Arguments next_write {zst ist}.
Arguments sock_read {zst ist}.
Arguments try_write {zst ist}.
Arguments cw_loop {zst ist}.
Arguments compression_write_raw {zst ist}.
Arguments compression_write {zst ist}.
Arguments compression_flush {zst ist}.
Arguments top_write {zst ist}.
Arguments conn_decompress {zst ist}.
Arguments read_loop {zst ist}.
Arguments compression_read {zst ist}.
Arguments compression_pending {zst ist}.
Arguments send_elems {zst ist}.
Arguments read_phase {zst ist}.
Arguments send_phase {zst ist}.
Arguments run_once {zst ist}.
Arguments step {zst ist}.
Arguments run {zst ist}.
Arguments init_world {zst ist}.

(* ---------------------------------------------------------------------- the "stored" codec *)
(* compressed alphabet = the plain symbols (those from FLUSH_MARK upwards shifted by one, so that every
   Z is encodable) + one flush marker; no buffering inside the codec *)
Definition FLUSH_MARK : Z := 256.
Definition st_enc (b : Z) : Z := if b <? FLUSH_MARK then b else b + 1.
Definition st_dec (c : Z) : Z := if c <? FLUSH_MARK then c else c - 1.

(* deflate: state = "something was consumed since the last marker" *)
Definition stored_deflate (dirty : bool) (inp : list Z) (room : nat) (fl : flush_mode)
  : bool * nat * list Z * zstatus :=
  match room with
  | O => (dirty, O, [], ZBufError)
  | _ =>
      let k := Nat.min (length inp) room in
      let out1 := map st_enc (firstn k inp) in
      let dirty1 := dirty || negb (Nat.eqb k 0) in
      if negb (is_flush fl) then
        (dirty1, k, out1, if is_nil inp then ZBufError else ZOk)
      else if Nat.ltb k (length inp) then (dirty1, k, out1, ZOk)
      else if dirty1 then
        if Nat.ltb k room then (false, k, out1 ++ [FLUSH_MARK], ZOk) else (true, k, out1, ZOk)
      else (false, O, [], ZBufError)
  end.

(* inflate: markers are consumed without needing room *)
Fixpoint stored_scan (inp : list Z) (room : nat) : nat * list Z :=
  match inp with
  | [] => (O, [])
  | b :: t =>
      if b =? FLUSH_MARK then let '(k, o) := stored_scan t room in (S k, o)
      else match room with
           | O => (O, [])
           | S r => let '(k, o) := stored_scan t r in (S k, st_dec b :: o)
           end
  end.
Definition stored_inflate (st : unit) (inp : list Z) (room : nat) : unit * nat * list Z * zstatus :=
  let '(k, o) := stored_scan inp room in
  (st, k, o, if Nat.eqb k 0 then ZBufError else ZOk).
Definition stored_dec (z : list Z) : list Z := map st_dec (filter (fun b => negb (b =? FLUSH_MARK)) z).

(* ---------------------------------------------------------------------- the "replay" codec *)
(* every call is answered from a script; a call whose arguments differ from the recorded ones (or a call
   beyond the end of the script) is answered with an error code that shows up in the trace *)
Record drec : Type := mkDrec { dr_in : nat; dr_room : nat; dr_flush : Z; dr_consumed : nat; dr_out : list Z; dr_ret : Z }.
Record irec : Type := mkIrec { ir_in : nat; ir_room : nat; ir_consumed : nat; ir_out : list Z; ir_ret : Z }.
Definition DESYNC_END : Z := -100.
Definition DESYNC_ARGS : Z := -101.
Definition status_of_ret (r : Z) : zstatus :=
  if r =? 0 then ZOk else if r =? Z_STREAM_END then ZStreamEnd else if r =? Z_BUF_ERROR then ZBufError else ZErr r.
Definition flush_code (f : flush_mode) : Z :=
  match f with NoFlush => 0 | SyncFlush => 2 | FullFlush => 3 | OtherFlush => -1 end.

Definition replay_deflate (st : list drec) (inp : list Z) (room : nat) (fl : flush_mode)
  : list drec * nat * list Z * zstatus :=
  match st with
  | [] => ([], O, [], ZErr DESYNC_END)
  | r :: rest =>
      if Nat.eqb (dr_in r) (length inp) && Nat.eqb (dr_room r) room && (dr_flush r =? flush_code fl)
      then (rest, dr_consumed r, dr_out r, status_of_ret (dr_ret r))
      else ([], O, [], ZErr DESYNC_ARGS)
  end.

Definition replay_inflate (st : list irec) (inp : list Z) (room : nat)
  : list irec * nat * list Z * zstatus :=
  match st with
  | [] => ([], O, [], ZErr DESYNC_END)
  | r :: rest =>
      if Nat.eqb (ir_in r) (length inp) && Nat.eqb (ir_room r) room
      then (rest, ir_consumed r, ir_out r, status_of_ret (ir_ret r))
      else ([], O, [], ZErr DESYNC_ARGS)
  end.

(* ---------------------------------------------------------------------- instances over the generated sizes *)
Definition BUFSZ : nat := Z.to_nat COMPRESSION_BUFFER_SIZE.
Definition MSGSZ : nat := Z.to_nat MESSAGE_BUFFER_SIZE.
Definition LOOPFUEL : nat := Z.to_nat 4096.

Definition stored_init (dont_reset : bool) (errno0 : Z) := init_world false tt dont_reset errno0 : world bool unit.
Definition stored_run : world bool unit -> list (op) -> world bool unit := run stored_deflate stored_inflate BUFSZ MSGSZ LOOPFUEL.
Definition replay_init (ds : list drec) (is_ : list irec) (dont_reset : bool) (errno0 : Z) :=
  (init_world ds is_ dont_reset errno0 : world (list drec) (list irec)).
Definition replay_run : world (list drec) (list irec) -> list op -> world (list drec) (list irec) := run replay_deflate replay_inflate BUFSZ MSGSZ LOOPFUEL.
