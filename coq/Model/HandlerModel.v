(* C11 - model of src/handler.c (libstrophe 0.14): the handler lists on an explicit heap.

   Definitions only.  Items live on a heap [nat -> option item] ([None] = freed); the three lists of a
   connection (stanza handlers, per-id lists reached through a map, timed handlers) and the
   context-wide timed list are singly linked through [i_next].  Reading or writing a freed item is
   the outcome [UAF], freeing it again [DoubleFree]; every pointer walk runs on fuel ([Fuel]).
   Callbacks are scripted behaviours: a [script] maps (log so far, callback id, userdata id) to a
   list of actions and the return value, so theorems quantify over all programs.

   The model mirrors handler.c *with fixes/C11-1.patch and fixes/C11-2.patch applied*:
     C11-1  handler_fire_stanza enables the stanza-handler list before the id pass
     C11-2  the id pass reloads the list head from the hash before unlinking a one-shot handler *)
From Coq Require Import List ZArith Bool Arith.
Import ListNotations.
Local Open Scope Z_scope.

Definition str := list Z.

Fixpoint str_eqb (a b : str) : bool :=
  match a, b with
  | [], [] => true
  | x :: a', y :: b' => (x =? y) && str_eqb a' b'
  | _, _ => false
  end.

(* what handler_fire_stanza looks at: xmpp_stanza_get_{name,ns,type,id} and, per direct child,
   xmpp_stanza_get_ns(child) (None for a text node or an element without xmlns) *)
Record stanza := mkStanza {
  st_name : option str; st_ns : option str; st_type : option str; st_id : option str;
  st_children : list (option str) }.

Inductive hfilter :=
| FStanza (ns name type : option str)
| FId (id : str)
| FTimed (period last : Z).

(* which list an item is on *)
Inductive kind := KStanza | KId (id : str) | KTimed | KGlobal.

Definition kind_eqb (a b : kind) : bool :=
  match a, b with
  | KStanza, KStanza => true
  | KId x, KId y => str_eqb x y
  | KTimed, KTimed => true
  | KGlobal, KGlobal => true
  | _, _ => false
  end.

Record item := mkItem {
  i_cb : Z; i_ud : Z; i_user : bool; i_enabled : bool; i_flt : hfilter; i_next : option nat }.

Definition it_next (it : item) (n : option nat) : item :=
  mkItem (i_cb it) (i_ud it) (i_user it) (i_enabled it) (i_flt it) n.
Definition it_enabled (it : item) (b : bool) : item :=
  mkItem (i_cb it) (i_ud it) (i_user it) b (i_flt it) (i_next it).
Definition it_flt (it : item) (f : hfilter) : item :=
  mkItem (i_cb it) (i_ud it) (i_user it) (i_enabled it) f (i_next it).

Inductive action :=
| AAddStanza (cb ud : Z) (user : bool) (ns name type : option str)   (* xmpp_handler_add / handler_add *)
| AAddId (cb ud : Z) (user : bool) (id : str)                        (* xmpp_id_handler_add / handler_add_id *)
| AAddTimed (cb ud : Z) (user : bool) (period : Z)                   (* xmpp_timed_handler_add / handler_add_timed *)
| AAddGlobal (cb ud : Z) (period : Z)                                (* xmpp_global_timed_handler_add *)
| ADel (k : kind) (cb : Z)          (* xmpp_handler_delete / xmpp_id_handler_delete / xmpp_timed_handler_delete /
                                       xmpp_global_timed_handler_delete: by callback (and id) *)
| ASend (data : str)                (* xmpp_send_raw *)
| AClk (d : Z).                     (* the callback takes d ms: time_stamp() is later for whatever runs after it *)

Inductive event :=
| EvCall (hid : nat) (cb ud : Z) (user : bool) (k : kind) (t : Z) (ret : bool)
| EvWrite (data : str).

Definition script := list event -> Z -> Z -> list action * bool.

Record state := mkState {
  heap : nat -> option item; nextp : nat;
  h_stanza : option nat;                 (* conn->handlers *)
  h_ids : list (str * option nat);       (* conn->id_handlers: key -> list head *)
  h_timed : option nat;                  (* conn->timed_handlers *)
  h_global : option nat;                 (* ctx->timed_handlers *)
  neg : bool;                            (* conn->stream_negotiation_completed *)
  connected : bool;                      (* conn->state == XMPP_STATE_CONNECTED *)
  clock : Z;                             (* time_stamp() *)
  sendq : list str;
  log : list event }.                    (* newest first *)

Definition init_state : state :=
  mkState (fun _ => None) O None [] None None true true 1000000 [] [].

Definition set_heap (st : state) h n :=
  mkState h n (h_stanza st) (h_ids st) (h_timed st) (h_global st) (neg st) (connected st) (clock st) (sendq st) (log st).
Definition set_neg (st : state) b :=
  mkState (heap st) (nextp st) (h_stanza st) (h_ids st) (h_timed st) (h_global st) b (connected st) (clock st) (sendq st) (log st).
Definition set_connected (st : state) b :=
  mkState (heap st) (nextp st) (h_stanza st) (h_ids st) (h_timed st) (h_global st) (neg st) b (clock st) (sendq st) (log st).
Definition set_clock (st : state) c :=
  mkState (heap st) (nextp st) (h_stanza st) (h_ids st) (h_timed st) (h_global st) (neg st) (connected st) c (sendq st) (log st).
Definition set_sendq (st : state) q :=
  mkState (heap st) (nextp st) (h_stanza st) (h_ids st) (h_timed st) (h_global st) (neg st) (connected st) (clock st) q (log st).
Definition set_log (st : state) l :=
  mkState (heap st) (nextp st) (h_stanza st) (h_ids st) (h_timed st) (h_global st) (neg st) (connected st) (clock st) (sendq st) l.

(* hash_get: a missing key and a key bound to NULL are the same to every caller *)
Fixpoint id_get {A} (id : str) (m : list (str * option A)) : option A :=
  match m with
  | [] => None
  | (k, v) :: m' => if str_eqb k id then v else id_get id m'
  end.
(* hash_add: replace the value of an existing key, else insert *)
Fixpoint id_set {A} (id : str) (v : option A) (m : list (str * option A)) : list (str * option A) :=
  match m with
  | [] => [(id, v)]
  | (k, w) :: m' => if str_eqb k id then (k, v) :: m' else (k, w) :: id_set id v m'
  end.

Definition get_head (k : kind) (st : state) : option nat :=
  match k with
  | KStanza => h_stanza st
  | KId id => id_get id (h_ids st)
  | KTimed => h_timed st
  | KGlobal => h_global st
  end.

Definition set_head (k : kind) (v : option nat) (st : state) : state :=
  match k with
  | KStanza => mkState (heap st) (nextp st) v (h_ids st) (h_timed st) (h_global st) (neg st) (connected st) (clock st) (sendq st) (log st)
  | KId id => mkState (heap st) (nextp st) (h_stanza st) (id_set id v (h_ids st)) (h_timed st) (h_global st) (neg st) (connected st) (clock st) (sendq st) (log st)
  | KTimed => mkState (heap st) (nextp st) (h_stanza st) (h_ids st) v (h_global st) (neg st) (connected st) (clock st) (sendq st) (log st)
  | KGlobal => mkState (heap st) (nextp st) (h_stanza st) (h_ids st) (h_timed st) v (neg st) (connected st) (clock st) (sendq st) (log st)
  end.

(* outcomes *)
Inductive res (A : Type) := Ok (a : A) | UAF | DoubleFree | Fuel.
Arguments Ok {A} a.
Arguments UAF {A}.
Arguments DoubleFree {A}.
Arguments Fuel {A}.

Definition bind {A B} (r : res A) (f : A -> res B) : res B :=
  match r with Ok a => f a | UAF => UAF | DoubleFree => DoubleFree | Fuel => Fuel end.
Notation "x <- r ;; k" := (bind r (fun x => k)) (at level 61, r at next level, right associativity).

Definition upd {A} (h : nat -> A) (p : nat) (v : A) : nat -> A :=
  fun q => if Nat.eqb q p then v else h q.

(* every access to an item goes through rd / wr / free *)
Definition rd (st : state) (p : nat) : res item :=
  match heap st p with Some it => Ok it | None => UAF end.
Definition wr (st : state) (p : nat) (it : item) : res state :=
  match heap st p with
  | Some _ => Ok (set_heap st (upd (heap st) p (Some it)) (nextp st))
  | None => UAF
  end.
Definition free (st : state) (p : nat) : res state :=
  match heap st p with
  | Some _ => Ok (set_heap st (upd (heap st) p None) (nextp st))
  | None => DoubleFree
  end.
Definition alloc (st : state) (it : item) : nat * state :=
  (nextp st, set_heap st (upd (heap st) (nextp st) (Some it)) (S (nextp st))).

(* for (item = head; item; item = item->next) if (item->handler == handler && item->userdata == userdata) break; *)
Fixpoint find_dup (fuel : nat) (st : state) (p : option nat) (cb ud : Z) : res bool :=
  match fuel with
  | O => Fuel
  | S f =>
    match p with
    | None => Ok false
    | Some x =>
      it <- rd st x ;;
      if (i_cb it =? cb) && (i_ud it =? ud) then Ok true else find_dup f st (i_next it) cb ud
    end
  end.

(* while (tail->next) tail = tail->next; *)
Fixpoint find_tail (fuel : nat) (st : state) (x : nat) : res nat :=
  match fuel with
  | O => Fuel
  | S f =>
    it <- rd st x ;;
    match i_next it with None => Ok x | Some y => find_tail f st y end
  end.

(* for (item = head; item; item = item->next) item->enabled = 1; *)
Fixpoint enable_all (fuel : nat) (st : state) (p : option nat) : res state :=
  match fuel with
  | O => Fuel
  | S f =>
    match p with
    | None => Ok st
    | Some x =>
      it <- rd st x ;;
      st1 <- wr st x (it_enabled it true) ;;
      enable_all f st1 (i_next it)
    end
  end.

(* _handler_add / _id_handler_add: duplicate test on (callback, userdata) only, then append at the tail *)
Definition add_tail (fuel : nat) (k : kind) (cb ud : Z) (user : bool) (flt : hfilter) (st : state) : res state :=
  dup <- find_dup fuel st (get_head k st) cb ud ;;
  if dup then Ok st
  else
    let (p, st1) := alloc st (mkItem cb ud user false flt None) in
    match get_head k st1 with
    | None => Ok (set_head k (Some p) st1)
    | Some h =>
      t <- find_tail fuel st1 h ;;
      it <- rd st1 t ;;
      wr st1 t (it_next it (Some p))
    end.

(* _timed_handler_add: same duplicate test, insert at the head, last_stamp = now *)
Definition add_head (fuel : nat) (k : kind) (cb ud : Z) (user : bool) (flt : hfilter) (st : state) : res state :=
  dup <- find_dup fuel st (get_head k st) cb ud ;;
  if dup then Ok st
  else
    let (p, st1) := alloc st (mkItem cb ud user false flt (get_head k st)) in
    Ok (set_head k (Some p) st1).

(* xmpp_handler_delete / xmpp_id_handler_delete / _timed_handler_delete: unlink and free every item
   selected by [sel] ([prev] = None means the link is the list head / hash value) *)
Fixpoint delete_by (fuel : nat) (k : kind) (sel : item -> bool) (st : state) (prev : option nat) (cur : option nat)
  : res state :=
  match fuel with
  | O => Fuel
  | S f =>
    match cur with
    | None => Ok st
    | Some x =>
      it <- rd st x ;;
      if sel it then
        st1 <- match prev with
               | None => Ok (set_head k (i_next it) st)
               | Some p => pit <- rd st p ;; wr st p (it_next pit (i_next it))
               end ;;
        st2 <- free st1 x ;;
        delete_by f k sel st2 prev (i_next it)
      else delete_by f k sel st (Some x) (i_next it)
    end
  end.

(* _handler_item_remove(&head, item): [loc] is where the walk stands (None = the head variable,
   Some p = &p->next).  Does not free. *)
Fixpoint item_remove (fuel : nat) (k : kind) (st : state) (loc : option nat) (x : nat) : res state :=
  match fuel with
  | O => Fuel
  | S f =>
    cur <- match loc with
           | None => Ok (get_head k st)
           | Some p => pit <- rd st p ;; Ok (i_next pit)
           end ;;
    match cur with
    | None => Ok st
    | Some c =>
      if Nat.eqb c x then
        xit <- rd st x ;;
        match loc with
        | None => Ok (set_head k (i_next xit) st)
        | Some p => pit <- rd st p ;; wr st p (it_next pit (i_next xit))
        end
      else item_remove f k st (Some c) x
    end
  end.

Definition do_action (fuel : nat) (a : action) (st : state) : res state :=
  match a with
  | AAddStanza cb ud user ns name type => add_tail fuel KStanza cb ud user (FStanza ns name type) st
  | AAddId cb ud user id => add_tail fuel (KId id) cb ud user (FId id) st
  | AAddTimed cb ud user period => add_head fuel KTimed cb ud user (FTimed period (clock st)) st
  | AAddGlobal cb ud period => add_head fuel KGlobal cb ud true (FTimed period (clock st)) st
  | ADel k cb => delete_by fuel k (fun it => i_cb it =? cb) st None (get_head k st)
  | ASend d => Ok (if connected st then set_sendq st (sendq st ++ [d]) else st)     (* send_raw: state check only *)
  | AClk d => Ok (set_clock st (clock st + d))
  end.

Fixpoint do_actions (fuel : nat) (acts : list action) (st : state) : res state :=
  match acts with
  | [] => Ok st
  | a :: r => st1 <- do_action fuel a st ;; do_actions fuel r st1
  end.

(* (!flt || (v && strcmp(v, flt) == 0)) *)
Definition opt_match (flt v : option str) : bool :=
  match flt with
  | None => true
  | Some f => match v with Some x => str_eqb x f | None => false end
  end.

(* xmpp_stanza_get_child_by_ns(stanza, ns) != NULL *)
Fixpoint child_by_ns (children : list (option str)) (ns : str) : bool :=
  match children with
  | [] => false
  | Some c :: r => if str_eqb ns c then true else child_by_ns r ns
  | None :: r => child_by_ns r ns
  end.

(* !item->u.ns || (ns && strcmp(ns, item->u.ns) == 0) ||
   (item->user_handler && xmpp_stanza_get_child_by_ns(stanza, item->u.ns)) *)
Definition ns_match (user : bool) (flt : option str) (sz : stanza) : bool :=
  match flt with
  | None => true
  | Some f =>
    (match st_ns sz with Some n => str_eqb n f | None => false end) || (user && child_by_ns (st_children sz) f)
  end.

Definition two64 : Z := 18446744073709551616.
Definition elapsed (t1 t2 : Z) : Z := (t2 - t1) mod two64.       (* time_elapsed: uint64 subtraction *)

(* the test that decides whether a visited item fires *)
Definition fmatch (k : kind) (it : item) (sz : stanza) (now : Z) : bool :=
  match k, i_flt it with
  | KId _, _ => true
  | KStanza, FStanza ns name type =>
    ns_match (i_user it) ns sz && opt_match name (st_name sz) && opt_match type (st_type sz)
  | KTimed, FTimed period last => period <=? elapsed last now
  | KGlobal, FTimed period last => period <=? elapsed last now
  | _, _ => false
  end.

(* (item->user_handler && !conn->stream_negotiation_completed) || !item->enabled  -> skip;
   the context-wide loop has no such test *)
Definition gate (k : kind) (st : state) (it : item) : bool :=
  match k with
  | KGlobal => true
  | _ => negb (i_user it && negb (neg st)) && i_enabled it
  end.

Definition stamp (k : kind) (it : item) (now : Z) : item :=
  match k, i_flt it with
  | KTimed, FTimed period _ => it_flt it (FTimed period now)
  | KGlobal, FTimed period _ => it_flt it (FTimed period now)
  | _, _ => it
  end.

(* the four copies of the dispatch loop in handler_fire_stanza / handler_fire_timed:
     skip gated items; (stanza, timed) read next, test; (timed) stamp; call; re-read item->next after the
     callback; if the callback returned 0 unlink from the current head and free; continue with next *)
Fixpoint fire_loop (sc : script) (fuel : nat) (k : kind) (sz : stanza) (st : state) (cur : option nat) : res state :=
  match fuel with
  | O => Fuel
  | S f =>
    match cur with
    | None => Ok st
    | Some x =>
      it <- rd st x ;;
      if negb (gate k st it) then fire_loop sc f k sz st (i_next it)
      else if negb (fmatch k it sz (clock st)) then fire_loop sc f k sz st (i_next it)
      else
        st1 <- wr st x (stamp k it (clock st)) ;;
        let (acts, ret) := sc (log st1) (i_cb it) (i_ud it) in
        let st2 := set_log st1 (EvCall x (i_cb it) (i_ud it) (i_user it) k (clock st1) ret :: log st1) in
        st3 <- do_actions f acts st2 ;;
        it' <- rd st3 x ;;                           (* next = item->next *)
        st4 <- (if ret then Ok st3
                else st' <- item_remove f k st3 None x ;; free st' x) ;;
        fire_loop sc f k sz st4 (i_next it')
    end
  end.

Definition fire_stanza (sc : script) (fuel : nat) (sz : stanza) (st : state) : res state :=
  st1 <- enable_all fuel st (h_stanza st) ;;                                  (* C11-1 *)
  st2 <- match st_id sz with
         | None => Ok st1
         | Some id =>
           st1' <- enable_all fuel st1 (get_head (KId id) st1) ;;
           fire_loop sc fuel (KId id) sz st1' (get_head (KId id) st1')
         end ;;
  fire_loop sc fuel KStanza sz st2 (h_stanza st2).

Definition no_stanza : stanza := mkStanza None None None None [].

(* handler_fire_timed for one connection plus the context-wide list *)
Definition fire_timed (sc : script) (fuel : nat) (st : state) : res state :=
  st1 <- (if connected st then
            st' <- enable_all fuel st (h_timed st) ;;
            fire_loop sc fuel KTimed no_stanza st' (h_timed st')
          else Ok st) ;;
  fire_loop sc fuel KGlobal no_stanza st1 (h_global st1).

(* handler_reset_timed *)
Fixpoint reset_timed (fuel : nat) (user_only : bool) (st : state) (p : option nat) : res state :=
  match fuel with
  | O => Fuel
  | S f =>
    match p with
    | None => Ok st
    | Some x =>
      it <- rd st x ;;
      st1 <- (if (user_only && i_user it) || negb user_only then wr st x (stamp KTimed it (clock st)) else Ok st) ;;
      reset_timed f user_only st1 (i_next it)
    end
  end.

(* handler_system_delete_all: every list loses its non-user items *)
Fixpoint sysdel_ids (fuel : nat) (keys : list str) (st : state) : res state :=
  match keys with
  | [] => Ok st
  | id :: r =>
    st1 <- delete_by fuel (KId id) (fun it => negb (i_user it)) st None (get_head (KId id) st) ;;
    sysdel_ids fuel r st1
  end.
Definition system_delete_all (fuel : nat) (st : state) : res state :=
  st1 <- delete_by fuel KStanza (fun it => negb (i_user it)) st None (h_stanza st) ;;
  st2 <- delete_by fuel KTimed (fun it => negb (i_user it)) st1 None (h_timed st1) ;;
  sysdel_ids fuel (map fst (h_ids st2)) st2.

(* send phase of xmpp_run_once for a connected connection whose socket accepts everything *)
Definition flush (st : state) : state :=
  if connected st then set_sendq (set_log st (rev (map EvWrite (sendq st)) ++ log st)) [] else st.

(* xmpp_run_once: send phase, handler_fire_timed, and - when select reported something - again *)
Definition run_once (sc : script) (fuel : nat) (events : bool) (st : state) : res state :=
  st1 <- fire_timed sc fuel (flush st) ;;
  if events then fire_timed sc fuel st1 else Ok st1.

Inductive op :=
| OAct (a : action)            (* API call outside any dispatch *)
| OStanza (sz : stanza)        (* handler_fire_stanza *)
| OFireTimed                   (* handler_fire_timed *)
| ORunOnce (events : bool)
| OSetNeg (b : bool)
| OSetConn (b : bool)
| OClock (d : Z)
| OReset (user_only : bool)
| OSysDel
| OOpen.                       (* stream start with auth_handle_open_raw: re-arm timed, negotiation completed *)

Definition run_op (sc : script) (fuel : nat) (o : op) (st : state) : res state :=
  match o with
  | OAct a => do_action fuel a st
  | OStanza sz => fire_stanza sc fuel sz st
  | OFireTimed => fire_timed sc fuel st
  | ORunOnce ev => run_once sc fuel ev st
  | OSetNeg b => Ok (set_neg st b)
  | OSetConn b => Ok (set_connected st b)
  | OClock d => Ok (set_clock st (clock st + d))
  | OReset u => reset_timed fuel u st (h_timed st)
  | OSysDel => system_delete_all fuel st
  | OOpen => st1 <- reset_timed fuel false st (h_timed st) ;; Ok (set_neg st1 true)
  end.

Fixpoint run_ops (sc : script) (fuel : nat) (ops : list op) (st : state) : res state :=
  match ops with
  | [] => Ok st
  | o :: r => st1 <- run_op sc fuel o st ;; run_ops sc fuel r st1
  end.
