(* Executable model of the bundled digests (src/sha1.c, sha256.c, sha512.c, md5.c): the
   buffering / bit counting / padding code as the C has it.  Definitions only, no proofs.

   - contexts are records with the fields of the C structs; the partial-block buffer is a
     fixed-size array (list of its size) written through a checked memcpy: a write or read outside
     an array is the outcome HOOB, an exhausted loop bound HFuel, an early `return` of a function
     that should have produced a digest HReject
   - 32/64-bit unsigned arithmetic is explicit `mod 2^32` / `mod 2^64` where the C wraps
   - every numeric constant (initial values, round constants, shifts, block sizes, thresholds) is
     taken from Gen_hash, regenerated from the C source on every run
   - compression routines: one round function per algorithm applied along the *generated* list of
     round calls (macro / word index / constant / shift of every unrolled call); the boolean
     functions are written as the C macros have them.  The register renaming of the unrolled calls
     is checked to be the canonical rotation (Gen_hash_ok) and modelled as the shift of the
     register tuple; SHA-1's in-place 16-word schedule is modelled as the 80-word schedule with the
     source's offsets.  The equality of the C routines with these is tied by the correspondence run. *)
Require Import LV.Common.Bytes LV.Common.HashWords LV.Gen.Gen_hash.
Local Open Scope Z_scope.

Inductive hres (A : Type) : Type :=
| HOk (a : A)
| HReject
| HFuel
| HOOB.
Arguments HOk {A} a.
Arguments HReject {A}.
Arguments HFuel {A}.
Arguments HOOB {A}.

Definition hbind {A B} (r : hres A) (f : A -> hres B) : hres B :=
  match r with HOk a => f a | HReject => HReject | HFuel => HFuel | HOOB => HOOB end.
Notation "'do' x <- r ; k" := (hbind r (fun x => k)) (at level 200, x name, r at level 100, k at level 200).

(* checked array access *)
Definition read_at (data : list Z) (off n : Z) : hres (list Z) :=
  if (0 <=? off) && (0 <=? n) && (off + n <=? zlen data)
  then HOk (firstn (Z.to_nat n) (skipn (Z.to_nat off) data)) else HOOB.
Definition memcpy_at (buf : list Z) (off : Z) (src : list Z) : hres (list Z) :=
  if (0 <=? off) && (off + zlen src <=? zlen buf)
  then HOk (firstn (Z.to_nat off) buf ++ src ++ skipn (Z.to_nat off + length src) buf) else HOOB.
(* buf[from .. to) = 0 (the `while (curlen < to) buf[curlen++] = 0` loops and memset) *)
Definition zero_fill (buf : list Z) (from to : Z) : hres (list Z) :=
  if from <? to then memcpy_at buf from (repeat 0 (Z.to_nat (to - from))) else HOk buf.

Fixpoint zrange_fuel (fuel : nat) (i bound step : Z) : list Z :=
  match fuel with
  | O => []
  | S f => if i <? bound then i :: zrange_fuel f (i + step) bound step else []
  end.
Definition zrange (i bound step : Z) : list Z := zrange_fuel (Z.to_nat (bound - i)) i bound step.

(* big-endian bytes of a word, as STORE32H / STORE64H and the SHA-1 output loop compute them *)
Definition store32h (x : Z) : list Z := [x / 2 ^ 24 mod 256; x / 2 ^ 16 mod 256; x / 2 ^ 8 mod 256; x mod 256].
Definition store64h (x : Z) : list Z :=
  [x / 2 ^ 56 mod 256; x / 2 ^ 48 mod 256; x / 2 ^ 40 mod 256; x / 2 ^ 32 mod 256;
   x / 2 ^ 24 mod 256; x / 2 ^ 16 mod 256; x / 2 ^ 8 mod 256; x mod 256].
(* PUT_32BIT_LSB_FIRST *)
Definition put32lsb (x : Z) : list Z := [x mod 256; x / 2 ^ 8 mod 256; x / 2 ^ 16 mod 256; x / 2 ^ 24 mod 256].

(* ========================================================================================== *)
(* SHA-1                                                                                       *)
Record sha1_ctx := { s1_state : list Z; s1_count0 : Z; s1_count1 : Z; s1_buffer : list Z }.

(* boolean part of macro R<m> *)
Definition sha1_f (m w x y : Z) : Z :=
  if (m =? 0) || (m =? 1) then Z.lxor (Z.land w (Z.lxor x y)) y
  else if m =? 3 then Z.lor (Z.land (Z.lor w x) y) (Z.land w x)
  else Z.lxor (Z.lxor w x) y.

(* blk(i): l[i&15] = rol(l[(i+13)&15] ^ l[(i+8)&15] ^ l[(i+2)&15] ^ l[i&15], 1); slot (i+o)&15
   holds word i+o-16 *)
Fixpoint sha1_sched_m (n : nat) (W : list Z) : list Z :=
  match n with
  | O => W
  | S n' =>
      let t := length W in
      let g o := nth (t + Z.to_nat o - 16) W 0 in
      sha1_sched_m n' (W ++ [wrotl 32 m32 (Z.lxor (Z.lxor (Z.lxor (g (nthz sha1_blk_offsets 0)) (g (nthz sha1_blk_offsets 1)))
                                                     (g (nthz sha1_blk_offsets 2))) (g 0)) sha1_blk_rol])
  end.

(* one R<m>(v,w,x,y,z,i) call: z += f(w,x,y) + blk(i) + K + rol(v,5); w = rol(w,30) *)
Definition sha1_round (W : list Z) (s : list Z) (r : Z * Z * Z) : list Z :=
  let '(m, _, i) := r in
  let '(k, rv, rw) := nth (Z.to_nat m) sha1_macros (0, 0, 0) in
  match s with
  | [v; w; x; y; z] =>
      [wadd m32 z (wadd m32 (wadd m32 (wadd m32 (sha1_f m w x y) (nthz W i)) k) (wrotl 32 m32 v rv)); v; wrotl 32 m32 w rw; x; y]
  | _ => s
  end.

Definition sha1_transform (st : list Z) (block : list Z) : list Z :=
  let W := sha1_sched_m 64 (map be_word (group 4 block)) in
  map2 (wadd m32) st (fold_left (sha1_round W) sha1_rounds st).

Definition sha1_init : sha1_ctx :=
  {| s1_state := sha1_iv; s1_count0 := 0; s1_count1 := 0; s1_buffer := repeat 0 (Z.to_nat sha1_block) |}.

(* for (; i + 63 < len; i += 64) SHA1_Transform(state, data + i); *)
Fixpoint sha1_block_loop (fuel : nat) (st : list Z) (data : list Z) (i len : Z) : hres (list Z * Z) :=
  if i + sha1_loop_look <? len then
    match fuel with
    | O => HFuel
    | S f => do blk <- read_at data i sha1_block;
             sha1_block_loop f (sha1_transform st blk) data (i + sha1_loop_step) len
    end
  else HOk (st, i).

Definition sha1_update (c : sha1_ctx) (data : list Z) : hres sha1_ctx :=
  let len := zlen data in
  let j := Z.land (s1_count0 c / 2 ^ sha1_idx_shift) sha1_idx_mask in          (* (count[0] >> 3) & 63 *)
  let lo := ((len mod 2 ^ 32) * 2 ^ sha1_len_shift) mod 2 ^ 32 in              (* (uint32_t)len << 3 *)
  let c0 := (s1_count0 c + lo) mod 2 ^ 32 in
  let c1 := if c0 <? lo then (s1_count1 c + 1) mod 2 ^ 32 else s1_count1 c in   (* carry *)
  let c1 := (c1 + (len / 2 ^ sha1_hi_shift) mod 2 ^ 32) mod 2 ^ 32 in          (* += (uint32_t)(len >> 29) *)
  if sha1_split <? j + len then
    let i := sha1_first_fill - j in
    do src <- read_at data 0 i;
    do buf <- memcpy_at (s1_buffer c) j src;
    do r <- sha1_block_loop (S (length data)) (sha1_transform (s1_state c) buf) data i len;
    let '(st, i') := r in
    do rest <- read_at data i' (len - i');
    do buf' <- memcpy_at buf 0 rest;
    HOk {| s1_state := st; s1_count0 := c0; s1_count1 := c1; s1_buffer := buf' |}
  else
    do buf <- memcpy_at (s1_buffer c) j data;
    HOk {| s1_state := s1_state c; s1_count0 := c0; s1_count1 := c1; s1_buffer := buf |}.

(* finalcount[i] = (count[(i >= 4 ? 0 : 1)] >> ((3 - (i & 3)) * 8)) & 255 *)
Definition sha1_finalcount (c : sha1_ctx) : list Z :=
  map (fun i => let cnt := if nthz sha1_finalcount_sel 0 <=? i
                           then (if nthz sha1_finalcount_sel 1 =? 0 then s1_count0 c else s1_count1 c)
                           else (if nthz sha1_finalcount_sel 2 =? 0 then s1_count0 c else s1_count1 c) in
                 cnt / 2 ^ ((3 - i mod 4) * 8) mod 256) [0; 1; 2; 3; 4; 5; 6; 7].

(* while ((count[0] & 504) != 448) Update(context, "\0", 1); *)
Fixpoint sha1_pad_loop (fuel : nat) (c : sha1_ctx) : hres sha1_ctx :=
  if Z.land (s1_count0 c) sha1_pad_mask =? sha1_pad_target then HOk c
  else match fuel with
       | O => HFuel
       | S f => do c' <- sha1_update c [0]; sha1_pad_loop f c'
       end.

Definition sha1_final (c : sha1_ctx) : hres (list Z) :=
  let fc := sha1_finalcount c in
  do c1 <- sha1_update c [sha1_pad_first];
  do c2 <- sha1_pad_loop 128 c1;
  do c3 <- sha1_update c2 fc;
  (* digest[i] = (state[i>>2] >> ((3 - (i & 3)) * 8)) & 255, i < SHA1_DIGEST_SIZE *)
  HOk (map (fun i => nthz (s1_state c3) (i / 4) / 2 ^ ((3 - i mod 4) * 8) mod 256) (zrange 0 sha1_digest_size 1)).

Definition sha1_feed (r : hres sha1_ctx) (d : list Z) : hres sha1_ctx := do c <- r; sha1_update c d.
(* Init; Update for every chunk; Final *)
Definition sha1_run (chunks : list (list Z)) : hres (list Z) :=
  do c <- fold_left sha1_feed chunks (HOk sha1_init); sha1_final c.
(* crypto_SHA1 *)
Definition sha1_oneshot (data : list Z) : hres (list Z) := sha1_run [data].

(* ========================================================================================== *)
(* SHA-256 / SHA-512 (LibTomCrypt shape)                                                       *)
Record tom_ctx := { t_length : Z; t_state : list Z; t_curlen : Z; t_buf : list Z }.

Definition tCh (x y z : Z) : Z := Z.lxor z (Z.land x (Z.lxor y z)).
Definition tMaj (x y z : Z) : Z := Z.lor (Z.land (Z.lor x y) z) (Z.land x y).

Section TOM.
  Variables w m : Z.
  Variables Sig0 Sig1 Gam0 Gam1 sched_offs : list Z.

  Definition tSigma (p : list Z) (x : Z) : Z :=
    Z.lxor (Z.lxor (wrotr w m x (nthz p 0)) (wrotr w m x (nthz p 1))) (wrotr w m x (nthz p 2)).
  Definition tGamma (p : list Z) (x : Z) : Z :=
    Z.lxor (Z.lxor (wrotr w m x (nthz p 0)) (wrotr w m x (nthz p 1))) (wshr x (nthz p 2)).

  (* W[i] = Gamma1(W[i - 2]) + W[i - 7] + Gamma0(W[i - 15]) + W[i - 16] *)
  Fixpoint tom_sched (n : nat) (W : list Z) : list Z :=
    match n with
    | O => W
    | S n' =>
        let t := length W in
        let g k := nth (t - Z.to_nat (nthz sched_offs k)) W 0 in
        tom_sched n' (W ++ [wadd m (wadd m (wadd m (tGamma Gam1 (g 0)) (g 1)) (tGamma Gam0 (g 2))) (g 3)])
    end.

  (* RND(a,b,c,d,e,f,g,h,i,ki): t0 = h + Sigma1(e) + Ch(e,f,g) + ki + W[i];
     t1 = Sigma0(a) + Maj(a,b,c); d += t0; h = t0 + t1; then the registers rotate *)
  Definition tom_rnd (s : list Z) (ki wi : Z) : list Z :=
    match s with
    | [a; b; c; d; e; f; g; h] =>
        let t0 := wadd m (wadd m (wadd m (wadd m h (tSigma Sig1 e)) (tCh e f g)) ki) wi in
        let t1 := wadd m (tSigma Sig0 a) (tMaj a b c) in
        [wadd m t0 t1; a; b; c; wadd m d t0; e; f; g]
    | _ => s
    end.

  Definition tom_words (block : list Z) : list Z := map be_word (group (Z.to_nat (w / 8)) block).
End TOM.

Definition sha256_compress (st block : list Z) : list Z :=
  let W := tom_sched 32 m32 sha256_Gamma0 sha256_Gamma1 sha256_sched
             (Z.to_nat (nthz sha256_sched_range 1 - nthz sha256_sched_range 0)) (tom_words 32 block) in
  map2 (wadd m32) st
    (fold_left (fun s (r : Z * Z * Z) => let '(_, i, k) := r in tom_rnd 32 m32 sha256_Sigma0 sha256_Sigma1 s k (nthz W i))
               sha256_rounds st).

Definition sha512_compress (st block : list Z) : list Z :=
  let W := tom_sched 64 m64 sha512_Gamma0 sha512_Gamma1 sha512_sched
             (Z.to_nat (nthz sha512_sched_range 1 - nthz sha512_sched_range 0)) (tom_words 64 block) in
  map2 (wadd m64) st
    (fold_left (fun s i =>
                  fold_left (fun s (r : Z * Z) => let '(_, off) := r in
                               tom_rnd 64 m64 sha512_Sigma0 sha512_Sigma1 s (nthz sha512_K (i + off)) (nthz W (i + off)))
                            sha512_rounds8 s)
               (zrange 0 sha512_loop_bound sha512_loop_step) st).

Section TOMBUF.
  Variables blk fast_min fast_bits fast_adv fast_dec fill full full_bits : Z.
  Variables bits_per_byte pad_first done_thresh done_fill done_pad_to len_off : Z.
  Variable compress : list Z -> list Z -> list Z.
  Variable store_word : Z -> list Z.

  Definition tom_mk (l : Z) (s : list Z) (cl : Z) (b : list Z) : tom_ctx :=
    {| t_length := l; t_state := s; t_curlen := cl; t_buf := b |}.

  (* while (inlen > 0) { ... }  with `in` = data + pos *)
  Fixpoint tom_loop (fuel : nat) (c : tom_ctx) (data : list Z) (pos inlen : Z) : hres tom_ctx :=
    if 0 <? inlen then
      match fuel with
      | O => HFuel
      | S f =>
          if (t_curlen c =? 0) && (fast_min <=? inlen) then
            do b <- read_at data pos blk;
            tom_loop f (tom_mk ((t_length c + fast_bits) mod 2 ^ 64) (compress (t_state c) b) (t_curlen c) (t_buf c))
                     data (pos + fast_adv) (inlen - fast_dec)
          else
            let n := Z.min inlen (fill - t_curlen c) in
            do src <- read_at data pos n;
            do buf' <- memcpy_at (t_buf c) (t_curlen c) src;
            let cl := t_curlen c + n in
            if cl =? full then
              tom_loop f (tom_mk ((t_length c + full_bits) mod 2 ^ 64) (compress (t_state c) buf') 0 buf')
                       data (pos + n) (inlen - n)
            else
              tom_loop f (tom_mk (t_length c) (t_state c) cl buf') data (pos + n) (inlen - n)
      end
    else HOk c.

  Definition tom_process (c : tom_ctx) (data : list Z) : hres tom_ctx :=
    let inlen := zlen data in
    if blk <? t_curlen c then HOk c                                   (* curlen > sizeof(buf): return *)
    else if (t_length c + inlen) mod 2 ^ 64 <? t_length c then HOk c  (* length overflow: return *)
    else tom_loop (S (length data)) c data 0 inlen.

  Definition tom_done (c : tom_ctx) : hres (list Z) :=
    if blk <=? t_curlen c then HReject                                (* return without writing out *)
    else
      let len := (t_length c + t_curlen c * bits_per_byte) mod 2 ^ 64 in
      do b0 <- memcpy_at (t_buf c) (t_curlen c) [pad_first];
      let cl := t_curlen c + 1 in
      do r <- (if done_thresh <? cl then
                 do b1 <- zero_fill b0 cl done_fill;
                 HOk (compress (t_state c) b1, b1, 0)
               else HOk (t_state c, b0, cl));
      let '(st, b1, cl1) := r in
      do b2 <- zero_fill b1 cl1 done_pad_to;
      do b3 <- memcpy_at b2 len_off (store64h len);
      HOk (flat_map store_word (compress st b3)).
End TOMBUF.

Definition sha256_init : tom_ctx :=
  {| t_length := 0; t_state := sha256_iv; t_curlen := 0; t_buf := repeat 0 (Z.to_nat sha256_block) |}.
Definition sha256_process : tom_ctx -> list Z -> hres tom_ctx :=
  tom_process sha256_block sha256_fast_min sha256_fast_bits sha256_fast_adv sha256_fast_dec sha256_fill
              sha256_full sha256_full_bits sha256_compress.
Definition sha256_done : tom_ctx -> hres (list Z) :=
  tom_done sha256_block sha256_done_bits_per_byte sha256_pad_first sha256_done_thresh sha256_done_fill
           sha256_done_pad_to sha256_len_off sha256_compress store32h.
Definition sha256_feed (r : hres tom_ctx) (d : list Z) : hres tom_ctx := do c <- r; sha256_process c d.
Definition sha256_run (chunks : list (list Z)) : hres (list Z) :=
  do c <- fold_left sha256_feed chunks (HOk sha256_init); sha256_done c.
Definition sha256_oneshot (data : list Z) : hres (list Z) := sha256_run [data].   (* sha256_hash *)

Definition sha512_init : tom_ctx :=
  {| t_length := 0; t_state := sha512_iv; t_curlen := 0; t_buf := repeat 0 (Z.to_nat sha512_block) |}.
Definition sha512_process : tom_ctx -> list Z -> hres tom_ctx :=
  tom_process sha512_block sha512_fast_min sha512_fast_bits sha512_fast_adv sha512_fast_dec sha512_fill
              sha512_full sha512_full_bits sha512_compress.
Definition sha512_done : tom_ctx -> hres (list Z) :=
  tom_done sha512_block sha512_done_bits_per_byte sha512_pad_first sha512_done_thresh sha512_done_fill
           sha512_done_pad_to sha512_len_off sha512_compress store64h.
Definition sha512_feed (r : hres tom_ctx) (d : list Z) : hres tom_ctx := do c <- r; sha512_process c d.
Definition sha512_run (chunks : list (list Z)) : hres (list Z) :=
  do c <- fold_left sha512_feed chunks (HOk sha512_init); sha512_done c.
Definition sha512_oneshot (data : list Z) : hres (list Z) := sha512_run [data].   (* sha512_hash *)

(* ========================================================================================== *)
(* MD5                                                                                         *)
Record md5_ctx := { m_buf : list Z; m_bits0 : Z; m_bits1 : Z; m_in : list Z }.

(* F1..F4 as the macros have them (F2(x,y,z) = F1(z,x,y)) *)
Definition md5_f (n x y z : Z) : Z :=
  if n =? 1 then Z.lxor z (Z.land x (Z.lxor y z))
  else if n =? 2 then Z.lxor y (Z.land z (Z.lxor x y))
  else if n =? 3 then Z.lxor (Z.lxor x y) z
  else Z.lxor y (Z.lor x (wnot m32 z)).

(* MD5STEP(f, w, x, y, z, data, s): w += f(x,y,z) + data; w = w<<s | w>>(32-s); w += x;
   data = in[k] + constant *)
Definition md5_round (X : list Z) (st : list Z) (r : Z * Z * Z * Z * Z) : list Z :=
  let '(fn, _, k, t, s) := r in
  match st with
  | [w; x; y; z] =>
      [z; wadd m32 (wrotl 32 m32 (wadd m32 w (wadd m32 (md5_f fn x y z) (wadd m32 (nthz X k) t))) s) x; x; y]
  | _ => st
  end.

Definition md5_transform (st : list Z) (block : list Z) : list Z :=
  let X := map le_word (group 4 block) in
  map2 (wadd m32) st (fold_left (md5_round X) md5_steps st).

Definition md5_init : md5_ctx :=
  {| m_buf := md5_iv; m_bits0 := 0; m_bits1 := 0; m_in := repeat 0 (Z.to_nat md5_block) |}.

(* while (len >= 64) { memcpy(ctx->in, buf, 64); MD5Transform(ctx->buf, ctx->in); buf += 64; len -= 64; } *)
Fixpoint md5_block_loop (fuel : nat) (st inb data : list Z) (pos len : Z) : hres (list Z * list Z * Z * Z) :=
  if nthz md5_loop 0 <=? len then
    match fuel with
    | O => HFuel
    | S f => do src <- read_at data pos (nthz md5_loop 1);
             do inb' <- memcpy_at inb 0 src;
             md5_block_loop f (md5_transform st inb') inb' data (pos + nthz md5_loop 2) (len - nthz md5_loop 3)
    end
  else HOk (st, inb, pos, len).

Definition md5_update (c : md5_ctx) (data : list Z) : hres md5_ctx :=
  let len := zlen data in
  let t := m_bits0 c in
  let b0 := (t + ((len mod 2 ^ 32) * 2 ^ md5_len_shift) mod 2 ^ 32) mod 2 ^ 32 in
  let b1 := if b0 <? t then (m_bits1 c + 1) mod 2 ^ 32 else m_bits1 c in        (* carry from low to high *)
  let b1 := (b1 + len / 2 ^ md5_hi_shift) mod 2 ^ 32 in
  let t := Z.land (t / 2 ^ md5_idx_shift) md5_idx_mask in                        (* bytes already in ctx->in *)
  let tail (st inb : list Z) (pos len : Z) : hres md5_ctx :=
      do r <- md5_block_loop (S (length data)) st inb data pos len;
      let '(st', inb', pos', len') := r in
      do rest <- read_at data pos' len';
      do inb'' <- memcpy_at inb' 0 rest;
      HOk {| m_buf := st'; m_bits0 := b0; m_bits1 := b1; m_in := inb'' |} in
  if negb (t =? 0) then
    let room := md5_fill - t in
    if len <? room then
      do inb <- memcpy_at (m_in c) t data;
      HOk {| m_buf := m_buf c; m_bits0 := b0; m_bits1 := b1; m_in := inb |}
    else
      do src <- read_at data 0 room;
      do inb <- memcpy_at (m_in c) t src;
      tail (md5_transform (m_buf c) inb) inb room (len - room)
  else tail (m_buf c) (m_in c) 0 len.

Definition md5_final (c : md5_ctx) : hres (list Z) :=
  let count := Z.land (m_bits0 c / 2 ^ md5_fin_shift) md5_fin_mask in
  do in0 <- memcpy_at (m_in c) count [md5_pad_first];
  let p := count + 1 in
  let count := md5_fin_room - count in
  do r <- (if count <? md5_fin_thresh then
             do in1 <- zero_fill in0 p (p + count);
             do in2 <- zero_fill in1 0 md5_fin_second;
             HOk (md5_transform (m_buf c) in1, in2)
           else
             do in1 <- zero_fill in0 p (p + (count - md5_fin_keep));
             HOk (m_buf c, in1));
  let '(st, in1) := r in
  let bits k := if k =? 0 then m_bits0 c else m_bits1 c in
  do in2 <- memcpy_at in1 (nthz md5_len_store 0) (put32lsb (bits (nthz md5_len_store 1)));
  do in3 <- memcpy_at in2 (nthz md5_len_store 2) (put32lsb (bits (nthz md5_len_store 3)));
  HOk (flat_map put32lsb (md5_transform st in3)).

Definition md5_feed (r : hres md5_ctx) (d : list Z) : hres md5_ctx := do c <- r; md5_update c d.
Definition md5_run (chunks : list (list Z)) : hres (list Z) :=
  do c <- fold_left md5_feed chunks (HOk md5_init); md5_final c.
Definition md5_oneshot (data : list Z) : hres (list Z) := md5_run [data].

(* ========================================================================================== *)
(* vocabulary of the theorem statements (Properties_C17.v)                                     *)
(* "c is a context obtained from Init by feeding msg in some sequence of update calls" *)
Definition sha1_reached (c : sha1_ctx) (msg : list Z) : Prop :=
  exists chunks, concat chunks = msg /\ fold_left sha1_feed chunks (HOk sha1_init) = HOk c.
Definition sha256_reached (c : tom_ctx) (msg : list Z) : Prop :=
  exists chunks, concat chunks = msg /\ fold_left sha256_feed chunks (HOk sha256_init) = HOk c.
Definition sha512_reached (c : tom_ctx) (msg : list Z) : Prop :=
  exists chunks, concat chunks = msg /\ fold_left sha512_feed chunks (HOk sha512_init) = HOk c.
Definition md5_reached (c : md5_ctx) (msg : list Z) : Prop :=
  exists chunks, concat chunks = msg /\ fold_left md5_feed chunks (HOk md5_init) = HOk c.

(* two contexts agree on everything the code will read again: chaining value, bit count, and the
   pending bytes of the partial block (bytes of the buffer beyond them are stale) *)
Definition sha1_pending (c : sha1_ctx) : list Z :=
  firstn (Z.to_nat (Z.land (s1_count0 c / 2 ^ sha1_idx_shift) sha1_idx_mask)) (s1_buffer c).
Definition sha1_equiv (c1 c2 : sha1_ctx) : Prop :=
  s1_state c1 = s1_state c2 /\ s1_count0 c1 = s1_count0 c2 /\ s1_count1 c1 = s1_count1 c2 /\
  sha1_pending c1 = sha1_pending c2.
Definition tom_equiv (c1 c2 : tom_ctx) : Prop :=
  t_state c1 = t_state c2 /\ t_length c1 = t_length c2 /\ t_curlen c1 = t_curlen c2 /\
  firstn (Z.to_nat (t_curlen c1)) (t_buf c1) = firstn (Z.to_nat (t_curlen c2)) (t_buf c2).
Definition md5_pending (c : md5_ctx) : list Z :=
  firstn (Z.to_nat (Z.land (m_bits0 c / 2 ^ md5_idx_shift) md5_idx_mask)) (m_in c).
Definition md5_equiv (c1 c2 : md5_ctx) : Prop :=
  m_buf c1 = m_buf c2 /\ m_bits0 c1 = m_bits0 c2 /\ m_bits1 c1 = m_bits1 c2 /\ md5_pending c1 = md5_pending c2.
