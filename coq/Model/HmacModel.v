(* Executable model of crypto_HMAC (src/scram.c) over the hash_alg tables, and of the public
   xmpp_sha1_* API with its hexadecimal rendering (src/crypto.c).  Definitions only. *)
Require Import LV.Common.Bytes LV.Common.HashWords LV.Gen.Gen_hash LV.Model.HashModel.
Local Open Scope Z_scope.

(* struct hash_alg: digest_size, hash, init, update, final (the context is the union member) *)
Record hash_alg (C : Type) := {
  ha_digest_size : Z;
  ha_hash : list Z -> hres (list Z);
  ha_init : C;
  ha_update : C -> list Z -> hres C;
  ha_final : C -> hres (list Z)
}.
Arguments ha_digest_size {C}.
Arguments ha_hash {C}.
Arguments ha_init {C}.
Arguments ha_update {C}.
Arguments ha_final {C}.

Definition alg_sha1 : hash_alg sha1_ctx :=
  {| ha_digest_size := sha1_digest_size; ha_hash := sha1_oneshot; ha_init := sha1_init;
     ha_update := sha1_update; ha_final := sha1_final |}.
Definition alg_sha256 : hash_alg tom_ctx :=
  {| ha_digest_size := sha256_digest_size; ha_hash := sha256_oneshot; ha_init := sha256_init;
     ha_update := sha256_process; ha_final := sha256_done |}.
Definition alg_sha512 : hash_alg tom_ctx :=
  {| ha_digest_size := sha512_digest_size; ha_hash := sha512_oneshot; ha_init := sha512_init;
     ha_update := sha512_process; ha_final := sha512_done |}.

Definition HMAC_BLOCK_SIZE_MAX : Z := 128.

Definition hmac_pad_const (which : Z) : Z := if which =? 1 then hmac_ipad else hmac_opad.

Definition crypto_HMAC {C} (alg : hash_alg C) (key text : list Z) : hres (list Z) :=
  (* blocksize = alg->digest_size < 48 ? 64 : 128 *)
  let blocksize := if ha_digest_size alg <? nthz hmac_blocksize_rule 0
                   then nthz hmac_blocksize_rule 1 else nthz hmac_blocksize_rule 2 in
  (* memset(key_pad, 0, blocksize) *)
  do key_pad0 <- zero_fill (repeat 0 (Z.to_nat HMAC_BLOCK_SIZE_MAX)) 0 blocksize;
  do key_pad <- (if zlen key <=? blocksize then memcpy_at key_pad0 0 key
                 else do d <- ha_hash alg key; memcpy_at key_pad0 0 d);
  (* for (i < blocksize) key_ipad[i] = key_pad[i] ^ ipad; key_opad[i] = key_pad[i] ^ opad; *)
  do kp <- read_at key_pad 0 blocksize;
  let key_ipad := map (fun b => Z.lxor b (hmac_pad_const (nthz hmac_pad_use 0))) kp in
  let key_opad := map (fun b => Z.lxor b (hmac_pad_const (nthz hmac_pad_use 1))) kp in
  do c <- ha_update alg (ha_init alg) key_ipad;
  do c <- ha_update alg c text;
  do sha_digest <- ha_final alg c;
  do c <- ha_update alg (ha_init alg) key_opad;
  do inner <- read_at sha_digest 0 (ha_digest_size alg);
  do c <- ha_update alg c inner;
  ha_final alg c.

Definition hmac_sha1 := crypto_HMAC alg_sha1.
Definition hmac_sha256 := crypto_HMAC alg_sha256.
Definition hmac_sha512 := crypto_HMAC alg_sha512.

(* ------------------------------------------------------------------------------------------ *)
(* struct _xmpp_sha1_t { ctx; SHA1_CTX ctx; uint8_t digest[20]; }  (the context after Final is
   wiped by the C code and not used again; it is left unspecified here)                         *)
Record xmpp_sha1_t := { xs_ctx : sha1_ctx; xs_digest : list Z }.

Definition xmpp_sha1_new : xmpp_sha1_t :=
  {| xs_ctx := sha1_init; xs_digest := repeat 0 (Z.to_nat sha1_digest_size) |}.
Definition xmpp_sha1_update (s : xmpp_sha1_t) (d : list Z) : hres xmpp_sha1_t :=
  do c <- sha1_update (xs_ctx s) d; HOk {| xs_ctx := c; xs_digest := xs_digest s |}.
Definition xmpp_sha1_final (s : xmpp_sha1_t) : hres xmpp_sha1_t :=
  do d <- sha1_final (xs_ctx s); HOk {| xs_ctx := xs_ctx s; xs_digest := d |}.

(* digest_to_string: NULL when len < 2*20+1, else "%02x" of every byte (NUL-terminated) *)
Definition digest_to_string (digest : list Z) (len : Z) : option (list Z) :=
  if len <? sha1_digest_size * 2 + 1 then None
  else Some (hex_of_bytes (negb sha1_hex_lowercase) (firstn (Z.to_nat sha1_digest_size) digest)).
Definition xmpp_sha1_to_string (s : xmpp_sha1_t) (slen : Z) : option (list Z) := digest_to_string (xs_digest s) slen.
Definition xmpp_sha1_to_digest (s : xmpp_sha1_t) : list Z := firstn (Z.to_nat sha1_digest_size) (xs_digest s).

Definition xmpp_sha1_feed (r : hres xmpp_sha1_t) (d : list Z) : hres xmpp_sha1_t := do s <- r; xmpp_sha1_update s d.
(* new; update for every chunk; final; to_string(slen) *)
Definition xmpp_sha1_run (chunks : list (list Z)) (slen : Z) : hres (option (list Z)) :=
  do s <- fold_left xmpp_sha1_feed chunks (HOk xmpp_sha1_new);
  do s' <- xmpp_sha1_final s;
  HOk (xmpp_sha1_to_string s' slen).
(* xmpp_sha1(): crypto_SHA1 + digest_to_string_alloc;  xmpp_sha1_digest(): crypto_SHA1 *)
Definition xmpp_sha1 (data : list Z) : hres (option (list Z)) :=
  do d <- sha1_oneshot data; HOk (digest_to_string d (sha1_digest_size * 2 + 1)).
Definition xmpp_sha1_digest (data : list Z) : hres (list Z) := sha1_oneshot data.
