(* Executable model of src/jid.c (definitions only, no proofs).

   Memory is modelled at the level of cells: a C string argument is the exact-size block
   `cstr s` = its bytes followed by the terminator; a block returned by the allocator is
   `alloc n` = n cells that were never written (None).  Every libc call of jid.c
   (strlen, strchr, strcspn, memcpy, a single-byte store) is a checked operation on such a
   block: running off the end of the block or reading a cell that was never written is the
   error `None` (= OOB, undefined behaviour in C), which is a value distinct from the C
   code's own NULL result.  The string the caller finally sees is read back from the returned
   block up to its terminator (`m_string`).

   The length limits, the forbidden local-part characters and every separator character come
   from Gen_jid (regenerated from src/jid.c on every run).

   Not modelled: allocation failure (the allocator of the harness never fails), the log call
   strophe_error, a NULL `jid` argument of the four splitting helpers (the C dereferences it). *)
Require Import LV.Common.Bytes LV.Gen.Gen_jid.
Local Open Scope Z_scope.

Definition cells := list (option Z).

(* the block holding the C string s *)
Definition cstr (s : list Z) : cells := map Some s ++ [Some 0].
(* strophe_alloc(ctx, n): n cells, none written *)
Definition alloc (n : nat) : cells := repeat None n.

(* error monad: None = out-of-bounds access / read of an unwritten cell *)
Definition bind {A B : Type} (x : option A) (f : A -> option B) : option B :=
  match x with Some a => f a | None => None end.
Notation "'do' x <- e ; k" := (bind e (fun x => k))
  (at level 200, x name, e at level 100, k at level 200, right associativity).

(* strlen(p) where p points at the first cell of m *)
Fixpoint m_strlen (m : cells) : option nat :=
  match m with
  | Some c :: r =>
      if c =? 0 then Some O
      else match m_strlen r with Some k => Some (S k) | None => None end
  | _ => None
  end.

(* strchr(p, c): Some (Some i) = pointer p+i, Some None = NULL *)
Fixpoint m_strchr (m : cells) (c : Z) : option (option nat) :=
  match m with
  | Some x :: r =>
      if x =? c then Some (Some O)
      else if x =? 0 then Some None
      else match m_strchr r c with
           | Some (Some k) => Some (Some (S k))
           | other => other
           end
  | _ => None
  end.

(* strcspn(p, reject) *)
Fixpoint m_strcspn (m : cells) (rej : list Z) : option nat :=
  match m with
  | Some x :: r =>
      if (x =? 0) || existsb (Z.eqb x) rej then Some O
      else match m_strcspn r rej with Some k => Some (S k) | None => None end
  | _ => None
  end.

(* memcpy(dst + doff, src + soff, n): both ranges must lie inside their blocks *)
Definition m_memcpy (dst : cells) (doff : nat) (src : cells) (soff n : nat) : option cells :=
  if ((soff + n <=? length src) && (doff + n <=? length dst))%nat
  then Some (firstn doff dst ++ firstn n (skipn soff src) ++ skipn (doff + n) dst)
  else None.

(* dst[off] = v *)
Definition m_store (dst : cells) (off : nat) (v : Z) : option cells :=
  if (off <? length dst)%nat
  then Some (firstn off dst ++ Some v :: skipn (S off) dst)
  else None.

(* the C string a caller reads from the start of block m *)
Fixpoint m_string (m : cells) : option (list Z) :=
  match m with
  | Some c :: r =>
      if c =? 0 then Some []
      else match m_string r with Some s => Some (c :: s) | None => None end
  | _ => None
  end.

(* strophe_strdup(ctx, m + p)  (strophe_strndup with len = SIZE_MAX):
   l = strlen(s); copy = alloc(l + 1); memcpy(copy, s, l); copy[l] = 0 *)
Definition m_strdup (m : cells) (p : nat) : option cells :=
  do l <- m_strlen (skipn p m);
  do copy <- m_memcpy (alloc (l + 1)) 0 m p l;
  m_store copy l 0.

(* result of a public function as the caller sees it *)
Inductive jres : Type :=
| JStr (s : list Z)     (* non-NULL result: the C string read from the returned block *)
| JNull                 (* NULL *)
| JOOB.                 (* the model left a block or read an unwritten cell *)

Definition oret (r : option (option cells)) : jres :=
  match r with
  | None => JOOB
  | Some None => JNull
  | Some (Some m) => match m_string m with Some s => JStr s | None => JOOB end
  end.

(* char *x = strchr(dup, c); if (x != NULL) *x = '\0'; *)
Definition cut_at (dup : cells) (c : Z) : option cells :=
  do x <- m_strchr dup c;
  match x with
  | Some i => m_store dup i 0
  | None => Some dup
  end.

(* xmpp_jid_bare *)
Definition jid_bare (jid : list Z) : jres :=
  let m := cstr jid in
  oret (do len <- m_strcspn m jid_bare_stop;
        do result <- m_memcpy (alloc (len + 1)) 0 m 0 len;
        do result <- m_store result len 0;
        Some (Some result)).

(* xmpp_jid_node *)
Definition jid_node (jid : list Z) : jres :=
  let m := cstr jid in
  oret (do dup <- m_strdup m 0;
        do dup <- cut_at dup jid_node_cut;
        do c <- m_strchr dup jid_node_sep;
        match c with
        | Some i =>
            do result <- m_memcpy (alloc (i + 1)) 0 dup 0 i;
            do result <- m_store result i 0;
            Some (Some result)
        | None => Some None
        end).

(* xmpp_jid_domain *)
Definition jid_domain (jid : list Z) : jres :=
  let m := cstr jid in
  oret (do dup <- m_strdup m 0;
        do dup <- cut_at dup jid_domain_cut;
        do at_sign <- m_strchr dup jid_domain_sep;
        do result <- match at_sign with
                     | Some i => m_strdup dup (i + 1)
                     | None => m_strdup dup 0
                     end;
        Some (Some result)).

(* xmpp_jid_resource *)
Definition jid_resource (jid : list Z) : jres :=
  let m := cstr jid in
  oret (do c <- m_strchr m jid_resource_sep;
        match c with
        | Some i => do result <- m_strdup m (i + 1); Some (Some result)
        | None => Some None
        end).

(* xmpp_jid_new; None arguments are NULL pointers *)
Definition jid_new (node domain resource : option (list Z)) : jres :=
  match domain with
  | None => JNull                                  (* "domainpart missing." *)
  | Some d =>
    oret (do dlen <- m_strlen (cstr d);
          do nlen <- match node with
                     | Some n => do l <- m_strlen (cstr n); Some (l + 1)%nat
                     | None => Some O
                     end;
          do rlen <- match resource with
                     | Some r => do l <- m_strlen (cstr r); Some (l + 1)%nat
                     | None => Some O
                     end;
          let len := (nlen + dlen + rlen)%nat in
          if Z.of_nat dlen >? jid_dlen_max then Some None else   (* "domainpart too long." *)
          if Z.of_nat nlen >? jid_nlen_max then Some None else   (* "localpart too long." *)
          if Z.of_nat rlen >? jid_rlen_max then Some None else   (* "resourcepart too long." *)
          do bad <- match node with
                    | Some n => do k <- m_strcspn (cstr n) jid_forbidden;
                                Some (negb (k =? nlen - 1)%nat)
                    | None => Some false
                    end;
          if bad then Some None else                             (* "invalid character." *)
          let result := alloc (len + 1) in
          do result <- match node with
                       | Some n => do x <- m_memcpy result 0 (cstr n) 0 (nlen - 1);
                                   m_store x (nlen - 1) jid_new_at
                       | None => Some result
                       end;
          do result <- m_memcpy result nlen (cstr d) 0 dlen;
          do result <- match resource with
                       | Some r => do x <- m_store result (nlen + dlen) jid_new_slash;
                                   m_memcpy x (nlen + dlen + 1) (cstr r) 0 (rlen - 1)
                       | None => Some result
                       end;
          do result <- m_store result len 0;
          Some (Some result))
  end.
