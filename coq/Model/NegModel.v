(* NegModel: the connection automaton of libstrophe (conn.c, auth.c, handler.c, event.c) at the
   granularity of parsed top-level elements.  Executable definitions only, no proofs.
   Constants, handler filters, periods come from Gen_neg (regenerated from the C source). *)
Require Import LV.Common.Bytes LV.Gen.Gen_neg LV.Model.NegState.
From Coq Require Import String.
Local Open Scope Z_scope.

(* ------------------------------------------------------------------ decidable equalities *)
Definition mech_eqb (a b : mech) : bool :=
  match a, b with
  | MPlain, MPlain | MDigest, MDigest | MAnon, MAnon | MExternal, MExternal => true
  | MScram n, MScram m => Nat.eqb n m
  | _, _ => false
  end.
Definition ns_eqb (a b : ns) : bool :=
  match a, b with
  | NsStreams, NsStreams | NsTls, NsTls | NsSasl, NsSasl | NsCompress, NsCompress | NsSm, NsSm | NsBind, NsBind
  | NsSession, NsSession | NsClient, NsClient | NsComponent, NsComponent | NsStanzas, NsStanzas | NsOther, NsOther
  | NsNone, NsNone => true
  | _, _ => false
  end.
Definition ename_eqb (a b : ename) : bool :=
  match a, b with
  | NmStream, NmStream | NmError, NmError | NmFeatures, NmFeatures | NmProceed, NmProceed | NmFailure, NmFailure
  | NmSuccess, NmSuccess | NmChallenge, NmChallenge | NmCompressed, NmCompressed | NmEnabled, NmEnabled
  | NmResumed, NmResumed | NmFailed, NmFailed | NmR, NmR | NmA, NmA | NmHandshake, NmHandshake | NmIq, NmIq
  | NmMessage, NmMessage | NmPresence, NmPresence | NmOther, NmOther => true
  | _, _ => false
  end.
Definition hkind_eqb (a b : hkind) : bool :=
  match a, b with
  | HUser, HUser | HError, HError | HFeatures, HFeatures | HProceedTls, HProceedTls | HDigestChallenge, HDigestChallenge
  | HDigestRspauth, HDigestRspauth | HFeaturesSasl, HFeaturesSasl | HFeaturesCompress, HFeaturesCompress
  | HCompressResult, HCompressResult | HSm, HSm | HComponentHs, HComponentHs => true
  | HSaslResult m, HSaslResult m' => mech_eqb m m'
  | HScramChallenge n k, HScramChallenge n' k' => Nat.eqb n n' && Nat.eqb k k'
  | _, _ => false
  end.
Definition idk_eqb (a b : idk) : bool :=
  match a, b with IKBind, IKBind | IKSession, IKSession | IKLegacy, IKLegacy | IKUser, IKUser => true | _, _ => false end.
Definition tkind_eqb (a b : tkind) : bool :=
  match a, b with
  | TUser, TUser | TMissingFeatures, TMissingFeatures | TMissingFeaturesSasl, TMissingFeaturesSasl
  | TMissingBind, TMissingBind | TMissingSession, TMissingSession | TMissingLegacy, TMissingLegacy
  | TMissingHandshake, TMissingHandshake | TDisconnectCleanup, TDisconnectCleanup => true
  | _, _ => false
  end.

Definition mem_mech (m : mech) (l : list mech) : bool := existsb (mech_eqb m) l.
Definition add_mech (m : mech) (l : list mech) : list mech := if mem_mech m l then l else l ++ [m].
Definition del_mech (m : mech) (l : list mech) : list mech := filter (fun x => negb (mech_eqb m x)) l.

(* errno values used in notifications *)
Definition ECONNRESET : Z := 104.
Definition ECONNABORTED : Z := 103.
Definition ETIMEDOUT : Z := 110.
Definition EPROTO : Z := 71.
Definition XMPP_EOK : Z := 0.
Definition XMPP_EINVOP : Z := -2.
Definition XMPP_EINT : Z := -3.

(* ------------------------------------------------------------------ tables taken from the generated skeleton *)
Definition hname (k : hkind) : string :=
  match k with
  | HUser => "user" | HError => "_handle_error" | HFeatures => "_handle_features"
  | HProceedTls => "_handle_proceedtls_default" | HSaslResult _ => "_handle_sasl_result"
  | HDigestChallenge => "_handle_digestmd5_challenge" | HDigestRspauth => "_handle_digestmd5_rspauth"
  | HScramChallenge _ _ => "_handle_scram_challenge" | HFeaturesSasl => "_handle_features_sasl"
  | HFeaturesCompress => "_handle_features_compress" | HCompressResult => "_handle_compress_result"
  | HSm => "_handle_sm" | HComponentHs => "_handle_component_hs_response"
  end%string.

Definition ns_of_macro (s : string) : option (option ns) :=
  if String.eqb s "NULL" then Some None
  else if String.eqb s "XMPP_NS_STREAMS" then Some (Some NsStreams)
  else if String.eqb s "XMPP_NS_TLS" then Some (Some NsTls)
  else if String.eqb s "XMPP_NS_SASL" then Some (Some NsSasl)
  else if String.eqb s "XMPP_NS_COMPRESSION" then Some (Some NsCompress)
  else if String.eqb s "XMPP_NS_SM" then Some (Some NsSm)
  else None.
Definition name_of_lit (s : string) : option (option ename) :=
  if String.eqb s "NULL" then Some None
  else if String.eqb s "'features'" then Some (Some NmFeatures)
  else if String.eqb s "'error'" then Some (Some NmError)
  else if String.eqb s "'handshake'" then Some (Some NmHandshake)
  else None.

(* first handler_add(...) registration of the C function `nm` found in the skeleton *)
Fixpoint find_add (nm : string) (sk : list (string * string * list string)) : option (list string) :=
  match sk with
  | [] => None
  | (_, call, args) :: r =>
      if String.eqb call "handler_add" then
        match args with
        | h :: _ => if String.eqb h nm then Some args else find_add nm r
        | _ => find_add nm r
        end
      else find_add nm r
  end.

(* filter (namespace, name) of a stanza handler; an unknown registration yields a filter that
   never matches the intended elements (NsOther), so a changed C registration changes behaviour *)
Definition hfilter (k : hkind) : option ns * option ename :=
  match k with
  | HUser => (None, None)
  | _ => match find_add (hname k) skeleton with
         | Some [_; nsm; nml; _] =>
             match ns_of_macro nsm, name_of_lit nml with
             | Some f1, Some f2 => (f1, f2)
             | _, _ => (Some NsOther, Some NmOther)
             end
         | _ => (Some NsOther, Some NmOther)
         end
  end.

Definition tname (k : tkind) : string :=
  match k with
  | TUser => "user" | TMissingFeatures => "_handle_missing_features"
  | TMissingFeaturesSasl => "_handle_missing_features_sasl" | TMissingBind => "_handle_missing_bind"
  | TMissingSession => "_handle_missing_session" | TMissingLegacy => "_handle_missing_legacy"
  | TMissingHandshake => "_handle_missing_handshake" | TDisconnectCleanup => "_disconnect_cleanup"
  end%string.
Definition timeout_of_macro (s : string) : option Z :=
  if String.eqb s "FEATURES_TIMEOUT" then Some FEATURES_TIMEOUT
  else if String.eqb s "BIND_TIMEOUT" then Some BIND_TIMEOUT
  else if String.eqb s "SESSION_TIMEOUT" then Some SESSION_TIMEOUT
  else if String.eqb s "LEGACY_TIMEOUT" then Some LEGACY_TIMEOUT
  else if String.eqb s "HANDSHAKE_TIMEOUT" then Some HANDSHAKE_TIMEOUT
  else if String.eqb s "DISCONNECT_TIMEOUT" then Some DISCONNECT_TIMEOUT
  else None.
Fixpoint find_timed (nm : string) (sk : list (string * string * list string)) : option string :=
  match sk with
  | [] => None
  | (_, call, args) :: r =>
      if String.eqb call "handler_add_timed" then
        match args with
        | [h; p] => if String.eqb h nm then Some p else find_timed nm r
        | _ => find_timed nm r
        end
      else find_timed nm r
  end.
Definition tperiod (s : state) (k : tkind) : Z :=
  match k with
  | TUser => match user_timed s with Some p => p | None => 0 end
  | _ => match find_timed (tname k) skeleton with
         | Some m => match timeout_of_macro m with Some v => v | None => 0 end
         | None => 0
         end
  end.

(* SCRAM: index into scram_order (generated); -PLUS variants by name *)
Fixpoint ends_with_plus (s : string) : bool :=
  match s with
  | EmptyString => false
  | String _ r => if String.eqb s "-PLUS" then true else ends_with_plus r
  end.
Definition scram_is_plus (n : nat) : bool := ends_with_plus (nth n scram_order ""%string).
Definition scram_count : nat := List.length scram_order.
Fixpoint first_scram (i : nat) (k : nat) (l : list mech) : option nat :=   (* first supported alg in scram_algs[] order *)
  match k with
  | O => None
  | S k' => if mem_mech (MScram i) l then Some i else first_scram (S i) k' l
  end.
Definition is_scram (m : mech) : bool := match m with MScram _ => true | _ => false end.
Definition is_plain_or_anon (m : mech) : bool := match m with MPlain | MAnon => true | _ => false end.

(* ------------------------------------------------------------------ small state helpers *)
Definition emit := list out.
Definition R : Type := state * emit.
Definition ret (s : state) : R := (s, []).
Definition bind (r : R) (f : state -> R) : R := let '(s, o) := r in let '(s', o') := f s in (s', o ++ o').
Notation "r >>= f" := (bind r f) (at level 50, left associativity).
Definition say (o : out) (s : state) : R := (s, [o]).

(* ------------------------------------------------------------------ history variables (never read by the code above/below) *)
Definition ghost0 : ghost :=
  mkGhost false [] false false false false false false false false false false false false false false false false false
          false false false O O false false None false.
Definition upg (f : ghost -> ghost) (s : state) : state := set_gh (f (gh s)) s.
Definition is_strong (cert : bool) (m : mech) : bool :=
  match m with MScram _ | MDigest => true | MExternal => cert | _ => false end.
(* what a received, dispatched element tells an observer *)
Definition note_rx (e : elem) (s : state) : state :=
  let g := gh s in
  let g1 :=
    if ns_eqb (e_ns e) NsStreams && ename_eqb (e_name e) NmFeatures then
      let g' := set_g_offer_tls (g_offer_tls g || e_starttls e) (set_g_offered (g_offered g ++ e_mechs e)
                (set_g_offer_zlib (g_offer_zlib g || e_zlib e) (set_g_offer_bind (g_offer_bind g || e_bind e)
                (set_g_offer_session (g_offer_session g || e_session e) (set_g_offer_sm (g_offer_sm g || e_sm e) g))))) in
      if g_feat_seen g then g'
      else set_g_feat_seen true (set_g_strong (g_strong g || existsb (is_strong (cert_set s)) (e_mechs e)) g')
    else g in
  let g2 := if ns_eqb (e_ns e) NsSasl && ename_eqb (e_name e) NmSuccess then set_g_auth_ok true g1 else g1 in
  let g3 := match e_id e, e_type e with
            | IdBind, TyResult => set_g_bound true g2
            | IdAuth, TyResult => if ename_eqb (e_name e) NmIq then set_g_legacy_ok true g2 else g2
            | _, _ => g2
            end in
  let g4 := if ns_eqb (e_ns e) NsSm && ename_eqb (e_name e) NmResumed then set_g_resumed true g3 else g3 in
  let g5 := if ename_eqb (e_name e) NmHandshake then set_g_hs_ok true g4 else g4 in
  let g6 := if ns_eqb (e_ns e) NsStreams && ename_eqb (e_name e) NmError then set_g_serr (Some (e_cond e, e_text e)) g5 else g5 in
  set_gh g6 s.
Definition se_eqb (a b : option (Z * bool)) : bool :=
  match a, b with
  | None, None => true
  | Some (c, t), Some (c', t') => (c =? c') && Bool.eqb t t'
  | _, _ => false
  end.
Definition note_out (g : ghost) (o : out) : ghost :=
  match o with
  | OConnect => set_g_connects (S (g_connects g)) g
  | ODisconnect _ _ => set_g_disconnects (S (g_disconnects g)) g
  | OTlsStart true => set_g_tls_up true g
  | ORawConnect => set_g_rawc true g
  | _ => g
  end.
Definition note_outs (outs : list out) (s : state) : state := set_gh (fold_left note_out outs (gh s)) s.

Definition is_secured (s : state) : bool := secured s && negb (tls_failed s) && tls_present s.
Definition is_connected_owner (s : state) (user : bool) : bool :=
  match st s with Connected => negb user || neg_done s | _ => false end.

(* _send_raw: append, and the <r/> piggy-back *)
Definition q_append (w : welem) (user smown0 : bool) (s : state) : state :=
  (* library elements queued before stream management is enabled precede <enable/> on the wire:
     _send_raw turns their owner into SM_STROPHE so that they are never counted nor retained *)
  let smown := smown0 || (negb user && negb (sm_enabled s)) in
  let s1 := set_sendq (sendq s ++ [(w, user, smown)]) s in
  if negb smown && sm_enabled s1 && negb (sm_r_sent s1) then
    set_sendq (sendq s1 ++ [(WReq, false, true)]) (set_sm_r_sent true s1)
  else s1.
(* send_stanza / _send_valist: gated by _is_connected(owner) *)
Definition send_gated (w : welem) (user smown : bool) (s : state) : state :=
  if is_connected_owner s user then q_append w user smown s else s.
(* send_raw: gated by state == CONNECTED only *)
Definition send_raw_m (w : welem) (user smown : bool) (s : state) : state :=
  match st s with Connected => q_append w user smown s | _ => s end.

(* timed handler list *)
Definition timed_has (k : tkind) (s : state) : bool := existsb (fun x => tkind_eqb k (fst (fst x))) (timed s).
Definition timed_add (k : tkind) (now : Z) (s : state) : state :=
  if timed_has k s then s else set_timed ((k, false, now) :: timed s) s.
Definition timed_del (k : tkind) (s : state) : state :=
  set_timed (filter (fun x => negb (tkind_eqb k (fst (fst x)))) (timed s)) s.
Definition timed_reset_all (now : Z) (s : state) : state :=
  set_timed (map (fun x => (fst (fst x), snd (fst x), now)) (timed s)) s.

(* stanza handler list *)
Definition h_has (k : hkind) (s : state) : bool := existsb (fun x => hkind_eqb k (fst x)) (handlers s).
Definition h_add (k : hkind) (s : state) : state :=
  if h_has k s then s else set_handlers (handlers s ++ [(k, false)]) s.
Definition h_del (k : hkind) (s : state) : state :=
  set_handlers (filter (fun x => negb (hkind_eqb k (fst x))) (handlers s)) s.
Definition id_has (k : idk) (s : state) : bool := existsb (fun x => idk_eqb k (fst x)) (idhandlers s).
Definition id_add (k : idk) (s : state) : state :=
  if id_has k s then s else set_idhandlers (idhandlers s ++ [(k, false)]) s.
Definition id_del (k : idk) (s : state) : state :=
  set_idhandlers (filter (fun x => negb (idk_eqb k (fst x))) (idhandlers s)) s.

(* _reset_sm_state_for_reconnect *)
Definition reset_sm_for_reconnect (s : state) : state :=
  let s1 := set_sm_has_previd false s in
  let s2 := if sm_can_resume s1 then
              set_bound_jid false (set_sm_parked (bound_jid s1) (set_sm_has_id false (set_sm_has_previd (sm_has_id s1) s1)))
            else set_sm_has_id false s1 in
  set_sm_bind_saved false (set_sm_resume false (set_sm_support false (set_sm_enabled false (set_sm_r_sent false s2)))).

Definition ULONG_MAX : Z := 18446744073709551615.
(* _sm_queue_cleanup: pop while head.sm_h < h *)
Fixpoint drop_below (h : Z) (q : list (welem * bool * bool * Z)) : list (welem * bool * bool * Z) :=
  match q with
  | x :: r => if snd x <? h then drop_below h r else q
  | [] => []
  end.
Definition sm_queue_cleanup (h : Z) (s : state) : state := set_smq (drop_below h (smq s)) s.
(* _sm_queue_resend: every retained element goes through send_raw() with its original owner *)
Definition sm_queue_resend (s : state) : state :=
  fold_left (fun a x => send_raw_m (fst (fst (fst x))) (snd (fst (fst x))) (snd (fst x)) a) (smq s) (set_smq [] s).

(* conn_disconnect (idempotent) *)
Definition conn_disconnect (s : state) : R :=
  match st s with
  | Disconnected => ret s
  | _ =>
      if negb (sm_alloc s) then (set_crashed true s, [OCrash]) else
      let s1 := set_neg_done false (set_st Disconnected s) in
      let o1 := if tls_present s1 then [OTlsStop] else [] in
      let s2 := set_tls_present false s1 in
      let s3 := reset_sm_for_reconnect s2 in
      (* observer: the stream error reported is the last one received on this connection *)
      let s4 := if is_raw s3 || se_eqb (stream_error s3) (g_serr (gh s3)) then s3 else upg (set_g_se_bad true) s3 in
      (s4, o1 ++ [OSockClose; ODisconnect (err s4) (stream_error s4)])
  end.

(* xmpp_disconnect *)
Definition xmpp_disconnect (now : Z) (s : state) : state :=
  match st s with
  | Disconnected => s
  | _ => timed_add TDisconnectCleanup now (send_gated WClose false true s)
  end.

(* conn_open_stream *)
Definition conn_open_stream (s : state) : state :=
  send_gated (WHeader (tls_present s && jid_node s)) false true s.

Definition prepare_reset (h : openh) (s : state) : state := set_oh h (set_reset_parser true s).

(* conn_tls_start: Some s' on success *)
Definition conn_tls_start (s : state) : state * emit * bool :=
  if f_tls_disabled s then (s, [], false)
  else if negb (tlsnew_ok s) then (s, [], false)
  else
    let v := match tls_verdicts s with b :: _ => b | [] => true end in
    let s1 := set_tls_verdicts (tl (tls_verdicts s)) s in
    if v then (set_tls_present true (set_secured true s1), [OTlsStart true], true)
    else (set_tls_present false (set_tls_failed true (set_err EPROTO s1)), [OTlsStart false], false).

(* what an observer must have seen for "connected" to be a legitimate report (C03) *)
Definition connect_justified (s : state) : bool :=
  let g := gh s in
  if is_raw s then g_raw_open g
  else match typ s with
       | TClient => (g_auth_ok g && (g_bound g || g_resumed g)) || g_legacy_ok g
       | TComponent => g_hs_ok g
       end.

Definition stream_negotiation_success (s : state) : R :=
  if negb (is_raw s) && neg_done s then ret s else
  let s1 := if connect_justified s then s else upg (set_g_conn_unjust true) s in
  (set_neg_done true s1, [OConnect]).

(* _do_bind(conn, bind): bind == NULL is dereferenced when a resource is requested or when added to the iq *)
Definition do_bind (now : Z) (have_bind : bool) (s : state) : R :=
  let s1 := timed_add TMissingBind now (id_add IKBind s) in
  if negb have_bind then (set_crashed true s1, [OCrash])
  else ret (send_gated (WBind (jid_res s1)) false false s1).

Definition session_start (now : Z) (s : state) : state :=
  send_gated WSession false false (timed_add TMissingSession now (id_add IKSession s)).

Definition sm_enable (s : state) : state :=
  let s1 := h_add HSm s in
  let s2 := send_gated (WEnable (negb (sm_dont_request s1))) false true s1 in
  set_sm_enabled true (set_sm_sent 0 s2).

(* _auth_legacy *)
Definition auth_legacy (now : Z) (s : state) : state :=
  if negb (jid_res s) then xmpp_disconnect now s   (* "Cannot authenticate without resource" (resource NULL) *)
  else send_gated WLegacy false false (timed_add TMissingLegacy now (id_add IKLegacy s)).

(* _auth; fuel covers the single self-recursion after a failed tls_new probe *)
Fixpoint auth (fuel : nat) (now : Z) (s : state) : R :=
  let anon := negb (jid_node s) in
  if tls_support s then
    if negb (tlsnew_ok s) then
      match fuel with
      | O => (set_crashed true s, [OCrash])   (* out of fuel: would be unbounded recursion *)
      | S f => auth f now (set_tls_support false s)
      end
    else
      let s1 := h_add HProceedTls s in
      let s2 := send_gated WStartTls false false s1 in
      ret (set_tls_support false s2)
  else if f_tls_mandatory s && negb (is_secured s) then conn_disconnect s
  else if anon && mem_mech MAnon (sasl s) then
    ret (set_sasl (del_mech MAnon (sasl s)) (send_gated (WAuth MAnon) false false (h_add (HSaslResult MAnon) s)))
  else if mem_mech MExternal (sasl s) then
    ret (set_sasl (del_mech MExternal (sasl s)) (send_gated (WAuth MExternal) false false (h_add (HSaslResult MExternal) s)))
  else if anon then ret (xmpp_disconnect now s)
  else if negb (pass_set s) then ret (xmpp_disconnect now s)
  else match first_scram 0 scram_count (sasl s) with
       | Some n =>
           (* _make_scram_init_msg fails for a -PLUS variant without TLS or without channel-binding data *)
           if scram_is_plus n && (negb (is_secured s) || negb (cb_avail s)) then ret (xmpp_disconnect now s)
           else ret (set_scram_serial (S (scram_serial s)) (set_sasl (del_mech (MScram n) (sasl s))
                       (send_gated (WAuth (MScram n)) false false (h_add (HScramChallenge n (scram_serial s)) s))))
       | None =>
           if mem_mech MDigest (sasl s) then
             ret (set_sasl (del_mech MDigest (sasl s)) (send_gated (WAuth MDigest) false false (h_add HDigestChallenge s)))
           else if mem_mech MPlain (sasl s) then
             ret (set_sasl (del_mech MPlain (sasl s)) (send_gated (WAuth MPlain) false false (h_add (HSaslResult MPlain) s)))
           else match typ s with
                | TClient => if f_legacy_auth s then ret (auth_legacy now s) else ret (xmpp_disconnect now s)
                | TComponent => ret (xmpp_disconnect now s)
                end
       end.

(* _handle_sasl_result *)
Definition sasl_result (now : Z) (e : elem) (s : state) : R :=
  match e_name e with
  | NmFailure => auth 1 now s
  | NmSuccess => ret (conn_open_stream (prepare_reset (if f_comp_allowed s then OpenCompress else OpenSasl) s))
  | _ => ret (xmpp_disconnect now s)
  end.

(* _handle_features_sasl *)
Definition features_sasl (now : Z) (e : elem) (s : state) : R :=
  let s0 := timed_del TMissingFeaturesSasl s in
  let s1 := set_bind_required (e_bind e) s0 in
  let s2 := if e_session e then set_session_required (negb (e_session_opt e)) s1 else s1 in
  let s3 := if e_sm e then set_sm_support true s2 else s2 in
  if negb (f_sm_disable s3) && sm_support s3 && sm_can_resume s3 && sm_has_previd s3 && sm_parked s3 then
    let s4 := set_sm_resume true (set_sm_bind_saved (e_bind e) s3) in
    ret (h_add HSm (send_gated WResume false true s4))
  else if bind_required s3 then do_bind now true s3
  else ret (xmpp_disconnect now s3).

(* the stanza handlers: result state, outputs, keep? *)
Definition call_handler (k : hkind) (now : Z) (e : elem) (s : state) : state * emit * bool :=
  match k with
  | HUser => (s, [OUserHandler], true)
  | HError => (set_stream_error (Some (e_cond e, e_text e)) s, [], true)
  | HFeatures =>
      let s0 := timed_del TMissingFeaturesSasl (timed_del TMissingFeatures s) in
      let s1 := if secured s0 then s0
                else if f_tls_disabled s0 then set_tls_support false s0
                else if e_starttls e then set_tls_support true s0 else s0 in
      let offered := filter (fun m => match m with MExternal => cert_set s1 | _ => true end) (e_mechs e) in
      let s2 := set_sasl (fold_left (fun l m => add_mech m l) offered (sasl s1)) s1 in
      let s3 := if existsb (fun m => negb (is_plain_or_anon m)) (sasl s2) then set_sasl (del_mech MPlain (sasl s2)) s2 else s2 in
      let '(s4, o) := auth 1 now s3 in (s4, o, false)
  | HProceedTls =>
      match e_name e with
      | NmProceed =>
          let '(s1, o, ok) := conn_tls_start s in
          if ok then (conn_open_stream (prepare_reset OpenTls s1), o, false)
          else (xmpp_disconnect now s1, o, false)
      | _ => (s, [], false)
      end
  | HSaslResult _ => let '(s1, o) := sasl_result now e s in (s1, o, false)
  | HDigestChallenge =>
      match e_name e with
      | NmChallenge =>
          if negb (e_ch_ok e) then (xmpp_disconnect now s, [], false)
          else (send_gated WResponse false false (h_add HDigestRspauth s), [], false)
      | _ => let '(s1, o) := sasl_result now e s in (s1, o, false)
      end
  | HDigestRspauth =>
      match e_name e with
      | NmChallenge => (send_gated WResponse false false s, [], true)
      | _ => let '(s1, o) := sasl_result now e s in (s1, o, false)
      end
  | HScramChallenge _ _ =>
      match e_name e with
      | NmChallenge =>
          if negb (e_ch_text e) || negb (e_ch_scram_ok e) then (xmpp_disconnect now s, [], false)
          else (send_gated WResponse false false s, [], true)
      | _ => let '(s1, o) := sasl_result now e s in (s1, o, false)
      end
  | HFeaturesSasl => let '(s1, o) := features_sasl now e s in (s1, o, false)
  | HFeaturesCompress =>
      let s0 := timed_del TMissingFeaturesSasl s in
      let s1 := if f_comp_allowed s0 && e_zlib e then set_comp_supported true s0 else s0 in
      if comp_supported s1 then (h_add HCompressResult (send_raw_m WCompress false false s1), [], false)
      else let '(s2, o) := features_sasl now e s1 in (s2, o, false)
  | HCompressResult =>
      match e_name e with
      | NmCompressed =>
          let s1 := prepare_reset OpenSasl s in
          let s2 := if f_comp_allowed s1 && comp_supported s1 then set_comp_active true s1 else s1 in
          (conn_open_stream s2, [], false)
      | _ => (s, [], false)
      end
  | HSm =>
      match e_name e with
      | NmEnabled =>
          if negb (sm_enabled s) then (s, [], false)    (* we did not send <enable/>: err_sm *)
          else if e_sm_resume e && negb (e_sm_id e) then (set_sm_enabled false s, [], false)
          else
            let s1 := if e_sm_resume e then set_sm_has_id true (set_sm_can_resume true s) else s in
            let '(s2, o) := stream_negotiation_success (sm_queue_resend s1) in (s2, o, false)
      | NmResumed =>
          if negb (e_previd e) then (set_sm_enabled false s, [], false)
          else if negb (sm_has_previd s) then (set_sm_enabled false s, [], false)
          else if negb (e_previd_ok e) || (e_h e <? 0) then (set_sm_enabled false s, [], false)
          else
            let s1 := set_sm_enabled true s in
            let s2 := set_sm_has_previd false (set_sm_has_id true s1) in
            let s3 := set_sm_parked false (set_bound_jid (sm_parked s2) s2) in
            let s3a := set_sm_sent (e_h e) s3 in
            let s3b := sm_queue_resend (sm_queue_cleanup (e_h e) s3a) in
            let '(s4, o) := stream_negotiation_success s3b in (s4, o, false)
      | NmFailed =>
          let s1 := set_sm_enabled false s in
          match e_cause e with
          | CNone => (s1, [], false)              (* err_sm: sm_enabled = (bind != NULL) = 0 *)
          | c =>
              let s2 := match c with
                        | CFeatureNotImpl => set_sm_dont_request true (set_sm_can_resume false (set_sm_resume false s1))
                        | CItemNotFound =>
                            if sm_resume s1 then sm_queue_cleanup (if 0 <=? e_h e then e_h e else 0) s1 else s1
                        | _ => s1
                        end in
              let have := sm_bind_saved s2 in
              let resuming := sm_resume s in
              (* reset_sm_state *)
              let s3 := set_sm_sent 0 (set_sm_r_sent false (set_sm_parked false (set_sm_has_previd false (set_sm_has_id false (set_sm_bind_saved false s2))))) in
              let '(s4, o) := if have then do_bind now true s3
                              else if resuming then ret (xmpp_disconnect now s3)
                              else stream_negotiation_success s3 in
              (* error tail: stream management stays off until _sm_enable() turns it on again *)
              (set_sm_enabled false s4, o, false)
          end
      | _ => (set_sm_enabled false s, [], false)
      end
  | HComponentHs =>
      match e_name e with
      | NmHandshake =>
          let s0 := timed_del TMissingHandshake s in
          let '(s1, o) := stream_negotiation_success s0 in (s1, o, false)
      | _ => (xmpp_disconnect now (timed_del TMissingHandshake s), [], false)
      end
  end.

(* id handlers *)
Definition call_id_handler (k : idk) (now : Z) (e : elem) (s : state) : R :=
  match k with
  | IKBind =>
      let s0 := timed_del TMissingBind s in
      match e_type e with
      | TyError => ret (xmpp_disconnect now s0)
      | TyResult =>
          let s1 := if e_jid e then set_bound_jid true s0 else s0 in
          if session_required s1 then ret (session_start now s1)
          else if sm_support s1 && negb (f_sm_disable s1) then ret (sm_enable s1)
          else stream_negotiation_success s1
      | _ => ret (xmpp_disconnect now s0)
      end
  | IKSession =>
      let s0 := timed_del TMissingSession s in
      match e_type e with
      | TyError => ret (xmpp_disconnect now s0)
      | TyResult => if sm_support s0 && negb (f_sm_disable s0) then ret (sm_enable s0) else stream_negotiation_success s0
      | _ => ret (xmpp_disconnect now s0)
      end
  | IKLegacy =>
      let s0 := timed_del TMissingLegacy s in
      match e_type e, e_name e with
      | TyNone, _ => ret (xmpp_disconnect now s0)
      | TyError, NmIq => ret (xmpp_disconnect now s0)
      | TyResult, NmIq => stream_negotiation_success s0
      | _, _ => ret (xmpp_disconnect now s0)
      end
  | IKUser => (s, [OUserHandler])   (* the user's id handler (xmpp_id_handler_add); it returns 1 *)
  end.

(* the id handlers of the library are one-shot (they return 0); the user's stays registered *)
Definition is_user_id (k : idk) : bool := match k with IKUser => true | _ => false end.

Definition idk_of (i : eid) : option idk :=
  match i with
  | IdBind => Some IKBind | IdSession => Some IKSession | IdAuth => Some IKLegacy
  | IdOther => Some IKUser   (* the id the user's id handler is registered for *)
  | IdNone => None
  end.

Definition filter_match (k : hkind) (e : elem) : bool :=
  let '(fns, fname) := hfilter k in
  (* library handlers match the element's own namespace only (the child-namespace match of
     handler_fire_stanza is reserved to user handlers, whose filter here is empty) *)
  (match fns with
   | None => true
   | Some n => ns_eqb n (e_ns e)
   end) &&
  (match fname with None => true | Some n => ename_eqb n (e_name e) end).

(* one visited item of the name pass *)
Definition visit (now : Z) (e : elem) (r : R) (k : hkind) : R :=
  let '(s, o) := r in
  if crashed s then r else
  if negb (h_has k s) then r else
  if hkind_eqb k HUser && negb (neg_done s) then r else
  if negb (filter_match k e) then r else
  let '(s1, o1, keep) := call_handler k now e s in
  ((if keep then s1 else h_del k s1), o ++ o1).

(* _conn_sm_handle_stanza *)
Definition sm_handle (e : elem) (s : state) : state :=
  match e_ns e with
  | NsSm | NsNone =>
      match e_name e with
      | NmR => send_gated WAck false true s
      | NmA => if e_h e =? -1 then s   (* no h attribute: ignored *)
               else set_sm_r_sent false (sm_queue_cleanup (if e_h e <? 0 then ULONG_MAX else e_h e) s)
      | _ => s
      end
  | _ => s
  end.

(* handler_fire_stanza + the SM hook of _handle_stream_stanza *)
Definition dispatch (now : Z) (e : elem) (s0 : state) : R :=
  let s := note_rx e s0 in
  if negb (sm_alloc s) then (set_crashed true s, [OCrash]) else
  (* every stanza handler present now is enabled before any handler runs (so that a handler added by an
     id handler does not see this stanza) *)
  let s := set_handlers (map (fun x => (fst x, true)) (handlers s)) s in
  (* id pass *)
  let r1 : R :=
    match idk_of (e_id e) with
    | Some k => if id_has k s then
                  (* user handlers are not fired until stream negotiation has completed *)
                  if is_user_id k && negb (neg_done s) then ret s else
                  let '(s1, o1) := call_id_handler k now e s in ((if is_user_id k then s1 else id_del k s1), o1)
                else ret s
    | None => ret s
    end in
  let '(s1, o1) := r1 in
  (* name pass: the handlers that were enabled at the start and are still registered, in list order *)
  let snapshot := map fst (filter (fun x => snd x) (handlers s1)) in
  let '(s3, o3) := fold_left (visit now e) snapshot (s1, o1) in
  if crashed s3 then (s3, o3) else
  if sm_enabled s3 then (sm_handle e s3, o3) else (s3, o3).

(* open handlers, called from _handle_stream_start *)
Definition open_handler (now : Z) (s : state) : R :=
  match oh s with
  | OpenAuth => ret (timed_add TMissingFeatures now (h_add HFeatures (h_add HError (timed_reset_all now s))))
  | OpenTls => ret (timed_add TMissingFeaturesSasl now (h_add HFeatures s))
  | OpenSasl => ret (timed_add TMissingFeaturesSasl now (h_add HFeaturesSasl s))
  | OpenCompress => ret (timed_add TMissingFeaturesSasl now (h_add HFeaturesCompress s))
  | OpenComponent =>
      let s1 := timed_add TMissingHandshake now (h_add HComponentHs (h_add HError (timed_reset_all now s))) in
      if stream_id s1 then ret (send_gated WHandshake false true s1) else ret (xmpp_disconnect now s1)
  | OpenRaw => stream_negotiation_success (timed_reset_all now s)
  | OpenStub => ret s
  end.

Definition stream_start (now : Z) (name_ok has_id : bool) (s0 : state) : R :=
  let s := upg (fun g => set_g_raw_open (name_ok || g_raw_open g) (set_g_feat_seen false g)) s0 in
  let s1 := set_stream_id false s in
  if name_ok then open_handler now (set_stream_id has_id s1) else conn_disconnect s1.

Definition stream_end (s : state) : R :=
  if negb (sm_alloc s) then (set_crashed true s, [OCrash]) else
  conn_disconnect (timed_del TDisconnectCleanup (set_sm_can_resume false s)).

(* ------------------------------------------------------------------ parser layer at item granularity *)

Definition nested_stream_elem (cns : list ns) : elem :=
  mkElem NsStreams NmStream TyNone IdNone cns false [] false false false false false false false false false
         false false false false (-1) CNone (-1) false.

(* returns the new state, outputs and whether the parser hit an error (rest of the chunk is dropped) *)
Definition feed_item (now : Z) (it : item) (s : state) : state * emit * bool :=
  match ps s, it with
  | PDead, _ => (s, [], true)
  | PClosed, _ => (set_ps PDead s, [], true)
  | _, IGarbage => (set_ps PDead s, [], true)
  | PDepth0, IHeader h => let '(s1, o) := stream_start now true h (set_ps POpen s) in (s1, o, false)
  | PDepth0, IElem e =>
      (* elements in the streams namespace are written with the "stream:" prefix, which is unbound
         outside a stream header: expat reports a parse error *)
      if ns_eqb (e_ns e) NsStreams then (set_ps PDead s, [], true) else
      let '(s1, o1) := stream_start now (ename_eqb (e_name e) NmStream) false (set_ps PClosed s) in
      if crashed s1 then (s1, o1, false) else
      let '(s2, o2) := stream_end s1 in (s2, o1 ++ o2, false)
  | PDepth0, IEnd => (set_ps PDead s, [], true)
  | POpen, IElem e => let '(s1, o) := dispatch now e s in (s1, o, false)
  | POpen, IHeader _ => (set_ps (PSwallow 1 []) s, [], false)
  | POpen, IEnd => let '(s1, o) := stream_end (set_ps PClosed s) in (s1, o, false)
  | PSwallow n cns, IElem e => (set_ps (PSwallow n (if Nat.eqb n 1 then cns ++ [e_ns e] else cns)) s, [], false)
  | PSwallow n cns, IHeader _ => (set_ps (PSwallow (S n) (if Nat.eqb n 1 then cns ++ [NsStreams] else cns)) s, [], false)
  | PSwallow n cns, IEnd =>
      match n with
      | S O => let '(s1, o) := dispatch now (nested_stream_elem cns) (set_ps POpen s) in (s1, o, false)
      | S m => (set_ps (PSwallow m cns) s, [], false)
      | O => (set_ps POpen s, [], false)
      end
  end.

Fixpoint feed_items (now : Z) (its : list item) (s : state) : state * emit * bool :=
  match its with
  | [] => (s, [], false)
  | it :: r =>
      if crashed s then (s, [], false) else
      let '(s1, o1, bad) := feed_item now it s in
      if bad then (s1, o1, true)
      else let '(s2, o2, bad2) := feed_items now r s1 in (s2, o1 ++ o2, bad2)
  end.

(* ------------------------------------------------------------------ timed handlers *)
Definition call_timed (k : tkind) (now : Z) (s : state) : state * emit * bool :=
  match k with
  | TUser => (s, [OUserTimed], true)
  | TMissingFeatures => let '(s1, o) := auth 1 now s in (s1, o, false)
  | TDisconnectCleanup => let '(s1, o) := conn_disconnect s in (s1, o, false)
  | _ => (xmpp_disconnect now s, [], false)
  end.

Definition timed_lookup (k : tkind) (s : state) : option (bool * Z) :=
  match find (fun x => tkind_eqb k (fst (fst x))) (timed s) with
  | Some (_, en, stp) => Some (en, stp)
  | None => None
  end.
Definition timed_set_stamp (k : tkind) (now : Z) (s : state) : state :=
  set_timed (map (fun x => if tkind_eqb k (fst (fst x)) then (fst (fst x), snd (fst x), now) else x) (timed s)) s.

Definition visit_timed (now : Z) (r : R) (k : tkind) : R :=
  let '(s, o) := r in
  if crashed s then r else
  match timed_lookup k s with
  | None => r
  | Some (en, stp) =>
      if negb en then r else
      if tkind_eqb k TUser && negb (neg_done s) then r else
      if now - stp >=? tperiod s k then
        let s1 := timed_set_stamp k now s in
        let '(s2, o2, keep) := call_timed k now s1 in
        ((if keep then s2 else timed_del k s2), o ++ o2)
      else r
  end.

(* handler_fire_timed for the connection (only while CONNECTED) *)
Definition fire_timed (now : Z) (s : state) : R :=
  match st s with
  | Connected =>
      let s1 := set_timed (map (fun x => (fst (fst x), true, snd x)) (timed s)) s in
      fold_left (visit_timed now) (map (fun x => fst (fst x)) (timed s1)) (s1, [])
  | _ => ret s
  end.

(* ------------------------------------------------------------------ sockets *)
(* sock_connect: next candidate that does not refuse at once; every refused attempt closes its socket *)
Fixpoint sock_connect (c : list epk) : emit * option (epk * list epk) :=
  match c with
  | [] => ([], None)
  | EpRefuse :: r => let '(o, x) := sock_connect r in (OSockClose :: o, x)
  | k :: r => ([], Some (k, r))
  end.

(* _connect_next: closes the current socket first *)
Definition connect_next (now : Z) (s : state) : state * emit * bool :=
  match sock_connect (cands s) with
  | (o, None) => (set_cands [] s, OSockClose :: o, false)
  | (o, Some (k, r)) => (set_rxq [] (set_stamp now (set_cur_ep k (set_cands r s))), OSockClose :: o, true)
  end.

(* conn_established *)
Definition conn_established (now : Z) (s : state) : R :=
  let r0 : state * emit * bool :=
    if f_legacy_ssl s && negb (is_raw s) then conn_tls_start s else (s, [], true) in
  let '(s1, o1, ok) := r0 in
  if negb ok then let '(s2, o2) := conn_disconnect s1 in (s2, o1 ++ o2)
  else if is_raw s1 then (set_neg_done true (timed_reset_all now s1), o1 ++ [ORawConnect])
  else (conn_open_stream s1, o1).

(* _conn_reset *)
Definition conn_reset (s : state) : state :=
  match st s with
  | Disconnected =>
      let s1 := set_sendq [] (set_comp_active false s) in
      let s2 := set_stream_error None (set_bound_jid false (set_stream_id false (set_neg_done false s1))) in
      let s3 := set_secured false (set_tls_failed false (set_err 0 (set_tls_support false s2))) in
      let s4 := set_sasl [] (set_comp_supported false (set_bind_required false (set_session_required false s3))) in
      let s5 := set_handlers (filter (fun x => hkind_eqb (fst x) HUser) (handlers s4)) s4 in
      (* handler_system_delete_all: the user's id handler survives *)
      let s6 := set_idhandlers (filter (fun x => idk_eqb (fst x) IKUser) (idhandlers s5)) s5 in
      set_timed (filter (fun x => tkind_eqb (fst (fst x)) TUser) (timed s6)) s6
  | _ => s
  end.

(* ------------------------------------------------------------------ user operations and the event loop *)

Inductive op : Type :=
| OpSetFlags (w : Z)
| OpSetJid (node res : bool) | OpSetPass (b : bool) | OpSetCert (b : bool)
| OpUserHandlers (now : Z) (stanza : bool) (timed : option Z)
| OpEnv (tlsnew cb : bool) (verdicts : list bool)
| OpCands (eps : list epk)
| OpConnectClient (now : Z) | OpConnectRaw (now : Z) | OpConnectComponent (now : Z)
| OpRun (now : Z) (rd : rdev)
| OpDisconnect (now : Z)
| OpSend | OpSendRaw
| OpIs
| OpOpenStream | OpRelease.

Definition testbit (w f : Z) : bool := Z.odd (w / f).
Definition flags_readback (s : state) : Z :=
  (if f_tls_disabled s then FLAG_DISABLE_TLS else 0) + (if f_tls_mandatory s then FLAG_MANDATORY_TLS else 0) +
  (if f_legacy_ssl s then FLAG_LEGACY_SSL else 0) + (if f_tls_trust s then FLAG_TRUST_TLS else 0) +
  (if f_sm_disable s then FLAG_DISABLE_SM else 0) + (if f_comp_allowed s then FLAG_ENABLE_COMPRESSION else 0) +
  (if f_comp_dont_reset s then FLAG_COMPRESSION_DONT_RESET else 0) + (if f_legacy_auth s then FLAG_LEGACY_AUTH else 0).

Definition set_flags (w : Z) (s : state) : state * Z :=
  match st s with
  | Disconnected =>
      if testbit w flag_conflict_a && existsb (testbit w) flag_conflict_b then (s, XMPP_EINVOP)
      else
        let s1 := set_f_tls_disabled (testbit w FLAG_DISABLE_TLS) (set_f_tls_mandatory (testbit w FLAG_MANDATORY_TLS)
                  (set_f_legacy_ssl (testbit w FLAG_LEGACY_SSL) (set_f_tls_trust (testbit w FLAG_TRUST_TLS)
                  (set_f_legacy_auth (testbit w FLAG_LEGACY_AUTH) (set_f_sm_disable (testbit w FLAG_DISABLE_SM)
                  (set_f_comp_allowed (testbit w FLAG_ENABLE_COMPRESSION)
                  (set_f_comp_dont_reset (testbit w FLAG_COMPRESSION_DONT_RESET) s))))))) in
        let known := fold_left (fun a f => a + (if testbit w f then f else 0)) flags_known 0 in
        (s1, if (w - known =? 0) && (0 <=? w) then XMPP_EOK else XMPP_EINVOP)
  | _ => (s, XMPP_EINVOP)
  end.

(* _conn_connect *)
Definition conn_connect (now : Z) (t : ctype) (s : state) : state * emit * Z :=
  match st s with
  | Disconnected =>
      let s1 := set_typ t (set_sm_alloc true (conn_reset s)) in
      match sock_connect (cands s1) with
      | (o, None) => (set_cands [] s1, o, XMPP_EINT)
      | (o, Some (k, r)) =>
          let h := if is_raw s1 then OpenStub else match t with TClient => OpenAuth | TComponent => OpenComponent end in
          (set_gh (set_g_attempt true ghost0)
             (set_rxq [] (set_stamp now (set_st Connecting (prepare_reset h (set_cur_ep k (set_cands r s1)))))), o, XMPP_EOK)
      end
  | _ => (s, [], XMPP_EINVOP)
  end.

Definition connect_client (now : Z) (s0 : state) : state * emit * Z :=
  (* without a jid, the single xmppAddr of the client certificate is used (the harness certificate has one) *)
  let s := if negb (jid_set s0) && cert_set s0 then set_jid_res false (set_jid_node true (set_jid_set true s0)) else s0 in
  if negb (jid_set s) then (s, [], XMPP_EINVOP)
  else (* sock_new() rebuilds the candidate list before _conn_connect() looks at the state *)
       conn_connect now TClient (set_cands (next_cands s) s).

Definition connect_component (now : Z) (s : state) : state * emit * Z :=
  if negb (jid_set s && pass_set s) then (s, [], XMPP_EINVOP)
  else
    let w := flags_readback s in
    let w' := if f_tls_disabled s then w else w + FLAG_DISABLE_TLS in
    let '(s1, _) := set_flags w' s in
    if negb (f_tls_disabled s1) then (s1, [], XMPP_EINT) else conn_connect now TComponent (set_cands (next_cands s1) s1).

(* the send phase of xmpp_run_once (transport accepts everything) *)
Definition send_phase (s : state) : R :=
  match st s with
  | Connected =>
      let o := map (fun x => OWire (tls_present s) (fst (fst x))) (sendq s) in
      (* countable elements are stamped sm_h = sm_sent_nr++ and retained in the SM queue *)
      let countable := if sm_enabled s then filter (fun x => negb (snd x)) (sendq s) else [] in
      let stamped := snd (fold_left (fun a x => (fst a + 1, snd a ++ [(fst (fst x), snd (fst x), snd x, fst a)])) countable (sm_sent s, [])) in
      let s1 := set_sm_sent (sm_sent s + Z.of_nat (List.length countable)) (set_smq (smq s ++ stamped) (set_sendq [] s)) in
      if negb (err s1 =? 0) then
        let '(s2, o2) := conn_disconnect (set_err ECONNABORTED s1) in (s2, o ++ o2)
      else (s1, o)
  | _ => ret s
  end.

Definition run_once (now : Z) (rd0 : rdev) (s0 : state) : R :=
  if crashed s0 then ret s0 else
  (* data handed to the socket stays queued until a read takes it (one chunk per read) *)
  let s := match rd0, st s0 with
           | RdNone, _ => s0
           | _, Disconnected => s0
           | _, _ => set_rxq (rxq s0 ++ [rd0]) s0
           end in
  let '(s1, o1) := send_phase s in
  if crashed s1 then (s1, o1) else
  let s2 := if reset_parser s1 then set_ps PDepth0 (set_reset_parser false s1) else s1 in
  let '(s3, o3) := fire_timed now s2 in
  if crashed s3 then (s3, o1 ++ o3) else
  (* watch phase: connect time-out *)
  let r4 : R :=
    match st s3 with
    | Connecting =>
        if now - stamp s3 <=? CONNECT_TIMEOUT then ret s3
        else let '(s', o', ok) := connect_next now s3 in
             if ok then (s', o')
             else (* the failed sock_connect leaves conn->sock invalid: nothing more to close *)
               let s'' := set_neg_done false (set_st Disconnected (set_err ETIMEDOUT s')) in
               (reset_sm_for_reconnect s'', o' ++ [ODisconnect ETIMEDOUT (stream_error s'')])
    | _ => ret s3
    end in
  let '(s4, o4) := r4 in
  (* select: anything ready? *)
  let ready :=
    match st s4 with
    | Connecting => match cur_ep s4 with EpHang => false | _ => true end
    | Connected => (match rxq s4 with [] => false | _ => true end) || negb (Nat.eqb (List.length (sendq s4)) 0)
    | Disconnected => false
    end in
  if negb ready then (s4, o1 ++ o3 ++ o4 ++ [OIter]) else
  let r5 : R :=
    match st s4 with
    | Connecting =>
        match cur_ep s4 with
        | EpAccept => conn_established now (set_st Connected s4)
        | EpLate =>
            let '(s', o', ok) := connect_next now s4 in
            if ok then (s', o')
            else let s'' := set_neg_done false (set_st Disconnected (set_err (-1) s')) in
                 (reset_sm_for_reconnect s'', o' ++ [ODisconnect (-1) (stream_error s'')])
        | _ => ret s4
        end
    | Connected =>
        let rd := match rxq s4 with [] => RdNone | x :: _ => x end in
        let s4 := set_rxq (tl (rxq s4)) s4 in
        match rd with
        | RdNone => ret s4
        | RdChunk its =>
            let '(s', o', bad) := feed_items now its s4 in
            if bad then (send_gated WStreamErr false false s', o') else (s', o')
        | RdClose =>
            if tls_present s4 then conn_disconnect (set_err ECONNRESET s4)
            else conn_disconnect (set_err ECONNRESET s4)
        | RdReset => conn_disconnect (set_err ECONNRESET s4)
        end
    | Disconnected => ret s4
    end in
  let '(s5, o5) := r5 in
  if crashed s5 then (s5, o1 ++ o3 ++ o4 ++ o5) else
  let '(s6, o6) := fire_timed now s5 in
  (s6, o1 ++ o3 ++ o4 ++ o5 ++ o6 ++ [OIter]).

Definition step0 (s : state) (o : op) : R :=
  if crashed s then ret s else
  match o with
  | OpSetFlags w => let '(s1, rc) := set_flags w s in (s1, [OFlags rc (flags_readback s1)])
  (* the user program configures the object (and the environment script is set) while it is disconnected *)
  | OpSetJid n r => match st s with Disconnected => ret (set_jid_res r (set_jid_node n (set_jid_set true s))) | _ => ret s end
  | OpSetPass b => match st s with Disconnected => ret (set_pass_set b s) | _ => ret s end
  | OpSetCert b => match st s with Disconnected => ret (set_cert_set b s) | _ => ret s end
  | OpUserHandlers now h t =>
      match st s with
      | Disconnected =>
          (* the user program registers its stanza handler and its id handler together *)
          let s1 := if h then id_add IKUser (h_add HUser s) else s in
          ret (set_user_timed t (set_user_handler h (match t with Some _ => timed_add TUser now s1 | None => s1 end)))
      | _ => ret s
      end
  | OpEnv tn cb v => match st s with Disconnected => ret (set_tls_verdicts v (set_cb_avail cb (set_tlsnew_ok tn s))) | _ => ret s end
  (* environment: the candidates the next sock_new() will find *)
  | OpCands eps => ret (set_next_cands eps s)
  | OpConnectClient now => let '(s1, o, rc) := connect_client now s in (s1, o ++ [ORet rc])
  | OpConnectRaw now =>
      match st s with
      | Disconnected => let '(s1, o, rc) := connect_client now (set_is_raw true s) in (s1, o ++ [ORet rc])
      | _ => (s, [ORet XMPP_EINVOP])
      end
  | OpConnectComponent now => let '(s1, o, rc) := connect_component now s in (s1, o ++ [ORet rc])
  | OpRun now rd => run_once now rd s
  | OpDisconnect now => ret (xmpp_disconnect now s)
  | OpSend => ret (send_gated WUser true false s)
  | OpSendRaw => ret (send_raw_m WUserRaw true false s)
  | OpIs =>
      let cing := match st s with Connecting => true | Connected => negb (neg_done s) | Disconnected => false end in
      let ced := is_connected_owner s true in
      let dis := match st s with Disconnected => true | _ => false end in
      (s, [OIs cing ced dis (is_secured s)])
  | OpOpenStream =>
      if is_raw s then ret (conn_open_stream (prepare_reset OpenRaw s)) else ret s
  | OpRelease =>
      match st s with
      | Disconnected => ret s
      | _ => conn_disconnect s
      end
  end.

Definition step (s : state) (o : op) : R :=
  let '(s1, outs) := step0 s o in (note_outs outs s1, outs).

Definition init_state : state :=
  mkState false false false false false false false false
          false false false false false false TClient
          false None
          true false [] [] [] EpAccept
          Disconnected 0 0 None
          false false false false
          [] false false
          false false
          false false false false false
          false false false false
          false false
          false false false
          false OpenStub PDepth0
          [] [] []
          []
          []
          [] 0 O
          false
          ghost0.

Fixpoint run (s : state) (ops : list op) : state * list out :=
  match ops with
  | [] => (s, [])
  | o :: r => let '(s1, o1) := step s o in let '(s2, o2) := run s1 r in (s2, o1 ++ o2)
  end.
