(* C10 - executable model of src/parser_expat.c: the layer libstrophe puts on top of expat, as a
   state machine over SAX events (definitions only, no proofs).

   expat itself is an input: the events it delivers (SStart/SEnd/SChars) and the owner's restart
   (SReset = parser_reset, called by the event loop between two feeds) drive the machine; the
   outputs are the calls of startcb / stanzacb / endcb.

   struct _parser_t                         model
     int depth                              depth : Z
     xmpp_stanza_t *stanza (+ ->parent..)   stanza : list frame   (innermost first; [] = NULL).
                                            A child is linked to its parent when it is opened and
                                            nothing is appended to the parent before the child is
                                            closed, so "append on close" yields the same child order.
     char *inner_text                       inner_text : option str  (None = NULL; Some c = the C
                                            string held in the buffer, i.e. its bytes before the NUL)
     int inner_text_size, inner_text_used   it_size, it_used : Z     (exactly as the C manages them)

   Failure outcomes (ordinary, reachable values of the result type):
     Crash   a NULL pointer is dereferenced (parser->stanza->parent, strncat(NULL, ..), ..)
     Uninit  strncat scans a freshly allocated buffer whose first inner_text_used bytes were never written
     OOB     strncat writes beyond inner_text_size

   Constants come from Gen_parser (regenerated from the C source on every run).
   Not modelled: allocation failure (the `p == NULL`, `!child` branches), failure of XML_ParserReset
   (only possible from inside a handler; conn.c defers the reset to the event loop), `int` overflow
   of depth / inner_text_used (2^31 open elements / bytes of text in one node).

   parser_reset is modelled as in the tree WITH fix C10-1 (inner_text_size/used are cleared); the
   original is kept as reset_state_unfixed for the refutation lemmas.  _set_attributes is modelled
   WITH fix C10-2 (attributes without a namespace are set last). *)
Require Import LV.Common.Bytes LV.Gen.Gen_parser LV.Spec.ParserSpec.
Local Open Scope Z_scope.

Record frame : Type := { f_name : str; f_attrs : alist; f_kids : list node }.

Record pstate : Type := {
  depth : Z;
  stanza : list frame;
  inner_text : option str;
  it_size : Z;
  it_used : Z
}.

Inductive result : Type :=
| Ok (st : pstate) (outs : list out)
| Crash
| Uninit
| OOB.

(* parser_new: the stores it performs, then parser_reset on the new object *)
Definition new_state : pstate :=
  {| depth := parser_new_depth; stanza := []; inner_text := None;
     it_size := parser_new_inner_text_size; it_used := parser_new_inner_text_used |}.

(* ---- _xml_name / _xml_namespace: strchr(nsname, namespace_sep) ---- *)
Fixpoint split_sep (q : str) : option (str * str) :=
  match q with
  | [] => None
  | c :: r => if c =? namespace_sep then Some ([], r)
              else match split_sep r with
                   | Some (a, b) => Some (c :: a, b)
                   | None => None
                   end
  end.
Definition xml_name (q : str) : str :=
  match split_sep q with Some (_, l) => l | None => q end.
Definition xml_namespace (q : str) : option str :=
  match split_sep q with Some (ns, _) => Some ns | None => None end.

(* ---- xmpp_stanza_set_attribute on a TAG stanza: hash_add replaces the value of an existing key ---- *)
Fixpoint attr_set (k v : str) (l : alist) : alist :=
  match l with
  | [] => [(k, v)]
  | (k', v') :: r => if str_eqb k k' then (k', v) :: r else (k', v') :: attr_set k v r
  end.
(* _set_attributes (with fix C10-2): two passes over attrs[]; pass 0 sets the attributes whose name
   contains the separator, pass 1 those without, each as set_attribute(_xml_name(attrs[i]), attrs[i+1]) *)
Definition has_sep (k : str) : bool :=
  match split_sep k with Some _ => true | None => false end.
Fixpoint set_attributes_pass (pass : bool) (attrs : alist) (acc : alist) : alist :=
  match attrs with
  | [] => acc
  | (k, v) :: r =>
      if Bool.eqb (negb (has_sep k)) pass
      then set_attributes_pass pass r (attr_set (xml_name k) v acc)
      else set_attributes_pass pass r acc
  end.
Definition set_attributes (attrs : alist) (acc : alist) : alist :=
  set_attributes_pass true attrs (set_attributes_pass false attrs acc).

Definition close_frame (f : frame) : node := Elem (f_name f) (f_attrs f) (f_kids f).
Definition add_kid (f : frame) (n : node) : frame :=
  {| f_name := f_name f; f_attrs := f_attrs f; f_kids := f_kids f ++ [n] |}.

(* ---- complete_inner_text ---- *)
(* with parser->stanza == NULL and text pending, xmpp_stanza_add_child_ex(NULL, ..) dereferences NULL *)
Definition complete_inner_text (st : pstate) : option pstate :=
  match inner_text st with
  | None => Some st
  | Some t =>
      match stanza st with
      | [] => None
      | f :: p => Some {| depth := depth st; stanza := add_kid f (Text t) :: p;
                          inner_text := None; it_size := 0; it_used := 0 |}
      end
  end.

Definition set_depth (st : pstate) (d : Z) : pstate :=
  {| depth := d; stanza := stanza st; inner_text := inner_text st;
     it_size := it_size st; it_used := it_used st |}.
Definition set_stanza (st : pstate) (s : list frame) : pstate :=
  {| depth := depth st; stanza := s; inner_text := inner_text st;
     it_size := it_size st; it_used := it_used st |}.

(* ---- _start_element ---- *)
Definition start_element (st : pstate) (q : str) (attrs : alist) : result :=
  let ns := xml_namespace q in
  let name := xml_name q in
  if depth st =? 0 then
    Ok (set_depth st (depth st + 1)) [StreamStart name attrs]
  else
    match stanza st with
    | [] =>
        if negb (depth st =? 1) then
          (* "oops, where did our stanza go?" : nothing is built *)
          Ok (set_depth st (depth st + 1)) []
        else
          let a := set_attributes attrs [] in
          let a := match ns with Some n => attr_set xmlns_key n a | None => a end in
          let child := {| f_name := name; f_attrs := a; f_kids := [] |} in
          Ok (set_depth (set_stanza st [child]) (depth st + 1)) []
    | _ :: _ =>
        let a := set_attributes attrs [] in
        let a := match ns with Some n => attr_set xmlns_key n a | None => a end in
        let child := {| f_name := name; f_attrs := a; f_kids := [] |} in
        match complete_inner_text st with
        | None => Crash
        | Some st1 => Ok (set_depth (set_stanza st1 (child :: stanza st1)) (depth st + 1)) []
        end
    end.

(* ---- _end_element ---- *)
Definition end_element (st : pstate) (q : str) : result :=
  let st := set_depth st (depth st - 1) in
  if depth st =? 0 then Ok st [StreamEnd q]
  else
    match complete_inner_text st with
    | None => Crash
    | Some st1 =>
        match stanza st1 with
        | [] => Crash                                     (* parser->stanza->parent *)
        | [f] => Ok (set_stanza st1 []) [Stanza (close_frame f)]
        | f :: p :: rest => Ok (set_stanza st1 (add_kid p (close_frame f) :: rest)) []
        end
    end.

(* ---- _characters ---- *)
Fixpoint until_nul (s : str) : str :=
  match s with [] => [] | c :: r => if c =? 0 then [] else c :: until_nul r end.

(* strncat(parser->inner_text, s, len) with the bookkeeping around it *)
Definition strncat_text (st : pstate) (buf : option str) (size used : Z) (s : str) : result :=
  match buf with
  | None => Crash
  | Some c =>
      let c' := c ++ until_nul s in
      if size <? zlen c' + 1 then OOB
      else Ok {| depth := depth st; stanza := stanza st; inner_text := Some c';
                 it_size := size; it_used := used |} []
  end.

Definition characters (st : pstate) (s : str) : result :=
  let len := zlen s in
  if depth st <? chars_min_depth then Ok st []
  else if it_size st <=? it_used st + len then
    (* realloc, then inner_text[inner_text_used] = '\0' *)
    let size := it_used st + len + 1 + inner_text_padding in
    match inner_text st with
    | None =>
        (* realloc(NULL, size) = malloc: nothing initialised but the terminator *)
        if it_used st =? 0 then strncat_text st (Some []) size (it_used st + len) s
        else Uninit
    | Some c =>
        if size <? it_used st + 1 then OOB
        else strncat_text st (Some (firstn (Z.to_nat (it_used st)) c)) size (it_used st + len) s
    end
  else strncat_text st (inner_text st) (it_size st) (it_used st + len) s.

(* ---- parser_reset (expat side: XML_ParserReset drops whatever expat holds) ---- *)
Definition reset_state (st : pstate) : pstate :=
  {| depth := 0; stanza := []; inner_text := None; it_size := 0; it_used := 0 |}.
(* as it was before fix C10-1: inner_text freed, the two counters left alone *)
Definition reset_state_unfixed (st : pstate) : pstate :=
  {| depth := 0; stanza := []; inner_text := None; it_size := it_size st; it_used := it_used st |}.

Definition step_with (rst : pstate -> pstate) (st : pstate) (e : sax) : result :=
  match e with
  | SStart q a => start_element st q a
  | SEnd q => end_element st q
  | SChars s => characters st s
  | SReset => Ok (rst st) []
  end.

Fixpoint run_with (rst : pstate -> pstate) (st : pstate) (evs : list sax) : result :=
  match evs with
  | [] => Ok st []
  | e :: r =>
      match step_with rst st e with
      | Ok st1 o1 =>
          match run_with rst st1 r with
          | Ok st2 o2 => Ok st2 (o1 ++ o2)
          | f => f
          end
      | f => f
      end
  end.

Definition step := step_with reset_state.
Definition run_from := run_with reset_state.
(* parser_new = the stores above + parser_reset *)
Definition init_state : pstate := reset_state new_state.
Definition run (evs : list sax) : result := run_from init_state evs.
Definition run_unfixed (evs : list sax) : result :=
  run_with reset_state_unfixed (reset_state_unfixed new_state) evs.

(* what an observer of the callbacks sees of a run: the outputs, or the kind of failure *)
Inductive observation : Type :=
| Delivered (outs : list out)
| Crashed
| ReadUninit
| WroteOOB.
Definition observe (r : result) : observation :=
  match r with Ok _ o => Delivered o | Crash => Crashed | Uninit => ReadUninit | OOB => WroteOOB end.
