(* Executable model of the raw DNS decoder of src/resolver.c (definitions only, no proofs):
     message_name_append_safe, message_name_get, message_name_len, resolver_raw_srv_lookup_buf,
     resolver_srv_lookup_buf (non-c-ares build), resolver_srv_list_sort.
   Constants, field offsets, the BUF_OVERFLOW_CHECK offsets and every guard comparison of
   message_name_get / message_name_append_safe / the sort come from Gen_resolver (regenerated from the C source on every run).

   Conventions (DESIGN 2.2):
   * every access to the message goes through `rd` (None = outside the buffer), every access to
     the target field of a record through `rd` / `wr` on a MAX_DOMAIN_LEN-cell list; an access
     that misses yields NOOB / LOOB, independently of the bounds checks copied from the C;
   * `unsigned` variables (i, pointer, j, name_len of the caller, the return value) are reduced
     `mod 2^32` at every arithmetic step (`u32`); `size_t` values (name_len, name_max inside
     message_name_get) are not reduced: they are bounded by twice the message length;
   * recursion through compression pointers uses the depth fuel `d`, the label loop the fuel `f`;
     running out is NFuel / LFuel;
   * `char *name` is `option Z`: None = NULL, Some b = &target[b];
   * strophe_alloc is assumed to succeed (the C code skips the record when it does not). *)
Require Import LV.Common.Bytes LV.Gen.Gen_resolver.
Local Open Scope Z_scope.

Definition u32 (x : Z) : Z := x mod 4294967296.
Definition SIZE_MAX : Z := 18446744073709551615.

(* checked read: buf[i] *)
Definition rd (buf : list Z) (i : Z) : option Z :=
  if i <? 0 then None else nth_error buf (Z.to_nat i).

Fixpoint upd (l : list Z) (n : nat) (v : Z) : list Z :=
  match l, n with
  | [], _ => []
  | _ :: r, O => v :: r
  | x :: r, S n' => x :: upd r n' v
  end.

(* checked write: t[i] = v *)
Definition wr (t : list Z) (i v : Z) : option (list Z) :=
  if (0 <=? i) && (i <? zlen t) then Some (upd t (Z.to_nat i) v) else None.

(* xmpp_ntohs_ptr(&buf[i]) : (uint16_t)((p[0] << 8U) + p[1]) *)
Definition rd16 (buf : list Z) (i : Z) : option Z :=
  match rd buf i, rd buf (u32 (i + 1)) with
  | Some a, Some b => Some ((a * 256 + b) mod 65536)
  | _, _ => None
  end.

(* memcpy(&name[dst], &buf[src], n), byte by byte through the checked accessors *)
Fixpoint copy_bytes (n : nat) (buf : list Z) (src : Z) (tgt : list Z) (dst : Z) : option (list Z) :=
  match n with
  | O => Some tgt
  | S n' =>
      match rd buf src with
      | None => None
      | Some b =>
          match wr tgt dst b with
          | None => None
          | Some tgt' => copy_bytes n' buf (src + 1) tgt' (dst + 1)
          end
      end
  end.

(* message_name_append_safe(name, name_len, name_max, tail, tail_len): how many bytes are copied *)
Definition append_copy_len (name_len name_max tail_len : Z) : Z :=
  let copy_len := room_left name_max name_len in
  Z.min tail_len copy_len.

(* ... with tail = (char * )&buf[src]; result: new target cells and the returned length *)
Definition append_label (buf : list Z) (src : Z) (tgt : list Z) (base name_len name_max tail_len : Z)
  : option (list Z * Z) :=
  let copy_len := append_copy_len name_len name_max tail_len in
  if copy_guard copy_len then
    match copy_bytes (Z.to_nat copy_len) buf src tgt (base + name_len) with
    | None => None
    | Some tgt' => Some (tgt', name_len + tail_len)
    end
  else Some (tgt, name_len + tail_len).

(* ... with tail = "." *)
Definition append_dot (tgt : list Z) (base name_len name_max : Z) : option (list Z * Z) :=
  let copy_len := append_copy_len name_len name_max 1 in
  if copy_guard copy_len then
    match wr tgt (base + name_len) 46 with
    | None => None
    | Some tgt' => Some (tgt', name_len + 1)
    end
  else Some (tgt, name_len + 1).

(* result of message_name_get: return value and the target cells afterwards *)
Inductive nres : Type :=
| NRet (rc : Z) (tgt : list Z)
| NOOB                      (* a read outside the message or an access outside the target field *)
| NFuel.                    (* recursion / loop fuel exhausted *)

(* the code after the `while (1)` loop when it was left with label_len == 0 *)
Definition name_finish (buf_offset i : Z) (tgt : list Z) (name : option Z) (name_len name_max : Z) : nres :=
  let name_len := if name_len =? 0 then 1 else name_len in
  match name with
  | Some base =>
      if term_guard name_max then
        match wr tgt (base + Z.min name_len name_max - 1) 0 with
        | None => NOOB
        | Some tgt' => NRet (u32 (i - buf_offset)) tgt'
        end
      else NRet (u32 (i - buf_offset)) tgt
  | None => NRet (u32 (i - buf_offset)) tgt
  end.

(* the `while (1)` loop of message_name_get; `rec` is the recursive call for a pointer *)
Fixpoint name_loop (rec : Z -> list Z -> option Z -> Z -> nres)
         (buf : list Z) (buf_len buf_offset : Z)
         (f : nat) (i : Z) (tgt : list Z) (name : option Z) (name_len name_max : Z) : nres :=
  match f with
  | O => NFuel
  | S f' =>
      if idx_guard i buf_len then NRet 0 tgt else
      match rd buf i with
      | None => NOOB
      | Some label_len =>
          let i := u32 (i + 1) in
          if label_len =? 0 then name_finish buf_offset i tgt name name_len name_max
          else if Z.land label_len label_mask =? label_tag then
            (* Label *)
            if label_end_guard (u32 (i + label_len - label_end_adjust)) buf_len then NRet 0 tgt else
            match name with
            | Some base =>
                match append_label buf i tgt base name_len name_max label_len with
                | None => NOOB
                | Some (tgt1, name_len1) =>
                    match append_dot tgt1 base name_len1 name_max with
                    | None => NOOB
                    | Some (tgt2, name_len2) =>
                        name_loop rec buf buf_len buf_offset f' (u32 (i + label_len)) tgt2 name name_len2 name_max
                    end
                end
            | None =>
                name_loop rec buf buf_len buf_offset f' (u32 (i + label_len)) tgt name name_len name_max
            end
          else if Z.land label_len label_mask =? pointer_tag then
            (* Pointer *)
            if idx_guard i buf_len then NRet 0 tgt else
            match rd buf i with
            | None => NOOB
            | Some lo =>
                let pointer := u32 (Z.lor (Z.shiftl (Z.land label_len pointer_mask) pointer_shift) lo) in
                let i := u32 (i + 1) in
                (* Prevent infinite looping *)
                if pointer_guard pointer buf_offset then NRet 0 tgt else
                (* "We have filled the name buffer. Don't pass it recursively." *)
                let filled :=
                  match name with
                  | Some base =>
                      if name_full name_len name_max then
                        match wr tgt (base + name_max - 1) 0 with
                        | None => None
                        | Some tgt' => Some (tgt', None, 0)
                        end
                      else Some (tgt, name, name_max)
                  | None => Some (tgt, name, name_max)
                  end in
                match filled with
                | None => NOOB
                | Some (tgtA, name, name_max) =>
                    let sub_name := match name with Some base => Some (base + name_len) | None => None end in
                    let sub_max := room_left name_max name_len in
                    match rec pointer tgtA sub_name sub_max with
                    | NRet rc tgtB =>
                        if rc =? 0 then NRet 0 tgtB else
                        (* the pointer led to the root name only: drop the '.' appended after the
                           last label (fix C15-2) *)
                        let fixed :=
                          match name with
                          | Some base =>
                              if fixup_guard name_len then
                                match rd tgtB (base + name_len) with
                                | None => None
                                | Some c =>
                                    if c =? 0 then wr tgtB (base + name_len - 1) 0 else Some tgtB
                                end
                              else Some tgtB
                          | None => Some tgtB
                          end in
                        match fixed with
                        | None => NOOB
                        | Some tgtC => NRet (u32 (i - buf_offset)) tgtC   (* label_len != 0: no final NUL here *)
                        end
                    | NOOB => NOOB
                    | NFuel => NFuel
                    end
                end
            end
          else
            (* The 10 and 01 combinations are reserved for future use. *)
            NRet 0 tgt
      end
  end.

(* message_name_get(buf, buf_len, buf_offset, name, name_max) *)
Fixpoint name_get (d : nat) (f : nat) (buf : list Z) (buf_len : Z)
         (buf_offset : Z) (tgt : list Z) (name : option Z) (name_max : Z) : nres :=
  match d with
  | O => NFuel
  | S d' =>
      name_loop (name_get d' f buf buf_len) buf buf_len buf_offset f buf_offset tgt name 0 name_max
  end.

(* message_name_len: message_name_get(buf, buf_len, buf_offset, NULL, SIZE_MAX) *)
Definition name_len_at (fuel : nat) (buf : list Z) (buf_len buf_offset : Z) : nres :=
  name_get fuel fuel buf buf_len buf_offset [] None SIZE_MAX.

(* resolver_srv_rr_t without the link *)
Record srv_rr : Type := mk_rr { rr_priority : Z; rr_weight : Z; rr_port : Z; rr_target : list Z }.

(* the C string a consumer sees in a target field; None = no terminator inside the field *)
Fixpoint cstr (t : list Z) : option (list Z) :=
  match t with
  | [] => None
  | c :: r => if c =? 0 then Some [] else
              match cstr r with Some s => Some (c :: s) | None => None end
  end.

(* what the application sees of a record: the three numbers and the target as a C string *)
Definition rr_view (r : srv_rr) : Z * Z * Z * option (list Z) :=
  (rr_priority r, rr_weight r, rr_port r, cstr (rr_target r)).

Inductive lres : Type :=
| LDone (status : Z) (l : list srv_rr)   (* return value and *srv_rr_list (head first) *)
| LOOB
| LFuel.

Definition ovf_k (n : nat) : Z := nth n ovf_check_offsets (-1).

(* "skip question section" *)
Inductive qres : Type := QOk (j : Z) | QStop (status : Z) | QOOB | QFuel.

Fixpoint skip_questions (n : nat) (fuel : nat) (buf : list Z) (len j : Z) : qres :=
  match n with
  | O => QOk j
  | S n' =>
      if ovf_check (u32 (j + ovf_k 0)) len then QStop XMPP_DOMAIN_NOT_FOUND else
      match name_len_at fuel buf len j with
      | NRet name_len _ =>
          if name_len =? 0 then QStop XMPP_DOMAIN_NOT_FOUND
          else skip_questions n' fuel buf len (u32 (j + u32 (name_len + q_tail)))
      | NOOB => QOOB
      | NFuel => QFuel
      end
  end.

(* the answer loop; a BUF_OVERFLOW_CHECK that fires frees the list and returns NOT_FOUND *)
Fixpoint answers (n : nat) (fuel : nat) (buf : list Z) (len j : Z) (l : list srv_rr) : lres :=
  match n with
  | O => LDone (match l with [] => XMPP_DOMAIN_NOT_FOUND | _ => XMPP_DOMAIN_FOUND end) l
  | S n' =>
      if ovf_check (u32 (j + ovf_k 1)) len then LDone XMPP_DOMAIN_NOT_FOUND [] else
      match name_len_at fuel buf len j with
      | NOOB => LOOB
      | NFuel => LFuel
      | NRet name_len _ =>
          if name_len =? 0 then LDone XMPP_DOMAIN_NOT_FOUND l else
          let j := u32 (j + name_len) in
          if ovf_check (u32 (j + ovf_k 2)) len then LDone XMPP_DOMAIN_NOT_FOUND [] else
          match rd16 buf (u32 (j + rr_type_off)), rd16 buf (u32 (j + rr_class_off)),
                rd16 buf (u32 (j + rr_rdlength_off)) with
          | Some type, Some class, Some rdlength =>
              let j := u32 (j + rr_fixed_len) in
              if (type =? MESSAGE_T_SRV) && (class =? MESSAGE_C_IN) then
                if ovf_check (u32 (j + ovf_k 3)) len then LDone XMPP_DOMAIN_NOT_FOUND [] else
                match rd16 buf (u32 (j + srv_prio_off)), rd16 buf (u32 (j + srv_weight_off)),
                      rd16 buf (u32 (j + srv_port_off)) with
                | Some prio, Some weight, Some port =>
                    (* resolver_srv_rr_new: memset(rr, 0, sizeof( *rr)) *)
                    match name_get fuel fuel buf len (u32 (j + srv_target_off))
                                   (repeat 0 (Z.to_nat MAX_DOMAIN_LEN)) (Some 0) MAX_DOMAIN_LEN with
                    | NOOB => LOOB
                    | NFuel => LFuel
                    | NRet name_len tgt =>
                        let l' := if name_len >? 0 then mk_rr prio weight port tgt :: l
                                  else l (* skip broken record *) in
                        answers n' fuel buf len (u32 (j + rdlength)) l'
                    end
                | _, _, _ => LOOB
                end
              else answers n' fuel buf len (u32 (j + rdlength)) l
          | _, _, _ => LOOB
          end
      end
  end.

(* resolver_raw_srv_lookup_buf *)
Definition lookup_raw (buf : list Z) : lres :=
  let len := zlen buf in
  let fuel := S (length buf) in
  if len <? MESSAGE_HEADER_LEN then LDone XMPP_DOMAIN_NOT_FOUND [] else
  match rd buf hdr_octet2_off, rd buf hdr_octet3_off, rd16 buf hdr_qdcount_off, rd16 buf hdr_ancount_off with
  | Some octet2, Some octet3, Some qdcount, Some ancount =>
      if negb (Z.land (Z.shiftr octet2 qr_shift) qr_mask =? MESSAGE_RESPONSE) ||
         negb (Z.land octet3 rcode_mask =? 0)
      then LDone XMPP_DOMAIN_NOT_FOUND [] else
      match skip_questions (Z.to_nat qdcount) fuel buf len MESSAGE_HEADER_LEN with
      | QOk j => answers (Z.to_nat ancount) fuel buf len j []
      | QStop st => LDone st []
      | QOOB => LOOB
      | QFuel => LFuel
      end
  | _, _, _, _ => LOOB
  end.

(* ---- resolver_srv_list_sort -------------------------------------------------------------- *)

Definition srv_gt (c n : srv_rr) : bool :=
  srv_swap (rr_priority c) (rr_weight c) (rr_priority n) (rr_weight n).

(* one pass of the inner `while (rr_next != NULL)`: `cur` is rr_current, `rest` the list from
   rr_next on; the result is the relinked list and the `swap` flag *)
Fixpoint bubble_pass (cur : srv_rr) (rest : list srv_rr) : list srv_rr * bool :=
  match rest with
  | [] => ([cur], false)
  | nx :: rest' =>
      if srv_gt cur nx then
        let '(r, _) := bubble_pass cur rest' in (nx :: r, true)
      else
        let '(r, s) := bubble_pass nx rest' in (cur :: r, s)
  end.

(* do { pass } while (swap != 0); None = fuel exhausted *)
Fixpoint sort_passes (fuel : nat) (l : list srv_rr) : option (list srv_rr) :=
  match fuel with
  | O => None
  | S f =>
      match l with
      | [] => Some []
      | x :: r =>
          let '(l', swapped) := bubble_pass x r in
          if swapped then sort_passes f l' else Some l'
      end
  end.

Definition srv_sort (l : list srv_rr) : option (list srv_rr) :=
  match l with
  | [] => Some []                (* Empty or single record list *)
  | [x] => Some [x]
  | _ => sort_passes (length l) l
  end.

(* resolver_srv_lookup_buf (without c-ares): raw lookup, free the list unless FOUND, sort *)
Definition lookup_unsorted (buf : list Z) : lres :=
  match lookup_raw buf with
  | LDone st l =>
      if negb (st =? XMPP_DOMAIN_FOUND) && (match l with [] => false | _ => true end)
      then LDone st [] else LDone st l
  | r => r
  end.

Definition lookup (buf : list Z) : lres :=
  match lookup_unsorted buf with
  | LDone st l => match srv_sort l with Some l' => LDone st l' | None => LFuel end
  | r => r
  end.
