(* Executable model of the SASL message assembly (definitions only, no proofs):
     src/sasl.c   sasl_plain, _parse_digest_challenge, _add_key, sasl_digest_md5, sasl_scram
     src/scram.c  SCRAM_Hi, SCRAM_ClientKey, SCRAM_ClientSignature, SCRAM_ClientProof
     src/auth.c   _make_scram_init_msg (+ the base64 framing of _auth), the EXTERNAL identity choice of
                  _auth, _auth_legacy's payload, _handle_component_auth
     src/rand.c   xmpp_rand_nonce (the random bytes are an input: a prefix of the RNG stream)
   Every literal, format string, buffer size and the order of the MD5 / SHA-1 inputs comes from
   Gen_sasl (regenerated from the C sources on every run).  Digests, HMAC and base64 are the models
   of C17 / C18; the JID split is C19's (jid_split_is_rfc7622: xmpp_jid_node/domain/resource are
   JidSpec.spec_node/spec_domain/spec_resource on NUL-free strings).

   Outcomes: AOk v | ANull (the C function's own refusal: NULL / -1) | AOOB (access outside an
   allocated buffer or read of a byte never written) | AFuel (loop bound) | AAbort (assert) |
   ACrash (NULL dereference).  C strings are NUL-free byte lists. *)
Require Import LV.Common.Bytes LV.Common.HashWords LV.Gen.Gen_hash LV.Gen.Gen_sasl LV.Spec.JidSpec
               LV.Model.Base64Model LV.Model.HashModel LV.Model.HmacModel.
Local Open Scope Z_scope.

Inductive ares (A : Type) : Type :=
| AOk (a : A)
| ANull
| AOOB
| AFuel
| AAbort
| ACrash.
Arguments AOk {A} a.
Arguments ANull {A}.
Arguments AOOB {A}.
Arguments AFuel {A}.
Arguments AAbort {A}.
Arguments ACrash {A}.

Definition abind {A B} (r : ares A) (f : A -> ares B) : ares B :=
  match r with
  | AOk a => f a | ANull => ANull | AOOB => AOOB | AFuel => AFuel | AAbort => AAbort | ACrash => ACrash
  end.
Notation "'da' x <- r ; k" := (abind r (fun x => k)) (at level 200, x name, r at level 100, k at level 200).

(* a digest routine that stops early would be an assertion-like failure here *)
Definition of_h {A} (r : hres A) : ares A :=
  match r with HOk a => AOk a | HReject => AAbort | HFuel => AFuel | HOOB => AOOB end.

(* ------------------------------------------------------------------------------------------ *)
(* small string helpers                                                                        *)
Fixpoint list_eqb (a b : list Z) : bool :=
  match a, b with
  | [], [] => true
  | x :: a', y :: b' => (x =? y) && list_eqb a' b'
  | _, _ => false
  end.

Fixpoint starts_with (p s : list Z) : bool :=
  match p, s with
  | [], _ => true
  | a :: p', b :: s' => (a =? b) && starts_with p' s'
  | _ :: _, [] => false
  end.

Definition memb (c : Z) (l : list Z) : bool := existsb (Z.eqb c) l.

(* printf-style expansion: a byte is itself, -k is the k-th argument *)
Fixpoint fmt_expand (fmt : list Z) (args : list (list Z)) : list Z :=
  match fmt with
  | [] => []
  | c :: r => (if c <? 0 then nth (Z.to_nat (- c - 1)) args [] else [c]) ++ fmt_expand r args
  end.

(* strophe_snprintf(buf, size, fmt, ..) followed by `if (l < 0 || (size_t)l >= size) goto err` *)
Definition snprintf_checked (size : Z) (fmt : list Z) (args : list (list Z)) : ares (list Z) :=
  let s := fmt_expand fmt args in
  if zlen s <? size then AOk s else ANull.

(* heap cells: None = allocated, never written *)
Definition cells := list (option Z).
Definition cwrite (buf : cells) (off : Z) (src : list Z) : ares cells :=
  if (0 <=? off) && (off + zlen src <=? zlen buf)
  then AOk (firstn (Z.to_nat off) buf ++ map Some src ++ skipn (Z.to_nat off + length src) buf)
  else AOOB.
Fixpoint cread_all (buf : cells) : ares (list Z) :=
  match buf with
  | [] => AOk []
  | Some b :: r => da l <- cread_all r; AOk (b :: l)
  | None :: _ => AOOB
  end.

(* ------------------------------------------------------------------------------------------ *)
(* xmpp_rand_nonce(rand, output, len): len/2 random bytes, upper-case hex, output[len-1] = 0   *)
Definition nonce_hex (b : Z) : list Z := [nthz nonce_hex_tbl (b / 16 mod 16); nthz nonce_hex_tbl (b mod 16)].
Definition rand_nonce (rnd : list Z) (len : Z) : list Z :=
  firstn (Z.to_nat (len - 1)) (flat_map nonce_hex (firstn (Z.to_nat (len / 2)) rnd)).
(* the RNG stream: a call for n bytes takes the next n positions *)
Definition rng_take (n : Z) (stream : list Z) : list Z * list Z :=
  (firstn (Z.to_nat n) stream, skipn (Z.to_nat n) stream).

(* ------------------------------------------------------------------------------------------ *)
(* sasl_plain                                                                                  *)
Definition sasl_plain (authid password : list Z) : ares (list Z) :=
  let idlen := zlen authid in
  let passlen := zlen password in
  let msglen := 2 + idlen + passlen in
  let msg : cells := repeat None (Z.to_nat msglen) in
  da m <- cwrite msg 0 [0];
  da m <- cwrite m 1 authid;
  da m <- cwrite m (1 + idlen) [0];
  da m <- cwrite m (1 + idlen + 1) password;
  da bs <- cread_all m;
  AOk (encode bs).

(* ------------------------------------------------------------------------------------------ *)
(* _make_scram_init_msg                                                                        *)
Definition esc_char (c : Z) : list Z :=
  match find (fun p => fst p =? c) scram_user_escape with
  | Some p => snd p
  | None => [c]
  end.
Definition scram_escape (node : list Z) : list Z := flat_map esc_char node.

Record scram_init := {
  si_message : list Z;        (* scram->scram_init, the client-first-message *)
  si_first_bare : Z;          (* offset of scram->first_bare in it *)
  si_channel_binding : list Z (* scram->channel_binding (base64) *)
}.

(* plus = scram->sasl_plus, secured = xmpp_conn_is_secured, cbtype = result of
   tls_init_channel_binding (None: failure), cbdata = tls_get_channel_binding_data (None: NULL).
   Returns the outcome and what is left of the RNG stream. *)
Definition make_scram_init_msg (plus secured : bool) (cbtype cbdata : option (list Z))
           (jid rng : list Z) : ares scram_init * list Z :=
  let bind0 : option (list Z * Z) :=
    if plus then
      if negb secured then None
      else match cbtype with
           | None => None
           | Some t => Some (t, zlen t + nthz scram_btl_incr 0)
           end
    else Some ([], 0) in
  match bind0 with
  | None => (ANull, rng)
  | Some (btype, btl0) =>
    match spec_node jid with
    | None => (ANull, rng)
    | Some jnode =>
      let node := scram_escape jnode in
      let '(rnd, rng') := rng_take (scram_nonce_len / 2) rng in
      (* xmpp_rand_nonce(ctx->rand, buf, scram_nonce_len) writes scram_nonce_len bytes of buf *)
      if scram_buf_size <? scram_nonce_len then (AOOB, rng') else
      let nonce := rand_nonce rnd scram_nonce_len in
      let message_len := zlen node + zlen nonce + nthz scram_msg_len_consts 0 + btl0 + nthz scram_msg_len_consts 1 in
      let btl := btl0 + nthz scram_btl_incr 1 in
      let flag := if secured then scram_flag_secured else scram_flag_unsecured in
      let r :=
        da msg <- (if plus then snprintf_checked message_len scram_fmt_plus [btype; node; nonce]
                   else snprintf_checked message_len scram_fmt_noplus [[flag]; node; nonce]);
        if scram_buf_size <? btl then ANull else
        (* memcpy(buf, message, binding_type_len): the bytes must have been written by snprintf *)
        if zlen msg + 1 <? btl then AOOB else
        let hdr := firstn (Z.to_nat btl) (msg ++ [0]) in
        da total <- (if plus then
                       match cbdata with
                       | None => ANull
                       | Some d => if scram_buf_size - btl <? zlen d then ANull else AOk (hdr ++ d)
                       end
                     else AOk hdr);
        (* memcpy(&buf[btl], data, len) stays inside buf by the test above; checked again *)
        if scram_buf_size <? zlen total then AOOB else
        AOk {| si_message := msg; si_first_bare := btl; si_channel_binding := encode total |} in
      (r, rng')
    end
  end.

(* the text of <auth mechanism='SCRAM-..'>: base64 of scram_init *)
Definition scram_auth_payload (si : scram_init) : list Z := encode (si_message si).
Definition scram_first_bare (si : scram_init) : list Z := skipn (Z.to_nat (si_first_bare si)) (si_message si).

(* ------------------------------------------------------------------------------------------ *)
(* strtok_r / strtol as used by sasl_scram                                                     *)
(* all fields between delimiters (empty ones included) *)
Fixpoint fields (d : list Z) (s : list Z) : list (list Z) :=
  match s with
  | [] => [[]]
  | c :: r => if memb c d then [] :: fields d r
              else match fields d r with
                   | f :: fs => (c :: f) :: fs
                   | [] => [[c]]
                   end
  end.
Definition is_nil (l : list Z) : bool := match l with [] => true | _ => false end.
(* strtok_r hands out the non-empty fields *)
Definition tokens (d : list Z) (s : list Z) : list (list Z) := filter (fun f => negb (is_nil f)) (fields d s).

Definition is_space (c : Z) : bool := (c =? 32) || ((9 <=? c) && (c <=? 13)).
Fixpoint skip_spaces (s : list Z) : list Z :=
  match s with
  | c :: r => if is_space c then skip_spaces r else s
  | [] => []
  end.
Fixpoint digits_val (base : Z) (s : list Z) (acc : Z) : Z :=
  match s with
  | c :: r => if (48 <=? c) && (c <? 48 + base) then digits_val base r (acc * base + (c - 48)) else acc
  | [] => acc
  end.
Definition LONG_MAX : Z := 2 ^ 63 - 1.
(* strtol(s, &end, base) for base <= 10: white space, optional sign, longest digit prefix
   (none: 0), saturating at LONG_MIN / LONG_MAX *)
Definition strtol (base : Z) (s : list Z) : Z :=
  let s1 := skip_spaces s in
  let '(neg, s2) := match s1 with
                    | 45 :: r => (true, r)
                    | 43 :: r => (false, r)
                    | _ => (false, s1)
                    end in
  let v := digits_val base s2 0 in
  if neg then Z.max (- v) (- LONG_MAX - 1) else Z.min v LONG_MAX.

(* ------------------------------------------------------------------------------------------ *)
(* SCRAM helpers of src/scram.c over a hash_alg                                                *)
Definition xor_bytes (a b : list Z) : list Z := map2 Z.lxor a b.

Section Scram.
  Context {C : Type} (alg : hash_alg C).
  Definition ds : Z := ha_digest_size alg.
  Definition HMAC (key text : list Z) : ares (list Z) := of_h (crypto_HMAC alg key text).

  (* for (j = 1; j < i; j++) { tmp = HMAC(text, tmp[0..ds)); digest ^= tmp; } *)
  Fixpoint hi_loop (n : nat) (text tmp digest : list Z) : ares (list Z) :=
    match n with
    | O => AOk digest
    | S n' => da t <- HMAC text (firstn (Z.to_nat ds) tmp);
              hi_loop n' text t (xor_bytes digest t)
    end.

  Definition SCRAM_Hi (text salt : list Z) (i : Z) : ares (list Z) :=
    let tmp_size := scram_salt_max + scram_hi_tmp_extra in
    (* assert(salt_len <= sizeof(tmp) - sizeof(int1)) *)
    if tmp_size - zlen scram_int1 <? zlen salt then AAbort else
    if i =? 0 then AOk (repeat 0 (Z.to_nat ds)) else
    da u1 <- HMAC text (salt ++ scram_int1);
    (* memcpy(tmp, digest, digest_size) *)
    if tmp_size <? ds then AOOB else
    hi_loop (Z.to_nat (i - 1)) text u1 u1.

  Definition SCRAM_ClientKey (password salt : list Z) (i : Z) : ares (list Z) :=
    da salted <- SCRAM_Hi password salt i;
    HMAC (firstn (Z.to_nat ds) salted) scram_client_key_label.

  Definition SCRAM_ClientSignature (key auth : list Z) : ares (list Z) :=
    da stored <- of_h (ha_hash alg (firstn (Z.to_nat ds) key));
    HMAC (firstn (Z.to_nat ds) stored) auth.

  Definition SCRAM_ClientProof (key sign : list Z) : list Z :=
    xor_bytes (firstn (Z.to_nat ds) key) (firstn (Z.to_nat ds) sign).

  (* attribute pick-up: the last token with each prefix wins; r keeps its prefix *)
  Definition pick (st : option (list Z) * option (list Z) * option (list Z)) (tok : list Z) :=
    let '(r, s, i) := st in
    if starts_with scram_pfx_r tok then (Some tok, s, i)
    else if starts_with scram_pfx_s tok then (r, Some (skipn (Z.to_nat (nthz scram_skip_si 0)) tok), i)
    else if starts_with scram_pfx_i tok then (r, s, Some (skipn (Z.to_nat (nthz scram_skip_si 1)) tok))
    else st.

  Definition sasl_scram (channel_binding challenge first_bare password : list Z) : ares (list Z) :=
    let '(r, s, i) := fold_left pick (tokens scram_delims challenge) (None, None, None) in
    match r, s, i with
    | Some r, Some s, Some i =>
      match decode_bin s with
      | DReject => ANull
      | DOOB => AOOB
      | DOk buf n =>
        match cells_prefix buf (Z.to_nat n) with
        | None => AOOB
        | Some sval =>
          if scram_salt_max <? n then ANull else
          let ival := strtol scram_strtol_base i in
          if ival <? scram_iter_min then ANull else
          if negb (scram_iter_max =? 0) && (scram_iter_max <? ival) then ANull else
          let count := ival mod 2 ^ 32 in       (* (uint32_t)ival *)
          let k := scram_resp_len_consts in
          let response_len := nthz k 0 + zlen channel_binding + zlen r + nthz k 1 +
                              ((ds + nthz k 2) / nthz k 3 * nthz k 4) + nthz k 5 in
          let auth_len := scram_auth_len_const + response_len + zlen first_bare + zlen challenge in
          da response <- snprintf_checked response_len scram_fmt_response [channel_binding; r];
          da auth <- snprintf_checked auth_len scram_fmt_auth [first_bare; challenge; response];
          da key <- SCRAM_ClientKey password sval count;
          da sign <- SCRAM_ClientSignature key auth;
          let proof := SCRAM_ClientProof key sign in
          (* xmpp_base64_encode(ctx, sign, alg->digest_size) *)
          if zlen proof <? ds then AOOB else
          let sign_b64 := encode (firstn (Z.to_nat ds) proof) in
          if response_len <? zlen response + zlen sign_b64 + nthz scram_ovf_consts 0 + nthz scram_ovf_consts 1
          then ANull else
          let full := response ++ scram_proof_pfx ++ sign_b64 in
          (* the two strcat() calls: terminator included, the result must fit the allocation *)
          if response_len <? zlen full + 1 then AOOB else
          AOk (encode full)
        end
      end
    | _, _, _ => ANull
    end.
End Scram.

Definition sasl_scram_sha1 := sasl_scram alg_sha1.
Definition sasl_scram_sha256 := sasl_scram alg_sha256.
Definition sasl_scram_sha512 := sasl_scram alg_sha512.
Definition client_key_sha1 := SCRAM_ClientKey alg_sha1.
Definition client_key_sha256 := SCRAM_ClientKey alg_sha256.
Definition client_key_sha512 := SCRAM_ClientKey alg_sha512.

(* ------------------------------------------------------------------------------------------ *)
(* DIGEST-MD5                                                                                  *)
Definition table := list (list Z * list Z).
Fixpoint tbl_get (k : list Z) (t : table) : option (list Z) :=
  match t with
  | [] => None
  | (k', v) :: r => if list_eqb k k' then Some v else tbl_get k r
  end.
(* hash_add: replace the value of an existing key, else insert *)
Fixpoint tbl_add (k v : list Z) (t : table) : table :=
  match t with
  | [] => [(k, v)]
  | (k', v') :: r => if list_eqb k k' then (k, v) :: r else (k', v') :: tbl_add k v r
  end.

Fixpoint skip_cs (s : list Z) : list Z :=
  match s with
  | c :: r => if (c =? 44) || (c =? 32) then skip_cs r else s
  | [] => []
  end.
(* bytes before the first c, and the rest starting at that c ([] when the string ends first) *)
Fixpoint span_to (c : Z) (s : list Z) : list Z * list Z :=
  match s with
  | [] => ([], [])
  | x :: r => if x =? c then ([], s) else let '(a, b) := span_to c r in (x :: a, b)
  end.

(* the while loop of _parse_digest_challenge over the decoded text *)
Fixpoint parse_loop (fuel : nat) (s : list Z) (t : table) : ares table :=
  match fuel with
  | O => AFuel
  | S f =>
    match s with
    | [] => AOk t
    | _ =>
      let s1 := skip_cs s in
      let '(key, at_eq) := span_to 61 s1 in
      match at_eq with
      | [] => AOk t                                    (* no '=': bad string, stop *)
      | _ :: s2 =>
        match s2 with
        | q :: r =>
          if (q =? 39) || (q =? 34) then
            let '(v, at_q) := span_to q r in
            parse_loop f (match at_q with _ :: r3 => r3 | [] => [] end) (tbl_add key v t)
          else
            let '(v, at_c) := span_to 44 s2 in
            parse_loop f at_c (tbl_add key v t)
        | [] => parse_loop f [] (tbl_add key [] t)
        end
      end
    end
  end.

Definition parse_digest_challenge (msg : list Z) : ares table :=
  match decode_str msg with
  | SNull => ANull
  | SBad => AOOB
  | SOk text => parse_loop (S (length text)) text []
  end.

Definition digest_hex (d : list Z) : list Z :=
  flat_map (fun b => [nthz digest_hexdigits (b / 16 mod 16); nthz digest_hexdigits (b mod 16)]) d.

(* _add_key *)
Definition add_key (t : table) (buf : list Z) (kq : list Z * Z) : list Z :=
  let '(key, quote) := kq in
  let value := match tbl_get key t with Some v => v | None => [] end in
  let qvalue := if quote =? 0 then value else [34] ++ value ++ [34] in
  buf ++ (if zlen buf =? 0 then [] else [44]) ++ key ++ [61] ++ qvalue.

(* _qop_offers_auth (no token configured: the server's value is never replaced) *)
Definition qop_offers (qop : list Z) : bool :=
  negb (is_nil digest_qop_token) &&
  existsb (list_eqb digest_qop_token) (tokens digest_qop_seps qop).

(* one MD5 computation described by a piece list; a skipped conditional piece is no call *)
Definition piece_chunk (vars : list (list Z)) (t : table) (qop_plain : bool) (p : Z * list Z)
  : ares (option (list Z)) :=
  let '(tag, bs) := p in
  if (10 <=? tag) && qop_plain then AOk None else
  let tg := tag mod 10 in
  if tg =? 0 then AOk (Some bs)
  else if tg =? 1 then AOk (Some (nth (Z.to_nat (nthz bs 0)) vars []))
  else match tbl_get bs t with
       | Some v => AOk (Some v)
       | None => ACrash                 (* strlen(NULL) *)
       end.
Fixpoint piece_chunks (vars : list (list Z)) (t : table) (qop_plain : bool) (ps : list (Z * list Z))
  : ares (list (list Z)) :=
  match ps with
  | [] => AOk []
  | p :: r => da c <- piece_chunk vars t qop_plain p;
              da cs <- piece_chunks vars t qop_plain r;
              AOk (match c with Some c => c :: cs | None => cs end)
  end.
Definition md5_comp (k : nat) (vars : list (list Z)) (t : table) (qop_plain : bool) : ares (list Z) :=
  da cs <- piece_chunks vars t qop_plain (nth k digest_md5_pieces []);
  of_h (md5_run cs).

Definition s_nonce : list Z := [110; 111; 110; 99; 101].
Definition s_realm : list Z := [114; 101; 97; 108; 109].
Definition s_username : list Z := [117; 115; 101; 114; 110; 97; 109; 101].
Definition s_cnonce : list Z := [99; 110; 111; 110; 99; 101].
Definition s_nc : list Z := [110; 99].
Definition s_qop : list Z := [113; 111; 112].
Definition s_digest_uri : list Z := [100; 105; 103; 101; 115; 116; 45; 117; 114; 105].
Definition s_response : list Z := [114; 101; 115; 112; 111; 110; 115; 101].

(* sasl_digest_md5(ctx, challenge, jid, password); rnd = the bytes xmpp_rand_nonce draws *)
Definition sasl_digest_md5 (challenge jid password rnd : list Z) : ares (list Z) :=
  da t <- parse_digest_challenge challenge;
  match tbl_get s_nonce t with
  | None => ANull
  | Some _ =>
    match spec_node jid with
    | None => ACrash                     (* strophe_strdup / strlen of a NULL node *)
    | Some node =>
      let domain := spec_domain jid in
      let t := match tbl_get s_realm t with
               | Some (_ :: _) => t
               | _ => tbl_add s_realm domain t
               end in
      let realm := match tbl_get s_realm t with Some r => r | None => [] end in
      let t := tbl_add s_username node t in
      let t := tbl_add s_cnonce (rand_nonce rnd digest_cnonce_size) t in
      let t := tbl_add s_nc digest_nc t in
      let t := match tbl_get s_qop t with
               | None => tbl_add s_qop digest_default_qop t
               | Some q => if qop_offers q then tbl_add s_qop digest_default_qop t else t
               end in
      let t := tbl_add s_digest_uri (digest_uri_prefix ++ domain) t in
      let qop_plain := match tbl_get s_qop t with Some q => list_eqb q digest_qop_plain | None => false end in
      let vars d h1 h2 := [node; realm; password; d; h1; h2] in
      da d0 <- md5_comp 0 (vars [] [] []) t qop_plain;
      da ha1 <- md5_comp 1 (vars d0 [] []) t qop_plain;
      da ha2 <- md5_comp 2 (vars ha1 [] []) t qop_plain;
      da d3 <- md5_comp 3 (vars ha2 (digest_hex ha1) (digest_hex ha2)) t qop_plain;
      let t := tbl_add s_response (digest_hex d3) t in
      let reply := fold_left (add_key t) digest_reply_fields [] in
      AOk (encode reply)
    end
  end.

(* ------------------------------------------------------------------------------------------ *)
(* EXTERNAL: "=" when the certificate has no xmppAddr, or exactly one and it is the JID;
   otherwise the JID as authorisation identity                                                 *)
Definition external_payload (xmppaddrs : list (list Z)) (jid : list Z) : list Z :=
  match xmppaddrs with
  | [] => [61]
  | a0 :: _ => if (zlen xmppaddrs =? 1) && list_eqb a0 jid then [61] else encode jid
  end.

(* _auth_legacy: children of <query xmlns='jabber:iq:auth'> with their text *)
Definition legacy_src (jid password : list Z) (k : Z) : option (list Z) :=
  if k =? 0 then spec_node jid else if k =? 1 then Some password else spec_resource jid.
Fixpoint legacy_children_of (jid password : list Z) (names : list (list Z)) (srcs : list Z)
  : ares (list (list Z * list Z)) :=
  match names, srcs with
  | n :: ns, k :: ks =>
      match legacy_src jid password k with
      | None => ANull            (* no node: memory-error path; no resource: "Cannot authenticate" *)
      | Some v => da r <- legacy_children_of jid password ns ks; AOk ((n, v) :: r)
      end
  | _, _ => AOk []
  end.
Definition legacy_payload (jid password : list Z) : ares (list (list Z * list Z)) :=
  legacy_children_of jid password legacy_children legacy_text_src.

(* _handle_component_auth: text of <handshake/> *)
Definition component_handshake (stream_id : option (list Z)) (secret : list Z) : ares (list Z) :=
  match stream_id with
  | None => ANull
  | Some sid =>
    let part k := if k =? 0 then sid else secret in
    da md <- of_h (sha1_run (map part component_hash_order));
    AOk (hex_of_bytes component_hex_upper md)
  end.

(* ------------------------------------------------------------------------------------------ *)
(* a sequence of SCRAM attempts on one RNG stream (every attempt is a fresh _auth call)        *)
Record attempt := { at_plus : bool; at_secured : bool; at_cbtype : option (list Z);
                    at_cbdata : option (list Z); at_jid : list Z }.
Fixpoint run_attempts (atts : list attempt) (rng : list Z) : list (ares scram_init) :=
  match atts with
  | [] => []
  | a :: r => let '(res, rng') := make_scram_init_msg (at_plus a) (at_secured a) (at_cbtype a)
                                                      (at_cbdata a) (at_jid a) rng in
              res :: run_attempts r rng'
  end.
