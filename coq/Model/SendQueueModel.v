(* C06 - the send queue of a connection (src/conn.c, src/event.c), on an explicit heap.

   Definitions only.  Mirrors, branch for branch and in the order of effects:
     _send_raw / send_raw (append, counters, SM <r/> piggy-back with the userdata link),
     the write loop at the top of xmpp_run_once (written / wip / stop at the first incomplete
       element / counters / move to the SM queue or free / new head),
     add_queue_back, pop_queue_front, queue_element_free,
     xmpp_conn_send_queue_len, xmpp_conn_send_queue_drop_element, _drop_send_queue_element,
     the <a h=.../> handling of _conn_sm_handle_stanza (only what touches r_sent and the SM queue),
     conn_disconnect (state, r_sent, sm_enabled).
   (_conn_reset frees whatever is left in the queue when the object is reconnected or released; that is the end
   of a history and is exercised by the harness under ASan and the allocator's live-block count, not modelled.)

   Pointers are heap ids (never reused: the id doubles as the ghost identity of an element),
   NULL is None.  Every dereference goes through [load]/[store]: touching a freed cell is the
   outcome UAF, a never-allocated one Crash.  Loops run on fuel (number of cells ever
   allocated + 1); exhausting it is the outcome Fuel (a cyclic list in C).

   [run true] mirrors the code WITH fixes/C06-1.patch applied (event.c: the new head's [prev] is cleared
   when the old head leaves the queue); all theorems are about [run true].  [run false] is the code as
   found; it reaches UAF (Properties_C06.unfixed_code_refuted). *)
Require Import LV.Common.Bytes LV.Gen.Gen_sendqueue.
Local Open Scope Z_scope.

(* ---- owners: XMPP_QUEUE_USER = 0x2, XMPP_QUEUE_STROPHE = 0x1, XMPP_QUEUE_SM_STROPHE = 0x801.
   For these three values "owner == XMPP_QUEUE_USER" and "owner & XMPP_QUEUE_USER" agree. *)
Inductive owner := OwUser | OwLib | OwSmLib.
Definition is_user (o : owner) : bool := match o with OwUser => true | _ => false end.
Definition is_sm (o : owner) : bool := match o with OwSmLib => true | _ => false end.
Definition is_lib (o : owner) : bool := match o with OwLib => true | _ => false end.   (* owner == XMPP_QUEUE_STROPHE *)
(* _send_raw: "if (owner == XMPP_QUEUE_STROPHE && !sm_enabled) owner = XMPP_QUEUE_SM_STROPHE;"
   (library elements queued before stream management is enabled are not part of the acknowledged stream) *)
Definition effective_owner (sm_enabled : bool) (o : owner) : owner :=
  if is_lib o && negb sm_enabled then OwSmLib else o.

Record node := mkNode {
  n_data : list Z;            (* data, len = length *)
  n_written : nat;
  n_wip : bool;
  n_owner : owner;
  n_userdata : option nat;    (* only ever compared, never dereferenced *)
  n_smh : Z;
  n_prev : option nat;
  n_next : option nat }.

Inductive cell := Unalloc | Live (n : node) | Freed.
Definition heap := nat -> cell.
Definition upd (h : heap) (p : nat) (c : cell) : heap := fun x => if Nat.eqb x p then c else h x.

(* one result of the transport's write: everything / at most k bytes / EAGAIN / hard error *)
Inductive wres := WAll | WK (k : nat) | WAgain | WErr.

Record state := mkSt {
  s_heap : heap;
  s_next : nat;                       (* next fresh id *)
  s_head : option nat;                (* conn->send_queue_head *)
  s_tail : option nat;                (* conn->send_queue_tail *)
  s_len : Z;                          (* conn->send_queue_len *)
  s_ulen : Z;                         (* conn->send_queue_user_len *)
  s_sm_enabled : bool;
  s_r_sent : bool;
  s_sent_nr : Z;                      (* sm_state->sm_sent_nr, uint32_t *)
  s_smq_head : option nat;            (* sm_state->sm_queue *)
  s_smq_tail : option nat;
  s_connected : bool;                 (* state == XMPP_STATE_CONNECTED (else DISCONNECTED) *)
  s_sched : list wres;                (* scripted results of the coming write calls; exhausted = all *)
  s_wire : list (nat * Z) }.          (* ghost: every byte the transport accepted, tagged with its element *)

Inductive outcome (A : Type) := Ok (a : A) | UAF | Crash | Fuel.
Arguments Ok {A} a. Arguments UAF {A}. Arguments Crash {A}. Arguments Fuel {A}.

Definition bind {A B} (m : outcome A) (f : A -> outcome B) : outcome B :=
  match m with Ok a => f a | UAF => UAF | Crash => Crash | Fuel => Fuel end.
Notation "'do' x <- m ; f" := (bind m (fun x => f)) (at level 200, x pattern, m at level 100, f at level 200).

Definition load (h : heap) (p : nat) : outcome node :=
  match h p with Live n => Ok n | Freed => UAF | Unalloc => Crash end.
(* a write through a pointer *)
Definition store (h : heap) (p : nat) (f : node -> node) : outcome heap :=
  do n <- load h p; Ok (upd h p (Live (f n))).

Definition set_heap (st : state) (h : heap) : state :=
  mkSt h (s_next st) (s_head st) (s_tail st) (s_len st) (s_ulen st) (s_sm_enabled st) (s_r_sent st)
       (s_sent_nr st) (s_smq_head st) (s_smq_tail st) (s_connected st) (s_sched st) (s_wire st).

Definition with_prev (p : option nat) (n : node) : node :=
  mkNode (n_data n) (n_written n) (n_wip n) (n_owner n) (n_userdata n) (n_smh n) p (n_next n).
Definition with_next (x : option nat) (n : node) : node :=
  mkNode (n_data n) (n_written n) (n_wip n) (n_owner n) (n_userdata n) (n_smh n) (n_prev n) x.
Definition with_progress (w : nat) (n : node) : node :=       (* written := w; wip := 1 *)
  mkNode (n_data n) w true (n_owner n) (n_userdata n) (n_smh n) (n_prev n) (n_next n).
Definition with_smh (h : Z) (n : node) : node :=
  mkNode (n_data n) (n_written n) (n_wip n) (n_owner n) (n_userdata n) h (n_prev n) (n_next n).

Definition opt_eqb (a b : option nat) : bool :=
  match a, b with Some x, Some y => Nat.eqb x y | None, None => true | _, _ => false end.

(* the text of req_ack in _send_raw, as found in the source (tools/gens/gen_sendqueue.py) *)
Definition req_ack : list Z := req_ack_text.

(* the numeric owner values of common.h; Gen_sendqueue_ok checks that is_user / is_sm above are what
   "owner == XMPP_QUEUE_USER", "owner & XMPP_QUEUE_USER" and "owner & XMPP_QUEUE_SM" compute on them *)
Definition owner_code (o : owner) : Z :=
  match o with OwUser => q_user | OwLib => q_strophe | OwSmLib => q_sm_strophe end.

(* ------------------------------------------------------------------ _send_raw: the append *)
Definition enqueue (st : state) (data : list Z) (ow : owner) (ud : option nat) : outcome (state * nat) :=
  let item := s_next st in
  let nd := mkNode data 0 false ow ud 0 (s_tail st) None in
  let h1 := upd (s_heap st) item (Live nd) in
  do h2 <- match s_tail st with
           | None => Ok h1
           | Some t => store h1 t (with_next (Some item))
           end;
  let hd := match s_tail st with None => Some item | Some _ => s_head st end in
  Ok (mkSt h2 (S item) hd (Some item) (s_len st + 1)
           (if is_user ow then s_ulen st + 1 else s_ulen st)
           (s_sm_enabled st) (s_r_sent st) (s_sent_nr st) (s_smq_head st) (s_smq_tail st)
           (s_connected st) (s_sched st) (s_wire st), item).

Definition set_r_sent (st : state) (b : bool) : state :=
  mkSt (s_heap st) (s_next st) (s_head st) (s_tail st) (s_len st) (s_ulen st) (s_sm_enabled st) b
       (s_sent_nr st) (s_smq_head st) (s_smq_tail st) (s_connected st) (s_sched st) (s_wire st).

(* _send_raw, including the nested send_raw(req_ack, SM_STROPHE, item) *)
Definition send_raw_inner (st : state) (data : list Z) (ow0 : owner) (ud : option nat) : outcome state :=
  let ow := effective_owner (s_sm_enabled st) ow0 in
  do r <- enqueue st data ow ud;
  let '(st1, item) := r in
  if negb (is_sm ow) && s_sm_enabled st1 && negb (s_r_sent st1) then
    let st2 := set_r_sent st1 true in
    if s_connected st2 then                       (* send_raw: state == CONNECTED *)
      do r2 <- enqueue st2 req_ack OwSmLib (Some item); Ok (fst r2)
    else Ok st2
  else Ok st1.

(* xmpp_send / xmpp_send_raw / xmpp_send_raw_string (owner USER), send_stanza(STROPHE / SM_STROPHE),
   send_raw_string (SM_STROPHE): refused unless connected (negotiation is over in this model's scope) *)
Definition op_send (st : state) (ow : owner) (data : list Z) : outcome state :=
  if s_connected st then send_raw_inner st data ow None else Ok st.

(* ------------------------------------------------------------------ the write loop *)
(* what conn_interface_write returns for [towrite] bytes: Some n = n bytes accepted, None = -1;
   the bool is "conn->error was set" *)
Definition write_result (r : wres) (towrite : nat) : option nat * bool :=
  match r with
  | WAll => (Some towrite, false)
  | WK k => if Nat.eqb towrite 0 then (Some 0%nat, false)
            else if Nat.eqb k 0 then (None, false) else (Some (Nat.min k towrite), false)
  | WAgain => (None, false)
  | WErr => (None, true)
  end.

Definition pop_sched (l : list wres) : wres * list wres :=
  match l with [] => (WAll, []) | r :: t => (r, t) end.

(* add_queue_back(&sm_state->sm_queue, item) *)
Definition smq_add_back (st : state) (h : heap) (item : nat) : outcome (heap * option nat * option nat) :=
  do h1 <- store h item (with_next None);
  match s_smq_tail st with
  | None => do h2 <- store h1 item (with_prev None); Ok (h2, Some item, Some item)
  | Some t => do h2 <- store h1 item (with_prev (Some t));
              do h3 <- store h2 t (with_next (Some item));
              Ok (h3, s_smq_head st, Some item)
  end.

Definition w32 (x : Z) : Z := x mod 4294967296.

(* [fx] = fixes/C06-1.patch applied (the code as found is [fx = false]) *)
Fixpoint write_loop (fx : bool) (fuel : nat) (st : state) (sq : option nat) (err : bool) : outcome (state * bool) :=
  match sq with
  | None => Ok (st, err)
  | Some p =>
    match fuel with
    | O => Fuel
    | S fuel' =>
      do n <- load (s_heap st) p;
      let towrite := (length (n_data n) - n_written n)%nat in
      let '(r, sched') := pop_sched (s_sched st) in
      let '(ret, e) := write_result r towrite in
      let acc := match ret with Some k => k | None => O end in
      let wire' := s_wire st ++ map (pair p) (firstn acc (skipn (n_written n) (n_data n))) in
      let w' := match ret with
                | Some k => if (Nat.ltb 0 k && Nat.ltb k towrite)%bool then (n_written n + k)%nat else n_written n
                | None => n_written n end in
      do h1 <- store (s_heap st) p (with_progress w');       (* written += ret; wip = 1 *)
      let complete := match ret with Some k => Nat.eqb k towrite | None => false end in
      if negb complete then
        Ok (mkSt h1 (s_next st) (s_head st) (s_tail st) (s_len st) (s_ulen st) (s_sm_enabled st) (s_r_sent st)
                 (s_sent_nr st) (s_smq_head st) (s_smq_tail st) (s_connected st) sched' wire', err || e)
      else
        let nx := n_next n in                                (* sq = sq->next *)
        let len' := s_len st - 1 in
        let ulen' := if is_user (n_owner n) then s_ulen st - 1 else s_ulen st in
        do r2 <- (if negb (is_sm (n_owner n)) && s_sm_enabled st then
                    do h2 <- store h1 p (with_smh (s_sent_nr st));
                    do r3 <- smq_add_back st h2 p;
                    let '(h3, qh, qt) := r3 in Ok (h3, w32 (s_sent_nr st + 1), qh, qt)
                  else
                    Ok (upd h1 p Freed, s_sent_nr st, s_smq_head st, s_smq_tail st));
        let '(h4, nr', qh', qt') := r2 in
        (* conn->send_queue_head = sq; if (!sq) tail = NULL; [fix: else sq->prev = NULL] *)
        do h5 <- match nx with
                 | None => Ok h4
                 | Some x => if fx then store h4 x (with_prev None) else Ok h4
                 end;
        let tail' := match nx with None => None | Some _ => s_tail st end in
        write_loop fx fuel'
          (mkSt h5 (s_next st) nx tail' len' ulen' (s_sm_enabled st) (s_r_sent st) nr' qh' qt'
                (s_connected st) sched' wire') nx (err || e)
    end
  end.

(* conn_disconnect: state, and _reset_sm_state_for_reconnect (r_sent = sm_enabled = 0) *)
Definition disconnect (st : state) : state :=
  mkSt (s_heap st) (s_next st) (s_head st) (s_tail st) (s_len st) (s_ulen st) false false
       (s_sent_nr st) (s_smq_head st) (s_smq_tail st) false (s_sched st) (s_wire st).

(* the send phase of xmpp_run_once for this connection; second component: the connection was torn down *)
Definition op_iter (fx : bool) (st : state) : outcome (state * bool) :=
  if s_connected st then
    do r <- write_loop fx (S (s_next st)) st (s_head st) false;
    let '(st1, err) := r in
    if err then Ok (disconnect st1, true) else Ok (st1, false)
  else Ok (st, false).

(* ------------------------------------------------------------------ xmpp_conn_send_queue_len *)
Definition op_qlen (st : state) : outcome Z :=
  match s_head st with
  | None => Ok (s_ulen st)
  | Some hd => do n <- load (s_heap st) hd;
               if n_wip n && is_user (n_owner n) then Ok (s_ulen st - 1) else Ok (s_ulen st)
  end.

(* ------------------------------------------------------------------ dropping *)
(* queue_element_free: returns the data, the cell is gone *)
(* _drop_send_queue_element *)
Definition drop_element (st : state) (e : nat) : outcome (state * list Z) :=
  do n <- load (s_heap st) e;
  let head1 := if opt_eqb (Some e) (s_head st) then n_next n else s_head st in
  let tail1 := if opt_eqb (Some e) (s_tail st) then n_prev n else s_tail st in
  let tail2 := match head1 with None => None | Some _ => tail1 end in
  do h1 <- match n_prev n with None => Ok (s_heap st) | Some p => store (s_heap st) p (with_next (n_next n)) end;
  do h2 <- match n_next n with None => Ok h1 | Some x => store h1 x (with_prev (n_prev n)) end;
  let len' := s_len st - 1 in
  let ulen' := if is_user (n_owner n) then s_ulen st - 1 else s_ulen st in
  (* queue_element_free: returns e->data (read above), frees e *)
  Ok (mkSt (upd h2 e Freed) (s_next st) head1 tail2 len' ulen' (s_sm_enabled st) (s_r_sent st) (s_sent_nr st)
           (s_smq_head st) (s_smq_tail st) (s_connected st) (s_sched st) (s_wire st), n_data n).

(* while (t && t->owner != XMPP_QUEUE_USER) t = t->prev; *)
Fixpoint search_back (fuel : nat) (h : heap) (t : option nat) : outcome (option nat) :=
  match t with
  | None => Ok None
  | Some p => match fuel with
              | O => Fuel
              | S f => do n <- load h p; if is_user (n_owner n) then Ok (Some p) else search_back f h (n_prev n)
              end
  end.
Fixpoint search_fwd (fuel : nat) (h : heap) (t : option nat) : outcome (option nat) :=
  match t with
  | None => Ok None
  | Some p => match fuel with
              | O => Fuel
              | S f => do n <- load h p; if is_user (n_owner n) then Ok (Some p) else search_fwd f h (n_next n)
              end
  end.

Inductive which := Oldest | Youngest.

(* the tail of xmpp_conn_send_queue_drop_element once the element [t] to drop is found: also drop the
   SM request linked to it, then the element itself *)
Definition drop_found (st : state) (t : nat) : outcome (state * option (list Z)) :=
  do tn <- load (s_heap st) t;
  do st1 <- match n_next tn with
            | None => Ok st
            | Some x => do xn <- load (s_heap st) x;
                        if opt_eqb (n_userdata xn) (Some t) then
                          do r <- drop_element st x; Ok (set_r_sent (fst r) false)
                        else Ok st
            end;
  do r <- drop_element st1 t;
  Ok (fst r, Some (snd r)).

Definition drop_regular (st : state) (w : which) : outcome (state * option (list Z)) :=
  let disconnected := negb (s_connected st) in
  let fuel := S (s_next st) in
  do t0 <- match w with
           | Oldest => Ok (s_head st)
           | Youngest => search_back fuel (s_heap st) (s_tail st)
           end;
  match t0 with
  | None => Ok (st, None)
  | Some t =>
    do tn <- load (s_heap st) t;
    let t1 := if opt_eqb (Some t) (s_head st) && n_wip tn && negb disconnected then n_next tn else Some t in
    do t2 <- search_fwd fuel (s_heap st) t1;
    match t2 with
    | None => Ok (st, None)
    | Some t => drop_found st t
    end
  end.

(* xmpp_conn_send_queue_drop_element *)
Definition op_drop (st : state) (w : which) : outcome (state * option (list Z)) :=
  let disconnected := negb (s_connected st) in
  match s_head st with
  | None => Ok (st, None)
  | Some hd =>
    if opt_eqb (s_head st) (s_tail st) then
      do hn <- load (s_heap st) hd;
      if n_wip hn && negb disconnected then Ok (st, None)
      else if negb (is_user (n_owner hn)) then Ok (st, None)
      else drop_regular st w
    else drop_regular st w
  end.

(* ------------------------------------------------------------------ <a h='..'/> from the server *)
(* pop_queue_front + queue_element_free while head && head->sm_h < h; then r_sent = 0 *)
Fixpoint smq_ack_loop (fuel : nat) (h : heap) (qh qt : option nat) (ack : Z) : outcome (heap * option nat * option nat) :=
  match qh with
  | None => Ok (h, qh, qt)
  | Some p =>
    match fuel with
    | O => Fuel
    | S f =>
      do n <- load h p;
      if n_smh n <? ack then
        let qh' := n_next n in
        do h1 <- match qh' with None => Ok h | Some x => store h x (with_prev None) end;
        let qt' := match qh' with None => None | Some _ => qt end in
        do h2 <- store h1 p (fun m => with_next None (with_prev None m));
        smq_ack_loop f (upd h2 p Freed) qh' qt' ack
      else Ok (h, qh, qt)
    end
  end.

Definition op_ack (st : state) (ack : Z) : outcome state :=
  if s_connected st && s_sm_enabled st then
    do r <- smq_ack_loop (S (s_next st)) (s_heap st) (s_smq_head st) (s_smq_tail st) ack;
    let '(h, qh, qt) := r in
    Ok (mkSt h (s_next st) (s_head st) (s_tail st) (s_len st) (s_ulen st) (s_sm_enabled st) false
             (s_sent_nr st) qh qt (s_connected st) (s_sched st) (s_wire st))
  else Ok st.

(* ------------------------------------------------------------------ the operations of a history *)
Inductive op :=
| OSend (ow : owner) (data : list Z)   (* user send (OwUser) or library-generated send *)
| OSched (l : list wres)               (* the transport's coming behaviour (appended) *)
| OIter                                (* one xmpp_run_once *)
| ODrop (w : which)
| OQlen
| OAck (h : Z).

Inductive output :=
| OutNone
| OutIter (bytes : list Z) (disconnected : bool)   (* bytes accepted during this iteration *)
| OutLen (n : Z)
| OutDrop (r : option (list Z)).

Definition add_sched (st : state) (l : list wres) : state :=
  mkSt (s_heap st) (s_next st) (s_head st) (s_tail st) (s_len st) (s_ulen st) (s_sm_enabled st) (s_r_sent st)
       (s_sent_nr st) (s_smq_head st) (s_smq_tail st) (s_connected st) (s_sched st ++ l) (s_wire st).

Definition step (fx : bool) (st : state) (o : op) : outcome (state * output) :=
  match o with
  | OSend ow d => do st' <- op_send st ow d; Ok (st', OutNone)
  | OSched l => Ok (add_sched st l, OutNone)
  | OIter => do r <- op_iter fx st;
             Ok (fst r, OutIter (map snd (skipn (length (s_wire st)) (s_wire (fst r)))) (snd r))
  | ODrop w => do r <- op_drop st w; Ok (fst r, OutDrop (snd r))
  | OQlen => do n <- op_qlen st; Ok (st, OutLen n)
  | OAck h => do st' <- op_ack st h; Ok (st', OutNone)
  end.

Fixpoint run (fx : bool) (ops : list op) (st : state) : outcome (state * list output) :=
  match ops with
  | [] => Ok (st, [])
  | o :: r => do x <- step fx st o; do y <- run fx r (fst x); Ok (fst y, snd x :: snd y)
  end.

(* a freshly connected connection; [sm] = stream management was enabled during negotiation *)
Definition init (sm : bool) : state :=
  mkSt (fun _ => Unalloc) 0 None None 0 0 sm false 0 None None true [] [].

(* ------------------------------------------------------------------ observation of the structure *)
(* walk head -> next ...: (id, node) in queue order; used by the driver's dumpq and by the statements *)
Fixpoint walk (fuel : nat) (h : heap) (p : option nat) : outcome (list (nat * node)) :=
  match p with
  | None => Ok []
  | Some x => match fuel with
              | O => Fuel
              | S f => do n <- load h x; do r <- walk f h (n_next n); Ok ((x, n) :: r)
              end
  end.
Definition queue_of (st : state) : outcome (list (nat * node)) := walk (S (s_next st)) (s_heap st) (s_head st).
Definition smq_of (st : state) : outcome (list (nat * node)) := walk (S (s_next st)) (s_heap st) (s_smq_head st).
